"""Reproductions of the genuine defects of DESIGN.md section 5 (not a check)."""
import copy
import json
import os
import re
import sys

os.environ.setdefault('TF_CPP_MIN_LOG_LEVEL', '3')
import numpy as np
from ai_edge_quantizer import qtyping, quantizer, recipe_manager
from ai_edge_quantizer.algorithms.uniform_quantize import uniform_quantize_tensor as uqt
from ai_edge_quantizer.utils import test_utils, tfl_flatbuffer_utils, tfl_interpreter_utils
from ai_edge_litert import schema_py_generated as s
from tensorflow.lite.tools import flatbuffer_utils

M = '/repo/ai_edge_quantizer/tests/models/'
R = '/repo/ai_edge_quantizer/recipes/'
OP = {v: k for k, v in s.BuiltinOperator.__dict__.items() if isinstance(v, int)}
TT = {v: k for k, v in s.TensorType.__dict__.items() if isinstance(v, int)}
FC = qtyping.TFLOperationName.FULLY_CONNECTED


def a8w8(sym=False):
  return qtyping.OpQuantizationConfig(
      activation_tensor_config=qtyping.TensorQuantizationConfig(8, symmetric=sym),
      weight_tensor_config=qtyping.TensorQuantizationConfig(8, symmetric=True),
      compute_precision=qtyping.ComputePrecision.INTEGER,
  )


def two_fc_chain():
  """x -FC-> t -FC-> u with graph outputs [t, u]; every tensor has its own buffer."""
  rng = np.random.default_rng(0)
  m = s.ModelT(); m.version = 3; m.buffers = [s.BufferT()]
  sg = s.SubGraphT(); sg.name = b'main'; sg.tensors = []; sg.operators = []
  spec = [('x', (1, 4), None), ('w1', (4, 4), 1), ('b1', (4,), 1), ('t', (1, 4), None),
          ('w2', (4, 4), 1), ('b2', (4,), 1), ('u', (1, 4), None)]
  for name, shape, const in spec:
    t = s.TensorT(); t.name = name.encode(); t.shape = list(shape); t.type = s.TensorType.FLOAT32
    b = s.BufferT()
    if const:
      b.data = np.frombuffer(rng.normal(size=shape).astype(np.float32).tobytes(), dtype=np.uint8)
    m.buffers.append(b); t.buffer = len(m.buffers) - 1; sg.tensors.append(t)
  oc = s.OperatorCodeT(); oc.builtinCode = s.BuiltinOperator.FULLY_CONNECTED
  oc.deprecatedBuiltinCode = s.BuiltinOperator.FULLY_CONNECTED; oc.version = 1
  m.operatorCodes = [oc]
  for i, o in (([0, 1, 2], [3]), ([3, 4, 5], [6])):
    op = s.OperatorT(); op.opcodeIndex = 0; op.inputs = i; op.outputs = o
    op.builtinOptionsType = s.BuiltinOptions.FullyConnectedOptions
    op.builtinOptions = s.FullyConnectedOptionsT(); sg.operators.append(op)
  sg.inputs = [0]; sg.outputs = [3, 6]; m.subgraphs = [sg]
  sd = s.SignatureDefT(); sd.signatureKey = b'serving_default'; sd.subgraphIndex = 0
  sd.inputs = []; sd.outputs = []
  for k, (lst, ids) in enumerate(((sd.inputs, [0]), (sd.outputs, [3, 6]))):
    for j, i in enumerate(ids):
      tm = s.TensorMapT(); tm.name = (('in' if k == 0 else 'out') + str(j)).encode()
      tm.tensorIndex = i; lst.append(tm)
  m.signatureDefs = [sd]
  return bytearray(flatbuffer_utils.convert_object_to_bytearray(m))


def ops_of(model_bytes):
  m = tfl_flatbuffer_utils.read_model(bytes(model_bytes)); sg = m.subgraphs[0]
  rows = []
  for o in sg.operators:
    rows.append((OP[m.operatorCodes[o.opcodeIndex].builtinCode],
                 [(sg.tensors[t].name.decode(), TT[sg.tensors[t].type]) for t in o.inputs if t != -1],
                 [(sg.tensors[t].name.decode(), TT[sg.tensors[t].type]) for t in o.outputs]))
  return m, sg, rows


def F1():
  qt = quantizer.Quantizer(M + 'conv_fc_mnist.tflite', R + 'default_a8w8_recipe.json')
  data = test_utils.create_random_normal_input_data(M + 'conv_fc_mnist.tflite', num_samples=2)
  cr = qt.calibrate(data['serving_default']); before = copy.deepcopy(cr)
  qt.quantize(cr)
  changed = [k for k in before if not (np.array_equal(before[k]['min'], cr[k]['min'])
                                       and np.array_equal(before[k]['max'], cr[k]['max']))]
  return 'quantize() changed calibration_result entries %s' % changed if changed else None


def F2():
  """After the repair both scope builders append ';': 'name$' selects nothing, 'name;' the op."""
  name = 'StatefulPartitionedCall:0'
  data = test_utils.create_random_normal_input_data(M + 'single_fc.tflite', num_samples=1)['serving_default']
  msgs = []
  for suffix in ('$', ';', ''):
    qt = quantizer.Quantizer(M + 'single_fc.tflite')
    qt.update_quantization_recipe(re.escape(name) + suffix, FC, a8w8())
    cr = qt.calibrate(data)
    try:
      _, _, rows = ops_of(qt.quantize(cr).quantized_model)
    except RuntimeError as e:
      msgs.append("regex 'name%s': calibrate() returned %d entries, quantize() raised %s" % (suffix, len(cr), type(e).__name__))
      continue
    quantized = any(t != 'FLOAT32' for _, i, o in rows for _, t in i + o)
    if bool(cr) != quantized:
      msgs.append("regex 'name%s': calibrated %d tensors but op quantized=%s" % (suffix, len(cr), quantized))
  return '; '.join(msgs) or None


def F3():
  qt = quantizer.Quantizer(M + 'two_signatures.tflite', R + 'default_a8w8_recipe.json')
  data = test_utils.create_random_normal_input_data(M + 'two_signatures.tflite', num_samples=1)
  try:
    cr = qt.calibrate(data['add'], 'add'); qt.calibrate(data['multiply'], 'multiply', cr)
  except KeyError as e:
    return 'calibrate() on a two-signature model raised KeyError %s' % e
  return None


def F4():
  qt = quantizer.Quantizer(M + 'single_fc.tflite'); qt.update_quantization_recipe('.*', FC, a8w8())
  data = test_utils.create_random_normal_input_data(M + 'single_fc.tflite', num_samples=1)['serving_default']
  _, _, rows = ops_of(qt.quantize(qt.calibrate(data)).quantized_model)
  kinds = [r[0] for r in rows]
  if kinds.index('DEQUANTIZE') < kinds.index('FULLY_CONNECTED'):
    return 'operator order %s: DEQUANTIZE precedes its producer' % kinds
  return None


def _chain(regex):
  mb = two_fc_chain(); qt = quantizer.Quantizer(mb); qt.update_quantization_recipe(regex, FC, a8w8())
  data = [{'in0': np.random.default_rng(1).normal(size=(1, 4)).astype(np.float32)}]
  out = qt.quantize(qt.calibrate(data)).quantized_model
  return out, data


def F5():
  out, data = _chain('.*')
  try:
    it = tfl_interpreter_utils.create_tfl_interpreter(bytes(out))
    tfl_interpreter_utils.invoke_interpreter_signature(it, data[0])
  except RuntimeError as e:
    return 'returned model is rejected by the interpreter: %s' % str(e).splitlines()[0][:120]
  return None


def F6():
  out, _ = _chain('u')  # only the second FC is static-range; OUTPUT is not covered
  m, sg, _ = ops_of(out)
  msgs = []
  bad = [sg.tensors[i].name.decode() for i in sg.outputs if sg.tensors[i].type != s.TensorType.FLOAT32]
  if bad:
    msgs.append('graph outputs switched to non-float tensors %s' % bad)
  sig = [o.tensorIndex for o in m.signatureDefs[0].outputs]
  if sig != list(sg.outputs):
    msgs.append('signature outputs %s != subgraph outputs %s' % (sig, list(map(int, sg.outputs))))
  return '; '.join(msgs) or None


def F7():
  try:
    quantizer.Quantizer(M + 'single_fc.tflite', R + 'sample_advanced_usage_recipe.json')
  except TypeError as e:
    return 'shipped sample recipe does not load: %s' % e
  return None


def F8():
  x = np.array([0., 1., 2., 3.], dtype=np.float32)
  zp, sc = uqt.tensor_zp_scale_from_min_max(np.array([0.]), np.array([3.]), 8, False)
  p = qtyping.UniformQuantParams(8, None, sc, zp, symmetric=False)
  back = uqt.uniform_dequantize(uqt.uniform_quantize(x, p), p)
  if np.max(np.abs(back - x)) > float(sc[0]):
    return 'dequantize(quantize(x)) = %s for x = %s' % (np.round(back, 3).tolist(), x.tolist())
  return None


def F9():
  rm = recipe_manager.RecipeManager(); rm.add_quantization_config('.*', '*')
  saved = json.loads(json.dumps(rm.get_quantization_recipe()))
  try:
    recipe_manager.RecipeManager().load_quantization_recipe(saved)
  except KeyError as e:
    return 'recipe written by get_quantization_recipe() does not reload: KeyError %s' % e
  return None


def F10():
  qt = quantizer.Quantizer(M + 'single_fc.tflite')
  qt.update_quantization_recipe('no_such_tensor_name', FC, a8w8())
  data = test_utils.create_random_normal_input_data(M + 'single_fc.tflite', num_samples=1)['serving_default']
  cr = qt.calibrate(data)
  try:
    qt.quantize(cr)
  except RuntimeError as e:
    return 'calibrate() returned %r and quantize() with it raised: %s' % (cr, str(e)[:60])
  return None


def F6b():
  qt = quantizer.Quantizer(M + 'single_fc.tflite'); qt.update_quantization_recipe('.*', FC, a8w8())
  data = test_utils.create_random_normal_input_data(M + 'single_fc.tflite', num_samples=1)['serving_default']
  out = qt.quantize(qt.calibrate(data)).quantized_model
  it = tfl_interpreter_utils.create_tfl_interpreter(bytes(out))
  r = tfl_interpreter_utils.invoke_interpreter_signature(it, data[0])
  bad = {k: str(v.dtype) for k, v in r.items() if v.dtype != np.float32}
  return 'signature runner returns %s although OUTPUT is not covered by the recipe' % bad if bad else None


def F12():
  """Large-model serialisation with two zero-length constants in the model."""
  from ai_edge_quantizer import model_modifier
  content = open(M + 'single_fc.tflite', 'rb').read()
  m = flatbuffer_utils.read_model_from_bytearray(bytearray(content))
  for _ in range(2):
    b = s.BufferT(); b.data = np.array([], dtype=np.uint8); b.offset = 0; b.size = 0
    m.buffers.append(b)
  datas = [None if b.data is None else bytes(np.asarray(b.data).tobytes()) for b in m.buffers]
  mm = model_modifier.ModelModifier(content)
  mm._constant_map = []
  mm._process_constant_map(m)
  out = mm._serialize_large_model(m)
  bad = [i for i, (b, d) in enumerate(zip(m.buffers, datas)) if d and bytes(out[b.offset:b.offset + b.size]) != d]
  return 'large-model form: buffers %s do not hold their constants at the recorded offsets' % bad if bad else None


def F13():
  """concat([x, x, z]) with the shipped static-range recipes."""
  import tensorflow as tf
  m = tf.Module()
  m.f = tf.function(lambda x, z: {'out': tf.concat([x, x, z], axis=1)})
  spec = tf.TensorSpec([2, 8], tf.float32)
  model = tf.lite.TFLiteConverter.from_concrete_functions([m.f.get_concrete_function(spec, spec)], m).convert()
  it = tfl_interpreter_utils.create_tfl_interpreter(bytes(model))
  names = list(it.get_signature_runner('serving_default').get_input_details().keys())
  rng = np.random.default_rng(1)
  data = [{n: rng.normal(size=(2, 8)).astype(np.float32) for n in names} for _ in range(3)]
  bad = []
  for rp in ('default_a8w8_recipe.json', 'default_a16w8_recipe.json'):
    qt = quantizer.Quantizer(bytearray(model), R + rp)
    try:
      qt.quantize(qt.calibrate(data, signature_key='serving_default'))
    except ValueError as e:
      bad.append('%s: ValueError %s' % (rp, e))
  return '; '.join(bad) or None


def F14():
  """concat([x, const]) with the shipped static-range recipes: the constant is retyped, its buffer is not rewritten."""
  import tensorflow as tf
  c = np.linspace(-2, 2, 16).astype(np.float32).reshape(2, 8)
  m = tf.Module()
  m.f = tf.function(lambda x: {'out': tf.concat([x, tf.constant(c)], axis=1)})
  model = tf.lite.TFLiteConverter.from_concrete_functions([m.f.get_concrete_function(tf.TensorSpec([2, 8], tf.float32))], m).convert()
  rng = np.random.default_rng(1)
  data = [{'x': rng.normal(size=(2, 8)).astype(np.float32)} for _ in range(3)]
  bad = []
  for rp in ('default_a8w8_recipe.json', 'default_a16w8_recipe.json'):
    qt = quantizer.Quantizer(bytearray(model), R + rp)
    out = qt.quantize(qt.calibrate(data, signature_key='serving_default')).quantized_model
    q = flatbuffer_utils.read_model_from_bytearray(bytearray(out))
    for t in q.subgraphs[0].tensors:
      b = q.buffers[t.buffer]
      if b.data is not None and len(b.data):
        width = {s.TensorType.INT8: 1, s.TensorType.INT16: 2, s.TensorType.FLOAT32: 4}.get(t.type, 0)
        if width * int(np.prod(t.shape)) != len(b.data):
          bad.append('%s: constant %s is %s%s but its buffer holds %d bytes' % (rp, t.name.decode(), TT[t.type], list(map(int, t.shape)), len(b.data)))
  return '; '.join(bad) or None


if __name__ == '__main__':
  cases = sys.argv[1:] or ['F%d' % i for i in range(1, 11)] + ['F6b', 'F12', 'F13', 'F14']
  for c in cases:
    try:
      r = globals()[c]()
    except Exception as e:  # pylint: disable=broad-except
      r = 'unexpected %s: %s' % (type(e).__name__, str(e)[:200])
    print(('DEFECT %s: %s' % (c, r)) if r else ('ok %s' % c), flush=True)
