"""Which catalogue variants does ONE shared rule report on its own?
usage: rule_probe.py <shared rule function | module:function[:extra arg]> [file substring ...]
Used to see how much of the catalogue a decision table subsumes."""
import multiprocessing
import os
import sys

sys.path.insert(0, os.path.dirname(os.path.dirname(os.path.abspath(__file__))))
from sa import index, mutants, report  # pylint: disable=g-import-not-at-top
from sa.rules import shared

BASE = None
FN = None


def one(mid):
  m = next(x for x in mutants.CATALOGUE if x.id == mid)
  ov = m.apply(BASE)
  if ov is None:
    return mid, 'skipped'
  try:
    v = index.Repo(BASE.root, overlay=ov, base=BASE)
    ctx = report.Ctx(m.prop, v, 'quick', 0, True)
    if ':' in FN:
      import importlib  # pylint: disable=g-import-not-at-top
      parts = FN.split(':')
      fn = getattr(importlib.import_module('sa.rules.' + parts[0]), parts[1])
      fn(ctx, 'X.R1', *parts[2:])
    else:
      getattr(shared, FN)(ctx, 'X.R1')
    return mid, ('REPORTS' if ctx.violations else 'silent') + (' (twin)' if m.kind == 'twin' else '')
  except index.AnalysisError as e:
    return mid, 'analysis-error ' + str(e)[:80]
  except Exception as e:  # pylint: disable=broad-except
    return mid, f'internal {type(e).__name__}: {str(e)[:80]}'


def main():
  global BASE, FN
  FN = sys.argv[1]
  subs = sys.argv[2:]
  BASE = index.load_repo()
  from sa import mutant_catalogue  # pylint: disable=g-import-not-at-top,unused-import
  ids = [m.id for m in mutants.CATALOGUE if not subs or any(s in e[0] for e in m.edits for s in subs)]
  with multiprocessing.get_context('fork').Pool(12) as pool:
    for mid, r in pool.map(one, ids):
      print(f'{mid:40s} {r}')


if __name__ == '__main__':
  main()
