#!/bin/bash
# Behaviour-preserving refactorings written by sub-agents (seeded_twins/*/patch.diff; each passes the repository's
# suite and produces identical quantized models): every check must stay silent (exit 0) on each of them.
# usage: tools/check_twins.sh            (scratch copies under /tmp, removed afterwards; /repo is not touched)
cd /verif
ALL=$(/venv/bin/python -c "import json;print(' '.join(c['property_id'] for c in json.load(open('MANIFEST.json'))['checks']))")
rc=0
for d in seeded_twins/*/; do
  n=$(basename "$d")
  out=$(tools/check_patch.sh "/verif/$d/patch.diff" $ALL 2>&1); code=$?
  bad=$(echo "$out" | grep -E "^ai_edge|ANALYSIS-ERROR|patch does not apply" | head -5)
  if [ $code -ne 0 ] || [ -n "$bad" ]; then rc=1; echo "$n: NOT silent (exit $code)"; echo "$bad" | cut -c1-300; else echo "$n: silent on all checks"; fi
done
exit $rc
