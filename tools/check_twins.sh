#!/bin/bash
# Behaviour-preserving refactorings written by sub-agents (seeded_twins/*/patch.diff; each passes the repository's
# suite and produces identical quantized models). No check may print a VIOLATION on any of them (exit 1 if one does);
# an ANALYSIS-ERROR ("cannot decide": a table that drives a private function whose parameters changed) is reported.
# usage: tools/check_twins.sh            (scratch copies under /tmp, removed afterwards; /repo is not touched)
cd /verif
ALL=$(/venv/bin/python -c "import json;print(' '.join(c['property_id'] for c in json.load(open('MANIFEST.json'))['checks']))")
rc=0
for d in seeded_twins/*/; do
  n=$(basename "$d")
  out=$(tools/check_patch.sh "/verif/$d/patch.diff" $ALL 2>&1); code=$?
  v=$(echo "$out" | grep -c "^VIOLATION"); a=$(echo "$out" | grep -c "ANALYSIS-ERROR")
  echo "$n: exit=$code violations=$v analysis_errors=$a"
  if [ "$v" -ne 0 ] || echo "$out" | grep -q "patch does not apply"; then rc=1; echo "$out" | grep -E "^ai_edge" | head -5 | cut -c1-300; fi
done
exit $rc
