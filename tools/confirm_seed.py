"""Confirms a seeded change delivered by a sub-agent and files it under /verif/seeded/<name>/.

usage: confirm_seed.py <name> <property> <dir with patch.diff demo.py notes.md> [--workers N]

In a fresh scratch worktree of /repo (outside /repo and /verif, removed at the end):
  1. demo.py exits 0 on the unmodified tree,
  2. the patch applies, the package still imports,
  3. demo.py exits non-zero with the patch,
  4. every test of BASELINE.json's stable_pass list still passes with the patch.
Nothing is ever committed to /repo.
"""
import json
import os
import shutil
import subprocess
import sys
import tempfile
import xml.etree.ElementTree as ET

PY = '/venv/bin/python'


def run(cmd, cwd, env=None, timeout=3600):
  e = dict(os.environ)
  e['TF_CPP_MIN_LOG_LEVEL'] = '3'
  if env:
    e.update(env)
  p = subprocess.run(cmd, cwd=cwd, env=e, capture_output=True, text=True, timeout=timeout, shell=isinstance(cmd, str))
  return p.returncode, (p.stdout + p.stderr)


def main():
  name, prop, src = sys.argv[1:4]
  workers = '8'
  if '--workers' in sys.argv:
    workers = sys.argv[sys.argv.index('--workers') + 1]
  wt = tempfile.mkdtemp(prefix='confirm_', dir='/tmp')
  os.rmdir(wt)
  rc, out = run(['git', '-C', '/repo', 'worktree', 'add', '-q', '--detach', wt, 'HEAD'], '/')
  if rc:
    print(out)
    return 2
  meta = {'name': name, 'property': prop, 'repo_head': subprocess.check_output(['git', '-C', '/repo', 'rev-parse', 'HEAD'], text=True).strip()}
  try:
    env = {'PYTHONPATH': wt}
    demo = os.path.join(src, 'demo.py')
    rc0, out0 = run([PY, demo], wt, env)
    meta['demo_unmodified_exit'] = rc0
    rc, out = run(['git', 'apply', os.path.join(src, 'patch.diff')], wt)
    meta['patch_applies'] = rc == 0
    if rc:
      print('patch does not apply:', out)
    rc, out = run([PY, '-c', 'import ai_edge_quantizer.quantizer'], wt, env)
    meta['imports'] = rc == 0
    rc1, out1 = run([PY, demo], wt, env)
    meta['demo_patched_exit'] = rc1
    meta['demo_patched_tail'] = out1.strip().splitlines()[-3:]
    junit = os.path.join(wt, 'junit.xml')
    rc, out = run([PY, '-m', 'pytest', '-q', '-p', 'no:cacheprovider', '--timeout=900', '--continue-on-collection-errors', '-n', workers, f'--junitxml={junit}'], wt, env)
    stable = set(json.load(open('/root/.vp/BASELINE.json'))['stable_pass'])
    res = {}
    for tc in ET.parse(junit).iter('testcase'):
      res[tc.get('classname') + '::' + tc.get('name')] = not any(c.tag in ('failure', 'error', 'skipped') for c in tc)
    bad = sorted(s for s in stable if not res.get(s, False))
    if bad:
      # re-run the failing ones alone (mnist tests are flaky under parallel load)
      ids = []
      for b in bad:
        cls, test = b.split('::')
        mod, c = cls.rsplit('.', 1)
        ids.append(mod.replace('.', '/') + '.py::' + c + '::' + test)
      rc, out = run([PY, '-m', 'pytest', '-q', '-p', 'no:cacheprovider', '--timeout=900', f'--junitxml={junit}'] + ids, wt, env)
      for tc in ET.parse(junit).iter('testcase'):
        res[tc.get('classname') + '::' + tc.get('name')] = not any(c.tag in ('failure', 'error', 'skipped') for c in tc)
      bad = sorted(s for s in stable if not res.get(s, False))
    meta['stable_pass_total'] = len(stable)
    meta['stable_pass_failing_with_patch'] = bad
    ok = (rc0 == 0 and meta['patch_applies'] and meta['imports'] and rc1 != 0 and not bad)
    meta['confirmed'] = ok
    meta['ran'] = [
        f'PYTHONPATH=<scratch worktree> {PY} demo.py  (unmodified: exit {rc0}; patched: exit {rc1})',
        f'{PY} -m pytest -q -p no:cacheprovider --timeout=900 --continue-on-collection-errors -n {workers}  (all {len(stable)} stable_pass tests pass with the patch: {not bad})',
    ]
    print(json.dumps(meta, indent=1))
    if ok:
      dst = os.path.join('/verif/seeded', name)
      os.makedirs(dst, exist_ok=True)
      for fn in ('patch.diff', 'demo.py', 'notes.md'):
        if os.path.exists(os.path.join(src, fn)):
          shutil.copy(os.path.join(src, fn), os.path.join(dst, fn))
      mp = os.path.join(dst, 'meta.json')
      old = json.load(open(mp)) if os.path.exists(mp) else {}
      old.update(meta)
      json.dump(old, open(mp, 'w'), indent=1)
    return 0 if ok else 1
  finally:
    subprocess.run(['git', '-C', '/repo', 'worktree', 'remove', '--force', wt])
    shutil.rmtree(wt, ignore_errors=True)


if __name__ == '__main__':
  sys.exit(main())
