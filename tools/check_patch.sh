#!/bin/bash
# usage: tools/check_patch.sh <patch.diff> <Cxx> [Cyy ...]
# Runs the named checks against a scratch copy of /repo with the patch applied
# (copy lives under /tmp and is removed afterwards; /repo is not touched).
set -u
patch=$1; shift
tmp=$(mktemp -d /tmp/sa_patch_XXXX)
cp -r /repo/ai_edge_quantizer "$tmp/"
( cd "$tmp" && git init -q . >/dev/null 2>&1 && git apply "$patch" ) || { echo "patch does not apply"; rm -rf "$tmp"; exit 3; }
rc=0
for p in "$@"; do
  out=$(cd /verif && SA_REPO="$tmp" /venv/bin/python -m sa.check "$p" --no-write --no-selftest 2>&1)
  code=$?
  echo "$out" | grep -E "^ai_edge|VIOLATION|ANALYSIS-ERROR|^$p \[" | sed "s#$tmp/##g" | cut -c1-400
  [ $code -ne 0 ] && rc=$code
done
rm -rf "$tmp"
exit $rc
