#!/bin/bash
# Runs every claimed check (quick by default) against /repo and rewrites evidence/.
tier=${1:-quick}
cd /verif
rc=0
for p in $(/venv/bin/python -c "import json;print(' '.join(c['property_id'] for c in json.load(open('MANIFEST.json'))['checks']))"); do
  out=$(/venv/bin/python -m sa.check $p --tier $tier 2>&1); code=$?
  echo "$out" | grep -E "selftest|VIOLATION|ANALYSIS-ERROR|KNOWN-FINDING|^$p \["
  [ $code -ne 0 ] && rc=1 && echo "   -> $p exit $code"
done
exit $rc
