"""Robustness probe: alpha-rename every local variable of one function at a time
(in memory) and run the checks; a behaviour-preserving rename must not make any
rule report. Prints the rules / analysis errors that a rename provokes.

usage: rename_twins.py [Cxx ...]      (default: all claimed properties)
"""
import ast
import io
import json
import multiprocessing
import os
import sys
import tokenize

sys.path.insert(0, os.path.dirname(os.path.dirname(os.path.abspath(__file__))))
from sa import check as sacheck  # pylint: disable=g-import-not-at-top
from sa import index

BASE = None
PROPS = []


def local_names(fn: ast.FunctionDef) -> set:
  params = {a.arg for a in fn.args.posonlyargs + fn.args.args + fn.args.kwonlyargs}
  if fn.args.vararg:
    params.add(fn.args.vararg.arg)
  if fn.args.kwarg:
    params.add(fn.args.kwarg.arg)
  out = set()
  skip = set()
  for n in ast.walk(fn):
    if isinstance(n, (ast.Global, ast.Nonlocal)):
      skip.update(n.names)
    if isinstance(n, ast.Name) and isinstance(n.ctx, ast.Store):
      out.add(n.id)
    if isinstance(n, (ast.FunctionDef, ast.ClassDef)) and n is not fn:
      skip.add(n.name)
      for a in n.args.posonlyargs + n.args.args + n.args.kwonlyargs if isinstance(n, ast.FunctionDef) else []:
        skip.add(a.arg)
  return {x for x in out if x not in params and x not in skip and x != '_'}


def rename_in_range(src: str, first: int, last: int, names: set) -> str:
  toks = list(tokenize.generate_tokens(io.StringIO(src).readline))
  out = []
  depth = 0
  for i, t in enumerate(toks):
    s = t.string
    if t.type == tokenize.OP:
      if s in '([{':
        depth += 1
      elif s in ')]}':
        depth -= 1
    if t.type == tokenize.NAME and s in names and first <= t.start[0] <= last:
      j = i - 1
      while j >= 0 and toks[j].type in (tokenize.NL, tokenize.COMMENT, tokenize.NEWLINE, tokenize.INDENT, tokenize.DEDENT):
        j -= 1
      prev = toks[j] if j >= 0 else None
      nxt = toks[i + 1] if i + 1 < len(toks) else None
      is_attr = prev is not None and prev.type == tokenize.OP and prev.string == '.'
      is_kwarg = depth > 0 and nxt is not None and nxt.type == tokenize.OP and nxt.string == '=' and prev is not None and prev.string in ('(', ',')
      if not is_attr and not is_kwarg:
        s = s + '_rn'
    out.append((t.type, s, t.start, t.end, t.line))
  # simpler: token-based untokenize (format may change, semantics do not)
  return tokenize.untokenize([(a, b) for a, b, *_ in out])


def variants():
  for m in BASE.modules.values():
    for qn, f in m.functions.items():
      if f.parent is not None:
        continue
      names = local_names(f.node)
      if not names:
        continue
      yield (m.rel, qn, f.node.lineno, f.node.end_lineno, sorted(names))


def run_variant(v):
  rel, qn, first, last, names = v
  src = BASE.read_text(rel)
  try:
    new = rename_in_range(src, first, last, set(names))
    ast.parse(new)
  except Exception as e:  # pylint: disable=broad-except
    return (rel, qn, {'_rename_failed': str(e)[:80]})
  problems = {}
  try:
    variant = index.Repo(BASE.root, overlay={rel: new}, base=BASE)
  except index.AnalysisError as e:
    return (rel, qn, {'_index': str(e)[:100]})
  for p in PROPS:
    try:
      ctx = sacheck.run_rules(p, variant, 'quick', 0, quiet=True)
      if ctx.analysis_errors:
        problems[p] = 'ANALYSIS-ERROR: ' + '; '.join(ctx.analysis_errors)[:140]
        continue
      ctx.check_floors()
      fired = sorted({x.rule for x in ctx.violations})
      if fired:
        problems[p] = fired
    except index.AnalysisError as e:
      problems[p] = 'ANALYSIS-ERROR: ' + str(e)[:140]
    except Exception as e:  # pylint: disable=broad-except
      problems[p] = f'internal {type(e).__name__}: {str(e)[:100]}'
  return (rel, qn, problems)


def main():
  global BASE, PROPS
  BASE = index.load_repo()
  PROPS = sys.argv[1:] or [c['property_id'] for c in json.load(open('/verif/MANIFEST.json'))['checks']]
  vs = list(variants())
  print(f'{len(vs)} functions with locals; properties {PROPS}')
  with multiprocessing.get_context('fork').Pool(16) as pool:
    res = pool.map(run_variant, vs, chunksize=1)
  bad = [(r, q, p) for r, q, p in res if p]
  for r, q, p in bad:
    print(f'{r}::{q}: {p}')
  print(f'{len(bad)} of {len(vs)} rename twins provoke a report')


if __name__ == '__main__':
  main()
