"""Runs every claimed check against every seeded change (scratch copy + patch)
and records which rules report it: seeded/<name>/meta.json['caught_by'] and
seeded/MATRIX.md. Nothing is committed to /repo; copies live under /tmp."""
import concurrent.futures
import json
import os
import re
import shutil
import subprocess
import sys
import tempfile

VERIF = os.path.dirname(os.path.dirname(os.path.abspath(__file__)))
BLIND = {  # did the owning check exist, unchanged, before the change was seen?
    'a1-C01': 'no (C15/C01 checks written later)', 'a1-C02': 'no', 'a1-C03': 'no', 'a1-C04': 'no', 'a1-C05': 'no', 'a1-C09': 'no',
    'a2-C08': 'no', 'a2-C10': 'no', 'a2-C11': 'no', 'a2-C13': 'no', 'a2-C15': 'no', 'a2-C16': 'C14.R2 yes / C16 no',
    'b3-C12': 'yes - MISSED, then fixed', 'b3-C14': 'yes - caught', 'b3-C17': 'yes - MISSED, then fixed',
    'b4-C02': 'yes - MISSED (no rule covered the consumer translation of mixed [op, -1] lists), then fixed: C02.R5 decision table',
    'b4-C03': 'yes - MISSED (support check exercised only for * rules), then fixed: fcBad row in C11.R3 store lattice',
    'b4-C04': 'yes - ANALYSIS-ERROR (anchor vanished), then C04.R6 routing table decides it',
    'b4-C05': 'yes - caught by a shape accident, rule rewritten (C05.R2 dtype typestate)',
    'b4-C15': 'yes - MISSED by C15 (C03.R3 reported it), then fixed: C15.R1 unfiltered group, C15.R7',
    'b4-C16': 'yes - ANALYSIS-ERROR (idiom unknown, not decided); then C16.R6 layout table decides it (patch rebased on fix 7888e06)',
    'b5-C01': 'yes - MISSED (simulation used sorted consumer lists only), then fixed: unsorted rows in C01.R15',
    'b5-C08': 'yes - MISSED; delivered for C08, its trigger was defect F13 (now repaired); kept under C04 with an own demo; decided by C04.R10',
    'b5-C09': 'yes - MISSED by C09, C10.R1/R2 reported; C10.R2 strengthened (every iteration path) and shared as C09.R10',
    'b5-C10': 'yes - MISSED (only a false report from C12.R2, since fixed); then C10.R6 table',
    'b5-C11': 'yes - caught (C11.R1 purity, C11.R3/R4; also C03.R10, C14)',
    'b5-C13': 'yes - MISSED by C13; C11/C03/C08/C14 reported; C13.R6-R8 added',
    'b6-C04': 'yes - caught (C04.R7 = C17.R2 formula identity)',
    'b6-C12': 'yes - MISSED by C12 (C11.R3 reported); then C12.R7 session round-trip table',
    'b6-C14': 'yes - MISSED (C14.R4 did not see set algebra on dict views), then fixed',
    'b6-C17': 'yes - caught (C17.R1 clip before cast); C17.R11 scalar table added as a shape-independent second opinion',
    'b6-C18': 'yes - caught (C18.R3)',
    'b6-C19': 'yes - caught by a signature accident; entry-level multi-subgraph graph-info table added (C19.R1)',
    'b7-C02': 'yes - caught (C02.R7 rewrite simulation: an uncovered graph output is rewired; also C01.R15, C03.R11, C19.R11)',
    'b7-C03': 'yes - caught (C03.R12 plan simulation, C10.R7 selection simulation, C09.R10)',
    'b7-C05': 'yes - ANALYSIS-ERROR only (anchor _get_reduce_dims deleted); then decided by the exact array model: C04.R11 statistics table, C05.R11 numeric table',
    'b7-C13': 'yes - MISSED: the interpreter compared dataclass values on ALL fields and did not know compare=False; fixed in consteval/absint, C13.R1 then reports',
    'b7-C15': 'yes - caught (C15.R5 compatibility table is not symmetric)',
    'b7-C16': 'yes - caught (C16.R5 path-split rule and C02.R3: signature outputs not retargeted on the large-model path)',
    'b8-C01': 'yes - reported only through an incomplete stand-in (AttributeError = "not decided"); op replacement is now modelled in the bookkeeping simulation C01.R14 = C19.R10, which names the misplaced operator',
    'b8-C04': 'yes - caught (C04.R2 kernel constants)',
    'b8-C08': 'yes - MISSED; then C10.R8 = C08.R7 end-to-end calibrate-then-plan table (real content-map helper, registry functions and materialisers on a label model)',
    'b8-C09': 'yes - MISSED; then C09.R12 = C10.R9 signature -> subgraph table with signatures listed out of subgraph order',
    'b8-C10': 'yes - MISSED (same site as b8-C09, found independently); then C10.R9',
    'b8-C11': 'yes - MISSED; then C11.R6 "loading a list == adding its entries in order" over all lists of up to 3 entries',
    'b9-C02': 'yes - only ANALYSIS-ERROR (scope builder shape); then the scope table in C10.R1 and scope-sensitive rows in the whole-pipeline simulation (C02.R9: graph output has type INT8, expected float)',
    'b9-C12': 'yes - MISSED; then a string-valued float-casting rule in the C12.R7 alphabet and a faithful `is` between str and enum member in the interpreter',
    'b9-C14': 'yes - MISSED; the effect analysis now treats next(<iterator>) as a mutation: C14.R3 reports the module-level counter',
    'b9-C17': 'yes - caught (C17.R7 / C17.R11 narrow range at 16 bits)',
    'b9-C18': 'yes - caught (C18.R3, C18.R9 metric argument order)',
    'b9-C19': 'yes - MISSED; then C19.R12: model-wide tables are append-only in every transformation',
    'b10-C03': 'yes - MISSED; then a stale-statistics case in the whole-pipeline simulation (selected operator left float) and the error-discipline rule C03.R15 = C10.R10',
    'b10-C05': 'yes - caught (C05.R7 = C17.R7 formula identity of uniform_quantize)',
    'b10-C08': 'yes - caught (whole-pipeline, calibrate-then-plan and selection simulations: C08.R7/R8, C10.R7/R8, C03.R12/R14, ...)',
    'b10-C13': 'yes - MISSED (lattice did not vary the activation granularity / dtype); lattice extended to 24 288 rows',
    'b10-C15': 'yes - missed by C15 (C01.R1 and C19.R7 reported); C15.R9 shares the name-uniqueness rule',
    'b10-C16': 'yes - MISSED; then C14.R7 (no mutable class-body object mutated through instances) and the ownership clause of C16.R4',
    'b11-C01': 'yes - MISSED; then C01.R17: new tensors are named <existing tensor>.name + <suffix unique among creation sites>',
    'b11-C04': 'yes - caught (C04.R4b / C17.R8 bias scale = input scale x weight scale)',
    'b11-C09': 'yes - only a budget ANALYSIS-ERROR at first (isinstance(NdArr, np.ndarray) was undecided and forked); the array model now tracks an element kind: C09.R2 and the numeric simulation C09.R11 (integer-typed runtime path) report it',
    'b11-C10': 'yes - caught (C10.R7 loaded-statistics variant, C09.R10)',
    'b11-C11': 'yes - caught (C11.R5 add table: scope order)',
    'b11-C17': 'yes - caught (C17.R2 / C17.R12 parameter laws for all-negative ranges; C04.R7)',
    'b17-C02': 'yes - MISSED by every check; the graph rewrite simulation had no plan in which the LAST operator and the graph output (-1) are covered by two different groups of one tensor; three such cases added: C02.R7 = C01.R15 = C03.R11 = C19.R11 report it',
    'b17-C05': 'yes - MISSED by every check (the bytes written by quantize_tensor were opaque to the interpreter); tobytes / frombuffer / shifts / or / pad / unsigned wrap are modelled now and C05.R13 decodes the stored bytes: 8 instead of ... bytes, rows shifted',
    'b18-C03': 'yes - caught (C03.R2 operand-selection table: positions of a repeated operand; whole-pipeline simulation C03.R14 = C01.R16: DEQUANTIZE converts int8 to int8)',
    'b18-C12': 'yes - MISSED by every check (R4 validated the shipped files against the declared schema and R7 only loads exported recipes, which always carry op_config); C12.R8 hands every shipped recipe file to the repository\'s own load_quantization_recipe on the path interpreter: KeyError for sample_advanced_usage_recipe.json',
    'b18-C18': 'yes - MISSED by every check (get_constant_tensor_names was a stand-in in the validation simulation); C18.R12 runs the subgraph-indexed helpers on a stand-in interpreter whose two subgraphs number their tensors differently',
    'b19-C09': 'yes - missed by C09 (C10.R7 reported: operators initialised differ from the operators quantized); the selection simulation is part of C09 now (C09.R13): the first pass must initialise the constants of every operator that will be quantized, also in another signature\'s subgraph, or a run resumed from the returned result lacks them',
    'b19-C16': 'yes - caught (C16.R6 layout decision table: a 16-byte constant is stripped but never appended; bytes at the recorded offset are not the constant)',
    'b17-C19': 'yes - caught (C19.R2 = C01.R8: the op-id map query, run through the class\'s own functions on models with several subgraphs)',
    'b16-C01': 'yes - only ANALYSIS-ERROR (a vertical-optimisation table row forked on the token parameters); C01.R19 = C04.R16: SOFTMAX / LOGISTIC / TANH feeding a CONCATENATION with a wide-range second input - the fixed-range output must keep the kernel parameters',
    'b16-C10': 'yes - missed by C10 (C03 / C04 / C05 / C08 sweeps reported: statistics of a runtime second operand missing); the operator sweep is part of C10 now (C10.R11)',
    'b16-C14': 'yes - caught (C14.R1 effect analysis: the caller-owned calibration result reaches an in-place store)',
    'b14-C04': 'yes - only ANALYSIS-ERROR (array comparisons / np.all not modelled: the plan forked); modelled now, and C04.R15 runs a FULLY_CONNECTED with a zero weight channel, tiny activations and an ordinary bias: the weight scale must stay max(|min|,|max|,1e-4)/127 of the true range',
    'b14-C11': 'yes - caught (C11.R5 one-step table of add_quantization_config: a same-operator rule with another algorithm must replace, not append)',
    'b14-C17': 'yes - caught (C17.R2 = C04.R7: the scale is no longer the reference rational function - an extra float32 rounding inside the formula)',
    'b13-C05': 'yes - caught (C05.R10 = C03.R13 = C04.R12: the constant is stored quantized but carries no data)',
    'b13-C08': 'yes - caught (whole-pipeline simulation: plan generation raises IndexError for a FULLY_CONNECTED without a bias operand; C08.R8 = C03.R14 = C01.R16 = C02.R9)',
    'b13-C09': 'yes - MISSED (the stand-in model had no state); the calibration simulation C09.R11 now runs a stateful stand-in: a carry-over shifts the next sample unless the variables are reset per sample',
    'b13-C13': 'yes - only an internal error of the interpreter (a for loop over an enum class), exit 2 on every check; enum classes are iterable now and C13.R1 (accepted set == expansion of the policy text) reports it; twin: the same feature with re.fullmatch',
    'b13-C15': 'yes - MISSED by C15 (C01 / C02 reported it through construction rules and undecided rewrites); C15.R10: tied constants (two tensors on one buffer, one tensor with several readers, two subgraphs) through the whole pipeline under equal / different / no quantization of the sharers',
    'b13-C16': 'yes - caught by the construction rules C16.R3 / R4; the layout table could not be interpreted (its model had no subgraphs). Its model now has buffers of every role (read by an operator, constant graph output, metadata, unreferenced) and C16.R6 reports the unaligned placeholder offsets',
    'b12-C02': 'yes - C01.R3 caught it; the owning check C02 reported only by accident (stand-in tensors had no shapeSignature: AttributeError). Stand-ins now have every schema field with its default; C02.R7 / C02.R9 compare the shapes of inserted and original tensors on graphs with dynamic dimensions',
    'b12-C03': 'yes - reported, but only by the anchor test of C03.R6 ("cannot find the single branch that selects weight_tensor_config"), i.e. by not recognising the code. C03.R6 is now a table over the registry: a probe in place of the parameter computation records which configuration every operand is quantized with, with collected and with missing statistics',
    'b12-C12': 'yes - caught (C11.R6 load == documented adds in list order; C12.R7 session round trip)',
    'b12-C14': 'yes - caught (C14.R1 / C09.R1 effect analysis: caller-owned statistics rewritten in place)',
    'b12-C18': 'yes - caught, but by a text test of C18.R3 (skip condition mentions np.object_); replaced by the dtype-aware validation simulation C18.R9 (bool / int / float16 / string tensors)',
    'b12-C19': 'yes - reported, but only through "not decided" outcomes (np.full / searchsorted were not modelled) and representation rules that a CORRECT array version trips as well. The array model got general indexing, stores and searchsorted; the op-id map rules (C01.R8 = C19.R2) now run the class\'s own create / update / query functions and compare positions; subgraphs of 1 and 5 operators stand side by side in C19.R11 / R13. The seeded change is reported by C19.R11, C19.R13, C01.R15; the correct array twin is silent',
    'b3-C18': 'yes (written minutes before) - MISSED, then fixed', 'b3-C19': 'yes - caught by C10.R2 only, C19.R8 added', 'b3-C01': 'yes - MISSED (declared blind spot), then fixed',
}


def run_seed(name):
  d = os.path.join(VERIF, 'seeded', name)
  tmp = tempfile.mkdtemp(prefix='seedmx_', dir='/tmp')
  try:
    shutil.copytree('/repo/ai_edge_quantizer', os.path.join(tmp, 'ai_edge_quantizer'))
    subprocess.run(['git', 'init', '-q', '.'], cwd=tmp, capture_output=True)
    p = subprocess.run(['git', 'apply', os.path.join(d, 'patch.diff')], cwd=tmp, capture_output=True, text=True)
    if p.returncode:
      return name, None, 'patch does not apply: ' + p.stderr[:200]
    props = [c['property_id'] for c in json.load(open(os.path.join(VERIF, 'MANIFEST.json')))['checks']]
    fired = {}
    errors = {}
    for pid in props:
      env = dict(os.environ, SA_REPO=tmp)
      r = subprocess.run(['/venv/bin/python', '-m', 'sa.check', pid, '--no-write', '--no-selftest'], cwd=VERIF, env=env, capture_output=True, text=True)
      rules = sorted(set(re.findall(r'^\S+ (C\d+\.R\w+) \[', r.stdout, flags=re.M)))
      if rules:
        fired[pid] = rules
      if 'ANALYSIS-ERROR' in r.stdout:
        errors[pid] = re.findall(r'ANALYSIS-ERROR.*', r.stdout)[0][:160]
    return name, fired, errors
  finally:
    shutil.rmtree(tmp, ignore_errors=True)


def main():
  names = sorted(n for n in os.listdir(os.path.join(VERIF, 'seeded')) if os.path.isdir(os.path.join(VERIF, 'seeded', n)))
  if len(sys.argv) > 1:
    names = [n for n in names if n in sys.argv[1:]]
  rows = []
  with concurrent.futures.ThreadPoolExecutor(8) as ex:
    for name, fired, errors in ex.map(run_seed, names):
      mp = os.path.join(VERIF, 'seeded', name, 'meta.json')
      meta = json.load(open(mp)) if os.path.exists(mp) else {}
      meta['caught_by'] = fired
      meta['analysis_errors'] = errors
      meta['blind'] = BLIND.get(name, meta.get('blind', 'yes'))
      notes = os.path.join(VERIF, 'seeded', name, 'notes.md')
      json.dump(meta, open(mp, 'w'), indent=1)
      rows.append((name, meta))
      print(name, fired, errors if errors else '')
  # full matrix file
  all_rows = []
  for n in sorted(os.listdir(os.path.join(VERIF, 'seeded'))):
    mp = os.path.join(VERIF, 'seeded', n, 'meta.json')
    if os.path.exists(mp):
      all_rows.append((n, json.load(open(mp))))
  with open(os.path.join(VERIF, 'seeded', 'MATRIX.md'), 'w') as f:
    f.write('| seeded change | breaks | reported by (rules) | blind? |\n|--|--|--|--|\n')
    for n, m in all_rows:
      cb = m.get('caught_by') or {}
      txt = '; '.join(', '.join(v) for v in cb.values()) or ('ANALYSIS-ERROR only: ' + str(m.get('analysis_errors')) if m.get('analysis_errors') else '**not reported**')
      f.write(f"| {n} | {m.get('property')} | {txt} | {m.get('blind', '')} |\n")


if __name__ == '__main__':
  main()
