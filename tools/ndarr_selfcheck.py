"""Maintainer aid (not a registered check): compares sa/ndarr.py with numpy on random small arrays."""
import sys
sys.path.insert(0,'/verif')
import numpy as np
from sa.ndarr import NdArr, np_call
import itertools, random
random.seed(1)
for shape in [(2,3),(2,3,4),(1,2,2,3),(4,),(3,1,2)]:
    a=np.array([random.randint(-50,50) for _ in range(int(np.prod(shape)))]).reshape(shape)
    A=NdArr.from_nested(a.tolist())
    assert A.shape==a.shape and A.tolist()==a.tolist()
    for ax in [None]+list(range(len(shape)))+[tuple(c) for r in range(2,len(shape)+1) for c in itertools.combinations(range(len(shape)),r)]:
        for kd in (False, True):
            for fn in ('min','max','sum'):
                want=getattr(np,fn)(a,axis=ax,keepdims=kd)
                got=np_call(fn,[A],{'axis':ax,'keepdims':kd})
                g = got.tolist() if isinstance(got,NdArr) else got
                assert g==want.tolist(), (shape,ax,kd,fn,g,want.tolist())
                if isinstance(got,NdArr): assert got.shape==want.shape
    for perm in itertools.permutations(range(len(shape))):
        assert A.transpose(perm).tolist()==a.transpose(perm).tolist()
    assert A.reshape((-1,)).tolist()==a.reshape(-1).tolist()
    if len(shape)>=2:
        assert A.reshape((shape[0],-1)).tolist()==a.reshape(shape[0],-1).tolist()
        assert A.moveaxis(0,-1).tolist()==np.moveaxis(a,0,-1).tolist()
    b=np.array([random.randint(1,9) for _ in range(shape[-1])])
    B=NdArr.from_nested(b.tolist())
    assert NdArr.broadcast(lambda x,y:x*y, A, B).tolist()==(a*b).tolist()
    m=np.max(a,axis=tuple(range(1,len(shape))),keepdims=True) if len(shape)>1 else a
    M=np_call('max',[A],{'axis':tuple(range(1,len(shape))),'keepdims':True}) if len(shape)>1 else A
    assert NdArr.broadcast(lambda x,y:x-y, A, M).tolist()==(a-m).tolist()
print('ndarr model agrees with numpy on the sample')
