"""Maintainer aid (not a registered check): compares sa/ndarr.py with numpy on random small arrays."""
import sys
sys.path.insert(0,'/verif')
import numpy as np
from sa.ndarr import NdArr, np_call
import itertools, random
random.seed(1)
for shape in [(2,3),(2,3,4),(1,2,2,3),(4,),(3,1,2)]:
    a=np.array([random.randint(-50,50) for _ in range(int(np.prod(shape)))]).reshape(shape)
    A=NdArr.from_nested(a.tolist())
    assert A.shape==a.shape and A.tolist()==a.tolist()
    for ax in [None]+list(range(len(shape)))+[tuple(c) for r in range(2,len(shape)+1) for c in itertools.combinations(range(len(shape)),r)]:
        for kd in (False, True):
            for fn in ('min','max','sum'):
                want=getattr(np,fn)(a,axis=ax,keepdims=kd)
                got=np_call(fn,[A],{'axis':ax,'keepdims':kd})
                g = got.tolist() if isinstance(got,NdArr) else got
                assert g==want.tolist(), (shape,ax,kd,fn,g,want.tolist())
                if isinstance(got,NdArr): assert got.shape==want.shape
    for perm in itertools.permutations(range(len(shape))):
        assert A.transpose(perm).tolist()==a.transpose(perm).tolist()
    assert A.reshape((-1,)).tolist()==a.reshape(-1).tolist()
    if len(shape)>=2:
        assert A.reshape((shape[0],-1)).tolist()==a.reshape(shape[0],-1).tolist()
        assert A.moveaxis(0,-1).tolist()==np.moveaxis(a,0,-1).tolist()
    b=np.array([random.randint(1,9) for _ in range(shape[-1])])
    B=NdArr.from_nested(b.tolist())
    assert NdArr.broadcast(lambda x,y:x*y, A, B).tolist()==(a*b).tolist()
    m=np.max(a,axis=tuple(range(1,len(shape))),keepdims=True) if len(shape)>1 else a
    M=np_call('max',[A],{'axis':tuple(range(1,len(shape))),'keepdims':True}) if len(shape)>1 else A
    assert NdArr.broadcast(lambda x,y:x-y, A, M).tolist()==(a-m).tolist()
# general indexing, stores, constructors, searchsorted (also on unsorted input)
from sa.ndarr import np_create
for shape in [(3, 5), (2, 3, 4), (6,)]:
    a = np.arange(int(np.prod(shape))).reshape(shape) * 3 - 7
    A = NdArr.from_nested(a.tolist())
    A.kind = 'i'
    keys = [0, -1, slice(1, None), slice(None, 2), slice(None, None, 2)]
    if len(shape) >= 2:
        keys += [(0, slice(1, None)), (slice(None), 1), (-1, -1), (slice(0, 2), slice(1, 3)), (1, slice(None, None, -1))]
    for k in keys:
        want = a[k]
        got = A.getitem(k)
        assert (got.tolist() if isinstance(got, NdArr) else got) == want.tolist(), (shape, k)
        for val in (11, None):
            b, B = a.copy(), NdArr(A.shape, A.data, 'i')
            if val is None:
                if np.ndim(want) == 0:
                    continue
                v = (np.arange(want.size).reshape(want.shape) + 100)
                b[k] = v
                B.setitem(k, NdArr.from_nested(v.tolist()))
            else:
                b[k] = val
                B.setitem(k, val)
            assert B.tolist() == b.tolist(), (shape, k, val)
        b, B = a.copy(), NdArr(A.shape, A.data, 'i')
        b[k] += 4
        cur = B.getitem(k)
        B.setitem(k, NdArr.broadcast(lambda x, y: x + y, cur, 4) if isinstance(cur, NdArr) else cur + 4)
        assert B.tolist() == b.tolist(), (shape, k)
f = np_create('full', [(2, 3), -1], {'dtype': type('D', (), {'name': 'np.int64'})()})
assert f.tolist() == np.full((2, 3), -1, dtype=np.int64).tolist() and f.kind == 'i'
assert np_create('arange', [4], {}).tolist() == np.arange(4).tolist()
assert np_create('zeros', [(2, 2)], {}).tolist() == np.zeros((2, 2)).tolist()
for seq in ([0, 1, 2, 5, 9], [0, -1, -1], [0, 1, -1, -1, -1], [3, 4, 5, -1], [-1, -1], [], [2, 2, 2, 3]):
    for v in range(-2, 11):
        for side in ('left', 'right'):
            assert np_create('searchsorted', [list(seq), v], {'side': side}) == int(np.searchsorted(np.array(seq, dtype=np.int64), v, side=side)), (seq, v, side)
print('ndarr model agrees with numpy on the sample')
