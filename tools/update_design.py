"""Rewrites the generated tables of DESIGN.md in place: rule table (from
evidence/*.json), variant catalogue table, seeded-change table (seeded/MATRIX.md)."""
import os
import re
import subprocess
import sys

V = os.path.dirname(os.path.dirname(os.path.abspath(__file__)))
out = subprocess.run([sys.executable, os.path.join(V, 'tools', 'gen_design_tables.py')], capture_output=True, text=True, check=True).stdout
rules, cat = out.split('### Variant catalogue (sa/mutant_catalogue.py)')
rules_tbl = '\n'.join(l for l in rules.splitlines() if l.startswith('|'))
cat_tbl = '\n'.join(l for l in cat.splitlines() if l.startswith('|'))
d = open(os.path.join(V, 'DESIGN.md')).read()


def replace_table_after(text, heading, table):
  i = text.index(heading) + len(heading)
  m = re.compile(r'(\n\s*\n)((?:\|.*\n)+)').search(text, i)
  return text[:m.start(2)] + table + '\n' + text[m.end(2):]


d = replace_table_after(d, '### Rules as built (from the evidence of the last run)', rules_tbl)
d = replace_table_after(d, '### Variant catalogue (sa/mutant_catalogue.py)', cat_tbl)
mx = open(os.path.join(V, 'seeded', 'MATRIX.md')).read()
mx_tbl = '\n'.join(l for l in mx.splitlines() if l.startswith('|'))
d = re.sub(r'<!-- seeded-table -->\n.*?<!-- /seeded-table -->', lambda m: '<!-- seeded-table -->\n' + mx_tbl + '\n<!-- /seeded-table -->', d, flags=re.S)
open(os.path.join(V, 'DESIGN.md'), 'w').write(d)
print('DESIGN.md tables updated:', len(rules_tbl.splitlines()) - 2, 'rules;', len(mx_tbl.splitlines()) - 2, 'seeded changes')
