"""Robustness probe, second kind: behaviour-preserving REWRITES of one function at
a time (in memory), all checks run on each; none may report.

Rewrites (all applied to the function at once; `--only` picks one):
  flip    a == b  ->  b == a   (and !=) when neither side contains a call
  negate  if c: A else: B  ->  if not (c): B else: A   (two-armed ifs, no elif)
  hoist   if <test>: ...  ->  _sa_t = <test>; if _sa_t: ...
  ret     return <expr>   ->  _sa_r = <expr>; return _sa_r
  none    x is not None   ->  not (x is None)
  kw      f(a, b, c)      ->  f(a, y=b, z=c)   for calls that resolve to ONE repository function (no *args)
  guard   for ...: if c: continue; REST  ->  for ...: if not c: REST      (likewise `if c: return` at the top level of a function that returns nothing)

usage: refactor_twins.py [--only flip|negate|hoist|ret|none] [--match substr] [Cxx ...]
"""
import ast
import copy
import json
import multiprocessing
import os
import sys
import textwrap

sys.path.insert(0, os.path.dirname(os.path.dirname(os.path.abspath(__file__))))
from sa import check as sacheck  # pylint: disable=g-import-not-at-top
from sa import index

BASE = None
PROPS = []
KINDS = ('flip', 'negate', 'hoist', 'ret', 'none', 'kw', 'guard')


def _has_call(n):
  return any(isinstance(x, (ast.Call, ast.NamedExpr, ast.Await, ast.Yield, ast.YieldFrom)) for x in ast.walk(n))


class Rewriter(ast.NodeTransformer):

  def __init__(self, kinds):
    self.kinds = kinds
    self.n = 0
    self.counter = 0

  def fresh(self, p):
    self.counter += 1
    return f'_sa_{p}{self.counter}'

  def visit_Compare(self, node):
    self.generic_visit(node)
    if 'flip' in self.kinds and len(node.ops) == 1 and isinstance(node.ops[0], (ast.Eq, ast.NotEq)) \
        and not _has_call(node.left) and not _has_call(node.comparators[0]):
      self.n += 1
      return ast.Compare(left=node.comparators[0], ops=node.ops, comparators=[node.left])
    if 'none' in self.kinds and len(node.ops) == 1 and isinstance(node.ops[0], ast.IsNot) \
        and isinstance(node.comparators[0], ast.Constant) and node.comparators[0].value is None:
      self.n += 1
      return ast.UnaryOp(op=ast.Not(), operand=ast.Compare(left=node.left, ops=[ast.Is()], comparators=node.comparators))
    return node

  def _block(self, stmts, in_loop=False, fn_top=False):
    out = []
    for st in stmts:
      if isinstance(st, (ast.For, ast.While)):
        st.body = self._block(st.body, in_loop=True)
        st.orelse = self._block(st.orelse)
        if isinstance(st, ast.For):
          st.iter = self.visit(st.iter)
        else:
          st.test = self.visit(st.test)
        out.append(st)
        continue
      st = self.visit(st)
      if isinstance(st, list):
        out.extend(st)
      else:
        out.append(st)
    if 'guard' in self.kinds and (in_loop or fn_top):
      # fold guard clauses from the back: [..., if c: continue, REST...] -> [..., if not c: REST...]
      k = len(out) - 1
      while k >= 0:
        g = out[k]
        leave = ast.Continue if in_loop else ast.Return
        if isinstance(g, ast.If) and not g.orelse and len(g.body) == 1 and isinstance(g.body[0], leave) and (in_loop or g.body[0].value is None) and k + 1 < len(out):
          self.n += 1
          out[k:] = [ast.If(test=ast.UnaryOp(op=ast.Not(), operand=g.test), body=out[k + 1:], orelse=[])]
        k -= 1
    return out

  def visit_If(self, node):
    node.test = self.visit(node.test)
    node.body = self._block(node.body)
    node.orelse = self._block(node.orelse)
    if 'negate' in self.kinds and node.orelse and not (len(node.orelse) == 1 and isinstance(node.orelse[0], ast.If)):
      self.n += 1
      node = ast.If(test=ast.UnaryOp(op=ast.Not(), operand=node.test), body=node.orelse, orelse=node.body)
    if 'hoist' in self.kinds and not any(isinstance(x, ast.NamedExpr) for x in ast.walk(node.test)):
      self.n += 1
      t = self.fresh('t')
      assign = ast.Assign(targets=[ast.Name(id=t, ctx=ast.Store())], value=node.test, lineno=0)
      node.test = ast.Name(id=t, ctx=ast.Load())
      return [assign, node]
    return node

  def visit_Return(self, node):
    self.generic_visit(node)
    if 'ret' in self.kinds and node.value is not None and not isinstance(node.value, ast.Name):
      self.n += 1
      r = self.fresh('r')
      return [ast.Assign(targets=[ast.Name(id=r, ctx=ast.Store())], value=node.value, lineno=0),
              ast.Return(value=ast.Name(id=r, ctx=ast.Load()))]
    return node

  def generic_visit(self, node):
    for field, old in ast.iter_fields(node):
      if isinstance(old, list):
        if old and isinstance(old[0], ast.stmt):
          setattr(node, field, self._block(old))
        else:
          new = []
          for v in old:
            if isinstance(v, ast.AST):
              v = self.visit(v)
              if v is None:
                continue
              if isinstance(v, list):
                new.extend(v)
                continue
            new.append(v)
          old[:] = new
      elif isinstance(old, ast.AST):
        setattr(node, field, self.visit(old))
    return node

  def visit_Call(self, node):
    self.generic_visit(node)
    names = getattr(node, '_sa_kw', None)
    if 'kw' in self.kinds and names and len(node.args) >= 2 and not any(isinstance(a, ast.Starred) for a in node.args) \
        and len(node.args) <= len(names) and not ({k.arg for k in node.keywords} & set(names[:len(node.args)])):
      self.n += 1
      extra = [ast.keyword(arg=names[i], value=a) for i, a in enumerate(node.args) if i >= 1]
      node.args = node.args[:1]
      node.keywords = extra + node.keywords
    return node

  def visit_Lambda(self, node):
    return node   # no statements inside a lambda

  def visit_ListComp(self, node):
    return node

  visit_SetComp = visit_DictComp = visit_GeneratorExp = visit_ListComp


def rewrite_function(src: str, fn: ast.FunctionDef, kinds) -> tuple:
  new_fn = copy.deepcopy(fn)
  rw = Rewriter(kinds)
  returns_value = any(isinstance(n, ast.Return) and n.value is not None for n in ast.walk(new_fn))
  new_fn.body = rw._block(new_fn.body, fn_top=not returns_value)  # pylint: disable=protected-access
  if rw.n == 0:
    return None, 0
  ast.fix_missing_locations(new_fn)
  text = ast.unparse(new_fn)
  first = min([fn.lineno] + [d.lineno for d in fn.decorator_list])
  lines = src.splitlines(keepends=True)
  indent = len(lines[first - 1]) - len(lines[first - 1].lstrip())
  # the repository indents with two spaces; ast.unparse with four - only consistency matters
  new_text = textwrap.indent(text, ' ' * indent) + '\n'
  return ''.join(lines[:first - 1]) + new_text + ''.join(lines[fn.end_lineno:]), rw.n


def annotate_calls():
  """Marks every call that resolves to exactly one repository function with that function's positional parameter names."""
  from sa import callgraph, report  # pylint: disable=g-import-not-at-top
  ctx = report.Ctx('C01', BASE, 'quick', 0, True)
  cg = callgraph.get(ctx)
  n = 0
  for caller, sites in cg.sites.items():
    for s_ in sites:
      if len(s_.callees) != 1 or s_.kind != 'resolved':
        continue
      f = s_.callees[0]
      a = f.node.args
      if a.vararg is not None or a.posonlyargs:
        continue
      names = [x.arg for x in a.args]
      if f.is_method or (f.cls is not None and getattr(f, 'is_classmethod', False)):
        names = names[1:]
      caller_params = {x.arg for x in s_.caller.node.args.args + s_.caller.node.args.kwonlyargs}
      if isinstance(s_.node.func, ast.Name) and s_.node.func.id in caller_params:
        continue   # a call through a function-valued parameter: its keyword names are the callback's business
      if isinstance(s_.node.func, ast.Attribute) or isinstance(s_.node.func, ast.Name):
        s_.node._sa_kw = names  # pylint: disable=protected-access
        n += 1
  return n


def variants(kinds, match):
  for m in BASE.modules.values():
    for qn, f in m.functions.items():
      if f.parent is not None:
        continue
      if match and match not in f'{m.rel}::{qn}':
        continue
      yield (m.rel, qn, kinds)


def run_variant(v):
  rel, qn, kinds = v
  src = BASE.read_text(rel)
  f = BASE.modules[[k for k, m in BASE.modules.items() if m.rel == rel][0]].functions[qn]
  try:
    new, n = rewrite_function(src, f.node, kinds)
    if new is None:
      return (rel, qn, None)
    ast.parse(new)
  except Exception as e:  # pylint: disable=broad-except
    return (rel, qn, {'_rewrite_failed': f'{type(e).__name__}: {str(e)[:80]}'})
  problems = {}
  try:
    variant = index.Repo(BASE.root, overlay={rel: new}, base=BASE)
  except index.AnalysisError as e:
    return (rel, qn, {'_index': str(e)[:100]})
  for p in PROPS:
    try:
      ctx = sacheck.run_rules(p, variant, 'quick', 0, quiet=True)
      fired = sorted({x.rule for x in ctx.violations})
      if fired:
        problems[p] = fired
      elif ctx.analysis_errors:
        problems[p] = 'ANALYSIS-ERROR: ' + '; '.join(ctx.analysis_errors)[:160]
      else:
        ctx.check_floors()
    except index.AnalysisError as e:
      problems[p] = 'ANALYSIS-ERROR: ' + str(e)[:160]
    except Exception as e:  # pylint: disable=broad-except
      problems[p] = f'internal {type(e).__name__}: {str(e)[:100]}'
  return (rel, qn, problems)


def main():
  global BASE, PROPS
  args = sys.argv[1:]
  kinds = KINDS
  match = None
  if '--only' in args:
    i = args.index('--only')
    kinds = (args[i + 1],)
    del args[i:i + 2]
  if '--match' in args:
    i = args.index('--match')
    match = args[i + 1]
    del args[i:i + 2]
  BASE = index.load_repo()
  if 'kw' in kinds:
    print(annotate_calls(), 'call sites resolved for the kw rewrite', flush=True)
  PROPS = args or [c['property_id'] for c in json.load(open('/verif/MANIFEST.json'))['checks']]
  vs = list(variants(kinds, match))
  print(f'{len(vs)} functions; rewrites {kinds}; properties {PROPS}', flush=True)
  workers = int(os.environ.get('SA_WORKERS', '12'))
  with multiprocessing.get_context('fork').Pool(workers) as pool:
    res = pool.map(run_variant, vs, chunksize=1)
  done = [(r, q, p) for r, q, p in res if p is not None]
  bad = [(r, q, p) for r, q, p in done if p]
  viol = [x for x in bad if any(isinstance(v, list) for v in x[2].values())]
  for r, q, p in bad:
    print(f'{r}::{q}: {p}')
  print(f'{len(done)} functions rewritten; {len(viol)} rewrite twins provoke a VIOLATION, {len(bad) - len(viol)} more only an analysis error')


if __name__ == '__main__':
  main()
