"""Prints the rule table (from evidence/*.json) and the variant catalogue table for DESIGN.md."""
import glob, json, os, sys
sys.path.insert(0, os.path.dirname(os.path.dirname(os.path.abspath(__file__))))
from sa import mutants
print('### Rules as built (from the evidence of the last run)\n')
print('| rule | decides | subjects | obligations |')
print('|--|--|--|--|')
for f in sorted(glob.glob('/verif/evidence/C*.json')):
  e = json.load(open(f))
  for r, d in sorted(e['coverage']['rules'].items(), key=lambda kv: (kv[0].split('.')[0], int(''.join(c for c in kv[0].split('.R')[1] if c.isdigit()) or 0))):
    ex = ' (exhaustive)' if d.get('exhaustive') else ''
    print(f"| {r} | {d['title']}{ex} | {d['subjects']} | {d['discharged']}/{d['obligations']} |")
print('\n### Variant catalogue (sa/mutant_catalogue.py)\n')
print('| property | break variants | twins (must stay silent) | quick-tier controls |')
print('|--|--|--|--|')
mutants.for_property('C01')
props = sorted({m.prop for m in mutants.CATALOGUE})
tb = tt = 0
for p in props:
  ms = [m for m in mutants.CATALOGUE if m.prop == p]
  b = sum(1 for m in ms if m.kind == 'break'); t = sum(1 for m in ms if m.kind == 'twin'); c = sum(1 for m in ms if m.control)
  tb += b; tt += t
  print(f'| {p} | {b} | {t} | {c} |')
print(f'| total | {tb} | {tt} | |')
