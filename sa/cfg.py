"""E3 - statement-level control-flow graph with path queries.

Nodes are simple statements and the heads of compound statements (the test of
an `if`/`while`, the iterator of a `for`, the items of a `with`, `try` entry).
Synthetic nodes: ENTRY, EXIT (normal return / fall off the end) and RAISE
(explicit `raise` leaving the function). Implicit exceptions are not modelled
except inside `try` bodies, whose every node gets an edge to each handler.
"""
from __future__ import annotations

import ast
import dataclasses
from typing import Callable, Iterable, Optional


@dataclasses.dataclass
class Node:
  id: int
  kind: str  # entry|exit|raise|stmt|if|for|while|with|try|handler
  ast: Optional[ast.AST] = None

  @property
  def lineno(self) -> int:
    return getattr(self.ast, 'lineno', 0)

  def exprs(self) -> list[ast.AST]:
    """The AST evaluated AT this node (not the bodies of compound statements)."""
    a = self.ast
    if a is None:
      return []
    if self.kind == 'if' or self.kind == 'while':
      return [a.test]
    if self.kind == 'for':
      return [a.iter, a.target]
    if self.kind == 'with':
      out = []
      for it in a.items:
        out.append(it.context_expr)
        if it.optional_vars is not None:
          out.append(it.optional_vars)
      return out
    if self.kind == 'try':
      return []
    if self.kind == 'handler':
      return [a.type] if a.type is not None else []
    if isinstance(a, (ast.FunctionDef, ast.ClassDef)):
      return []
    return [a]

  def walk(self):
    for e in self.exprs():
      for n in ast.walk(e):
        yield n

  def calls(self) -> list[ast.Call]:
    return [n for n in self.walk() if isinstance(n, ast.Call)]


class CFG:

  def __init__(self, func_node: ast.FunctionDef):
    self.func = func_node
    self.nodes: list[Node] = []
    self.succ: dict[int, list[tuple[int, str]]] = {}
    self._loops: list[tuple[int, list[int]]] = []  # (head, break sources)
    self._try_stack: list[list[int]] = []
    self.stmt_node: dict[int, int] = {}  # id(ast stmt) -> node id
    self.entry = self._new('entry')
    self.exit = self._new('exit')
    self.raise_exit = self._new('raise')
    self.body_of: dict[int, tuple[list[int], list[int]]] = {}
    ends = self._block(func_node.body, [(self.entry.id, '')])
    for src, lab in ends:
      self._edge(src, self.exit.id, lab)
    self.pred: dict[int, list[tuple[int, str]]] = {n.id: [] for n in self.nodes}
    for s, outs in self.succ.items():
      for d, lab in outs:
        self.pred[d].append((s, lab))

  # ----------------------------------------------------------- construction
  def _new(self, kind, a=None) -> Node:
    n = Node(len(self.nodes), kind, a)
    self.nodes.append(n)
    self.succ[n.id] = []
    if a is not None and isinstance(a, ast.stmt):
      self.stmt_node[id(a)] = n.id
    for handlers in self._try_stack:
      for h in handlers:
        self.succ[n.id].append((h, 'exc'))
    return n

  def _edge(self, s, d, lab=''):
    if (d, lab) not in self.succ[s]:
      self.succ[s].append((d, lab))

  def _connect(self, ins, node_id):
    for src, lab in ins:
      self._edge(src, node_id, lab)

  def _block(self, body, ins):
    """Adds statements; returns the list of dangling (source, label) exits."""
    cur = ins
    for st in body:
      if not cur:
        # unreachable code still gets nodes (keeps stmt_node total)
        pass
      cur = self._stmt(st, cur)
    return cur

  def _stmt(self, st, ins):
    if isinstance(st, ast.If):
      n = self._new('if', st)
      self._connect(ins, n.id)
      t = self._block(st.body, [(n.id, 'T')])
      f = self._block(st.orelse, [(n.id, 'F')]) if st.orelse else [(n.id, 'F')]
      return t + f
    if isinstance(st, (ast.For, ast.AsyncFor)):
      n = self._new('for', st)
      self._connect(ins, n.id)
      self._loops.append((n.id, []))
      body_end = self._block(st.body, [(n.id, 'loop')])
      for src, lab in body_end:
        self._edge(src, n.id, lab or 'back')
      _, breaks = self._loops.pop()
      out = self._block(st.orelse, [(n.id, 'exit')]) if st.orelse else [(n.id, 'exit')]
      return out + [(b, 'break') for b in breaks]
    if isinstance(st, ast.While):
      n = self._new('while', st)
      self._connect(ins, n.id)
      self._loops.append((n.id, []))
      body_end = self._block(st.body, [(n.id, 'T')])
      for src, lab in body_end:
        self._edge(src, n.id, lab or 'back')
      _, breaks = self._loops.pop()
      infinite = isinstance(st.test, ast.Constant) and bool(st.test.value)
      out = [] if infinite else [(n.id, 'F')]
      if st.orelse:
        out = self._block(st.orelse, out)
      return out + [(b, 'break') for b in breaks]
    if isinstance(st, (ast.With, ast.AsyncWith)):
      n = self._new('with', st)
      self._connect(ins, n.id)
      return self._block(st.body, [(n.id, '')])
    if isinstance(st, ast.Try):
      n = self._new('try', st)
      self._connect(ins, n.id)
      # allocate handler heads first so body nodes can point at them
      saved = self._try_stack
      self._try_stack = list(saved)
      hs = []
      for h in st.handlers:
        hn = Node(len(self.nodes), 'handler', h)
        self.nodes.append(hn)
        self.succ[hn.id] = []
        for handlers in saved:
          for hh in handlers:
            self.succ[hn.id].append((hh, 'exc'))
        hs.append(hn)
      self._try_stack.append([h.id for h in hs])
      for h in hs:
        self._edge(n.id, h.id, 'exc')
      body_end = self._block(st.body, [(n.id, '')])
      self._try_stack = saved
      else_end = self._block(st.orelse, body_end) if st.orelse else body_end
      outs = list(else_end)
      for h, hn in zip(st.handlers, hs):
        outs += self._block(h.body, [(hn.id, '')])
      if st.finalbody:
        outs = self._block(st.finalbody, outs)
      return outs
    n = self._new('stmt', st)
    self._connect(ins, n.id)
    if isinstance(st, ast.Return):
      self._edge(n.id, self.exit.id, 'return')
      return []
    if isinstance(st, ast.Raise):
      if self._try_stack:
        return []  # edges to handlers were added by _new
      self._edge(n.id, self.raise_exit.id, 'raise')
      return []
    if isinstance(st, ast.Continue):
      if self._loops:
        self._edge(n.id, self._loops[-1][0], 'continue')
      return []
    if isinstance(st, ast.Break):
      if self._loops:
        self._loops[-1][1].append(n.id)
      return []
    return [(n.id, '')]

  # ---------------------------------------------------------------- queries
  def node_of(self, stmt: ast.AST) -> Optional[Node]:
    nid = self.stmt_node.get(id(stmt))
    return self.nodes[nid] if nid is not None else None

  def find(self, pred: Callable[[Node], bool]) -> list[Node]:
    return [n for n in self.nodes if pred(n)]

  def reachable(self, starts: Iterable[int], blocked: set[int] = frozenset(),
                skip_labels: set[str] = frozenset(),
                blocked_edges: set = frozenset()) -> set[int]:
    seen = set()
    stack = [s for s in starts if s not in blocked]
    while stack:
      x = stack.pop()
      if x in seen:
        continue
      seen.add(x)
      for d, lab in self.succ[x]:
        if lab in skip_labels or (x, lab) in blocked_edges:
          continue
        if d not in blocked and d not in seen:
          stack.append(d)
    return seen

  def guarded_by(self, start: int, use: int, safe_edges: set) -> bool:
    """True iff every path start -> use takes one of the (node, label) edges."""
    return use not in self.reachable([start], blocked_edges=safe_edges)

  def every_path_passes(self, src: int, dst: int, via: set[int],
                        skip_labels: set[str] = frozenset()) -> bool:
    """True iff every path src -> dst contains a node of `via`."""
    if src in via or dst in via:
      return True
    return dst not in self.reachable([src], blocked=via, skip_labels=skip_labels)

  def witness_path(self, src: int, dst: int, blocked: set[int],
                   skip_labels: set[str] = frozenset()) -> Optional[list[int]]:
    """Some path src -> dst avoiding `blocked` (for diagnostics)."""
    prev = {src: None}
    queue = [src]
    while queue:
      x = queue.pop(0)
      if x == dst:
        path = []
        while x is not None:
          path.append(x)
          x = prev[x]
        return path[::-1]
      for d, lab in self.succ[x]:
        if lab in skip_labels or d in blocked or d in prev:
          continue
        prev[d] = x
        queue.append(d)
    return None

  def describe_path(self, path: list[int]) -> list[str]:
    out = []
    for nid in path:
      n = self.nodes[nid]
      if n.kind in ('entry', 'exit', 'raise'):
        out.append(n.kind.upper())
      else:
        txt = ''
        try:
          e = n.exprs()
          txt = ast.unparse(e[0])[:70] if e else n.kind
        except Exception:  # pylint: disable=broad-except
          txt = n.kind
        out.append(f'L{n.lineno} {n.kind}: {txt}')
    return out

  def dominates(self, a: int, b: int) -> bool:
    """a dominates b: every path ENTRY -> b passes a."""
    if a == b:
      return True
    return self.every_path_passes(self.entry.id, b, {a})

  def loop_body_nodes(self, head: int) -> set[int]:
    """Nodes of the loop whose head is `head` (reachable from the body edge
    without leaving through the head's exit edge, and able to reach head)."""
    starts = [d for d, lab in self.succ[head] if lab in ('loop', 'T')]
    inside = self.reachable(starts, blocked={head})
    # keep those that can come back to head or end the function from inside
    back = set()
    for n in inside:
      if head in self.reachable([n]):
        back.add(n)
    return back

  def iteration_count(self, head: int, targets: set[int]) -> tuple[int, int]:
    """(min, max) number of `targets` nodes executed in one iteration of the
    loop `head`, over paths that start at the body and return to the head.
    max is capped at 2 (= 'more than once' or inner loop)."""
    body = self.loop_body_nodes(head)
    starts = [d for d, lab in self.succ[head] if lab in ('loop', 'T')]
    t = targets & body
    # min: can we get back to head avoiding all targets?
    mn = 1
    for s in starts:
      if s in t:
        continue
      r = self.reachable([s], blocked=t | {head})
      if any(head in [d for d, _ in self.succ[x]] for x in r):
        mn = 0
    if not t:
      return (0, 0)
    # max: from a target, can we reach another target (or itself) before head?
    mx = 1
    for x in t:
      after = self.reachable([d for d, _ in self.succ[x]], blocked={head})
      if after & t:
        mx = 2
    return (mn, mx)


def build(func_node: ast.FunctionDef) -> CFG:
  return CFG(func_node)
