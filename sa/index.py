"""E1 - repository index: modules, symbols, aliases, classes, dataclass fields, enums.

Pure `ast`. A module that fails to parse, or an anchor that cannot be found,
raises AnalysisError (reported as ANALYSIS-ERROR, exit 2) - never a silent pass.
"""
from __future__ import annotations

import ast
import dataclasses
import glob
import hashlib
import json
import os
import sys
from typing import Any, Iterator, Optional

PKG = 'ai_edge_quantizer'


class AnalysisError(Exception):
  """The analysis cannot decide (vanished anchor, unknown idiom, parse failure)."""


def repo_root() -> str:
  return os.environ.get('SA_REPO', '/repo')


def _excluded(rel: str) -> bool:
  parts = rel.split(os.sep)
  base = parts[-1]
  if base.endswith('_test.py') or base == 'conftest.py':
    return True
  for p in parts[:-1]:
    if p in ('tests', 'examples') or p.endswith('_op_tests'):
      return True
  return False


@dataclasses.dataclass
class FuncInfo:
  module: 'Module'
  qualname: str  # 'Class.method' or 'func' or 'outer.<locals>.inner'
  node: ast.FunctionDef
  cls: Optional['ClassInfo'] = None
  parent: Optional['FuncInfo'] = None

  @property
  def fq(self) -> str:
    return f'{self.module.short}:{self.qualname}'

  @property
  def name(self) -> str:
    return self.node.name

  @property
  def params(self) -> list[str]:
    a = self.node.args
    names = [x.arg for x in a.posonlyargs + a.args]
    if a.vararg:
      names.append('*' + a.vararg.arg)
    names += [x.arg for x in a.kwonlyargs]
    if a.kwarg:
      names.append('**' + a.kwarg.arg)
    return names

  @property
  def pos_params(self) -> list[str]:
    a = self.node.args
    return [x.arg for x in a.posonlyargs + a.args]

  def param_annotation(self, name: str) -> Optional[ast.expr]:
    a = self.node.args
    for x in a.posonlyargs + a.args + a.kwonlyargs:
      if x.arg == name:
        return x.annotation
    return None

  def param_default(self, name: str) -> Optional[ast.expr]:
    a = self.node.args
    pos = a.posonlyargs + a.args
    defaults = [None] * (len(pos) - len(a.defaults)) + list(a.defaults)
    for x, d in zip(pos, defaults):
      if x.arg == name:
        return d
    for x, d in zip(a.kwonlyargs, a.kw_defaults):
      if x.arg == name:
        return d
    return None

  @property
  def is_method(self) -> bool:
    if self.cls is None or self.parent is not None:
      return False
    for d in self.node.decorator_list:
      if isinstance(d, ast.Name) and d.id == 'staticmethod':
        return False
    return True

  @property
  def is_classmethod(self) -> bool:
    return any(
        isinstance(d, ast.Name) and d.id == 'classmethod'
        for d in self.node.decorator_list
    )

  @property
  def is_property(self) -> bool:
    return any(
        isinstance(d, ast.Name) and d.id == 'property'
        for d in self.node.decorator_list
    )

  def loc(self, node: Optional[ast.AST] = None) -> str:
    n = node if node is not None else self.node
    return f'{self.module.rel}:{getattr(n, "lineno", self.node.lineno)}'


@dataclasses.dataclass
class Field:
  name: str
  annotation: Optional[ast.expr]
  default: Optional[ast.expr]
  node: ast.AST


@dataclasses.dataclass
class ClassInfo:
  module: 'Module'
  name: str  # possibly 'Outer.Inner'
  node: ast.ClassDef
  bases: list[str]
  methods: dict[str, FuncInfo] = dataclasses.field(default_factory=dict)
  fields: list[Field] = dataclasses.field(default_factory=list)
  enum_members: dict[str, ast.expr] = dataclasses.field(default_factory=dict)
  is_dataclass: bool = False
  frozen: bool = False
  init_attrs: dict[str, tuple[Optional[ast.expr], Optional[ast.expr]]] = (
      dataclasses.field(default_factory=dict)
  )
  nested: dict[str, 'ClassInfo'] = dataclasses.field(default_factory=dict)

  @property
  def fq(self) -> str:
    return f'{self.module.short}:{self.name}'

  @property
  def is_enum(self) -> bool:
    return any(b.split('.')[-1] == 'Enum' for b in self.bases)

  def field(self, name: str) -> Optional[Field]:
    for f in self.fields:
      if f.name == name:
        return f
    return None


@dataclasses.dataclass
class Sym:
  kind: str  # module|func|class|instance|const|enum_member|external|bound
  obj: Any = None
  extra: Any = None

  def __repr__(self):
    o = self.obj
    if isinstance(o, (FuncInfo, ClassInfo)):
      o = o.fq
    elif isinstance(o, Module):
      o = o.short
    elif isinstance(o, ast.AST):
      o = ast.unparse(o)[:40]
    return f'Sym({self.kind},{o})'


class Module:

  def __init__(self, repo: 'Repo', path: str, rel: str,
               src: Optional[str] = None):
    self.repo = repo
    self.path = path
    self.rel = rel
    self.dotted = rel[:-3].replace(os.sep, '.')
    if self.dotted.endswith('.__init__'):
      self.dotted = self.dotted[: -len('.__init__')]
    self.short = self.dotted[len(PKG) + 1:] if self.dotted != PKG else PKG
    if src is None:
      with open(path, 'r', encoding='utf-8') as f:
        src = f.read()
    self.src = src
    try:
      self.tree = ast.parse(self.src, filename=path)
    except SyntaxError as e:
      raise AnalysisError(f'{rel}: does not parse: {e}') from e
    if os.environ.get('SA_NO_NORMALIZE') != '1':
      from sa import normalize  # pylint: disable=g-import-not-at-top
      self.tree = normalize.normalize_module(self.tree)
    self.imports: dict[str, str] = {}
    self.functions: dict[str, FuncInfo] = {}
    self.classes: dict[str, ClassInfo] = {}
    self.assigns: dict[str, list[ast.expr]] = {}
    self.assign_nodes: dict[str, list[ast.stmt]] = {}
    self._index()

  # ---------------------------------------------------------------- indexing
  def _index(self):
    for node in self.tree.body:
      self._index_stmt(node)

  def _index_stmt(self, node: ast.stmt):
    if isinstance(node, ast.Import):
      for a in node.names:
        self.imports[a.asname or a.name.split('.')[0]] = (
            a.name if a.asname else a.name.split('.')[0]
        )
    elif isinstance(node, ast.ImportFrom):
      base = node.module or ''
      for a in node.names:
        self.imports[a.asname or a.name] = f'{base}.{a.name}' if base else a.name
    elif isinstance(node, ast.FunctionDef):
      self._index_func(node, None, None, node.name)
    elif isinstance(node, ast.ClassDef):
      self._index_class(node, None)
    elif isinstance(node, ast.Assign):
      for t in node.targets:
        if isinstance(t, ast.Name):
          self.assigns.setdefault(t.id, []).append(node.value)
          self.assign_nodes.setdefault(t.id, []).append(node)
    elif isinstance(node, ast.AnnAssign):
      if isinstance(node.target, ast.Name) and node.value is not None:
        self.assigns.setdefault(node.target.id, []).append(node.value)
        self.assign_nodes.setdefault(node.target.id, []).append(node)
    elif isinstance(node, (ast.If, ast.Try)):
      for sub in ast.iter_child_nodes(node):
        if isinstance(sub, ast.stmt):
          self._index_stmt(sub)

  def _index_func(self, node, cls, parent, qualname) -> FuncInfo:
    fi = FuncInfo(self, qualname, node, cls, parent)
    self.functions[qualname] = fi
    for sub in ast.walk(node):
      if sub is node:
        continue
      if isinstance(sub, ast.FunctionDef) and _direct_parent_func(node, sub):
        self._index_func(
            sub, cls, fi, f'{qualname}.<locals>.{sub.name}'
        )
    return fi

  def _index_class(self, node: ast.ClassDef, outer: Optional[ClassInfo]):
    name = f'{outer.name}.{node.name}' if outer else node.name
    bases = []
    for b in node.bases:
      try:
        bases.append(ast.unparse(b))
      except Exception:  # pylint: disable=broad-except
        bases.append('?')
    ci = ClassInfo(self, name, node, bases)
    for d in node.decorator_list:
      txt = ast.unparse(d)
      if 'dataclass' in txt:
        ci.is_dataclass = True
        if isinstance(d, ast.Call):
          for kw in d.keywords:
            if kw.arg == 'frozen' and isinstance(kw.value, ast.Constant):
              ci.frozen = bool(kw.value.value)
    self.classes[name] = ci
    if outer is not None:
      outer.nested[node.name] = ci
    for st in node.body:
      if isinstance(st, ast.FunctionDef):
        fi = self._index_func(st, ci, None, f'{name}.{st.name}')
        ci.methods[st.name] = fi
      elif isinstance(st, ast.ClassDef):
        self._index_class(st, ci)
      elif isinstance(st, ast.AnnAssign) and isinstance(st.target, ast.Name):
        ci.fields.append(Field(st.target.id, st.annotation, st.value, st))
      elif isinstance(st, ast.Assign):
        for t in st.targets:
          if isinstance(t, ast.Name):
            ci.enum_members[t.id] = st.value
    init = ci.methods.get('__init__')
    if init is not None:
      for sub in ast.walk(init.node):
        tgt = val = ann = None
        if isinstance(sub, ast.Assign) and len(sub.targets) == 1:
          tgt, val = sub.targets[0], sub.value
        elif isinstance(sub, ast.AnnAssign):
          tgt, val, ann = sub.target, sub.value, sub.annotation
        if (
            isinstance(tgt, ast.Attribute)
            and isinstance(tgt.value, ast.Name)
            and tgt.value.id == 'self'
        ):
          ci.init_attrs.setdefault(tgt.attr, (ann, val))

  # --------------------------------------------------------------- utilities
  def func(self, qualname: str) -> FuncInfo:
    if qualname not in self.functions:
      raise AnalysisError(
          f'anchor function {self.short}:{qualname} not found in {self.rel}'
      )
    return self.functions[qualname]

  def cls(self, name: str) -> ClassInfo:
    if name not in self.classes:
      raise AnalysisError(
          f'anchor class {self.short}:{name} not found in {self.rel}'
      )
    return self.classes[name]

  def const(self, name: str) -> ast.expr:
    if name not in self.assigns:
      raise AnalysisError(
          f'anchor constant {self.short}:{name} not found in {self.rel}'
      )
    return self.assigns[name][-1]

  def seg(self, node: ast.AST) -> str:
    return ast.unparse(node)   # (the tree is in canonical form: positions no longer delimit the text)


def _direct_parent_func(outer: ast.FunctionDef, inner: ast.FunctionDef) -> bool:
  """True iff `inner` is nested in `outer` with no function in between."""
  stack = list(ast.iter_child_nodes(outer))
  while stack:
    n = stack.pop()
    if n is inner:
      return True
    if isinstance(n, (ast.FunctionDef, ast.AsyncFunctionDef, ast.Lambda, ast.ClassDef)):
      continue
    stack.extend(ast.iter_child_nodes(n))
  return False


class Repo:
  """All non-test modules of the package plus its JSON data files."""

  def __init__(self, root: Optional[str] = None,
               overlay: Optional[dict[str, str]] = None,
               base: Optional['Repo'] = None):
    """Indexes the tree under `root`.

    `overlay` maps a repo-relative path to replacement text; it is how the
    self-tests analyse a variant of the current tree without copying it.
    """
    self.root = root or repo_root()
    self.overlay = dict(overlay or {})
    self.modules: dict[str, Module] = {}
    self.by_short: dict[str, Module] = {}
    pkg_dir = os.path.join(self.root, PKG)
    if not os.path.isdir(pkg_dir):
      raise AnalysisError(f'{pkg_dir} is not a directory')
    for path in sorted(
        glob.glob(os.path.join(pkg_dir, '**', '*.py'), recursive=True)
    ):
      rel = os.path.relpath(path, self.root)
      if _excluded(os.path.relpath(path, pkg_dir)):
        continue
      if base is not None and rel not in self.overlay and rel not in base.overlay:
        m = next((x for x in base.modules.values() if x.rel == rel), None)
        if m is None:
          m = Module(self, path, rel)
      else:
        m = Module(self, path, rel, self.overlay.get(rel))
      self.modules[m.dotted] = m
      self.by_short[m.short] = m
    if os.environ.get('SA_NO_NORMALIZE') != '1':
      fresh = [m for m in self.modules.values() if m.repo is self]
      if base is not None and self._signatures() != base._signatures():   # pylint: disable=protected-access
        # a variant that changes a parameter list: the call sites of the shared modules were put into positional form for
        # the OLD parameter order - parse them again
        for key, m in list(self.modules.items()):
          if m.repo is not self:
            m2 = Module(self, m.path, m.rel, None)
            self.modules[key] = m2
            self.by_short[m2.short] = m2
        fresh = list(self.modules.values())
      self._normalize_calls(fresh)
    self.json_files: dict[str, Any] = {}
    self.json_errors: dict[str, str] = {}
    self.json_text: dict[str, str] = {}
    for sub in ('recipes', 'policies'):
      for path in sorted(glob.glob(os.path.join(pkg_dir, sub, '*.json'))):
        rel = os.path.relpath(path, self.root)
        try:
          if rel in self.overlay:
            text = self.overlay[rel]
          else:
            with open(path, 'r', encoding='utf-8') as f:
              text = f.read()
          self.json_text[rel] = text
          self.json_files[rel] = json.loads(text)
        except (OSError, ValueError) as e:
          self.json_errors[rel] = str(e)

  def _signatures(self) -> dict:
    return {f.fq: tuple(f.pos_params) for m in self.modules.values() for f in m.functions.values()}

  def _normalize_calls(self, modules) -> None:
    """Canonical argument form (part of sa/normalize.py's contract): at every call that resolves by name to ONE
    repository function, keyword arguments that continue the positional prefix become positional -
    f(a, y=b, z=c) -> f(a, b, c). Rules that read "the second argument" see it however the call was written."""
    for m in modules:
      scopes = [(None, [st for st in m.tree.body if not isinstance(st, (ast.FunctionDef, ast.AsyncFunctionDef, ast.ClassDef))])]
      scopes += [(f, f.node.body) for f in m.functions.values()]
      for f, body in scopes:
        local = set()
        if f is not None:
          a = f.node.args
          local = {x.arg for x in a.posonlyargs + a.args + a.kwonlyargs}
          for st in body:
            for n in ast.walk(st):
              if isinstance(n, ast.Name) and isinstance(n.ctx, ast.Store):
                local.add(n.id)
        stack = list(body)
        while stack:
          n = stack.pop()
          if isinstance(n, (ast.FunctionDef, ast.AsyncFunctionDef, ast.ClassDef)):
            continue
          stack.extend(ast.iter_child_nodes(n))
          if not isinstance(n, ast.Call) or not n.keywords or any(k.arg is None for k in n.keywords) or any(isinstance(x, ast.Starred) for x in n.args):
            continue
          names = self._callee_params(m, f, n.func, local)
          if names is None:
            continue
          kw = {k.arg: k for k in n.keywords}
          i = len(n.args)
          while i < len(names) and names[i] in kw:
            n.args.append(kw[names[i]].value)
            n.keywords.remove(kw[names[i]])
            i += 1

  def _callee_params(self, m, f, func_expr, local) -> Optional[list]:
    """Positional parameter names of the single repository function `func_expr` denotes (without self when bound)."""
    root = func_expr
    while isinstance(root, ast.Attribute):
      root = root.value
    if not isinstance(root, ast.Name):
      return None
    fi, bound = None, False
    chain = []
    e = func_expr
    while isinstance(e, ast.Attribute):
      chain.append(e.attr)
      e = e.value
    chain.reverse()
    start = None
    if root.id == 'self' and f is not None and f.cls is not None and chain:
      start = Sym('instance', f.cls)
    elif root.id in local and f is not None and chain:
      # a local assigned once, from a constructor call of a repository class
      defs = [n for n in ast.walk(f.node) if isinstance(n, ast.Assign) and any(isinstance(t, ast.Name) and t.id == root.id for t in n.targets)]
      stores = sum(1 for n in ast.walk(f.node) if isinstance(n, ast.Name) and n.id == root.id and isinstance(n.ctx, ast.Store))
      if len(defs) == 1 and stores == 1 and isinstance(defs[0].value, ast.Call) and root.id not in {a.arg for a in f.node.args.args + f.node.args.kwonlyargs}:
        try:
          c = self.resolve_expr(m, defs[0].value.func)
        except AnalysisError:
          c = None
        if c is not None and c.kind == 'class':
          start = Sym('instance', c.obj)
    if start is None and root.id in local and f is not None and chain:
      # a parameter annotated with a repository class
      prm = next((a for a in f.node.args.args + f.node.args.kwonlyargs if a.arg == root.id), None)
      stores = sum(1 for n in ast.walk(f.node) if isinstance(n, ast.Name) and n.id == root.id and isinstance(n.ctx, ast.Store))
      if prm is not None and prm.annotation is not None and stores == 0:
        t = self.annotation_type(m, prm.annotation)
        if t is not None and t.kind == 'instance':
          start = t
    if start is not None:
      sym = start
      try:
        for a_ in chain:
          sym = self.resolve_attr(sym, a_)
      except AnalysisError:
        return None
      if sym.kind == 'bound' and isinstance(sym.obj, FuncInfo):
        fi, bound = sym.obj, (sym.obj.is_method or getattr(sym.obj, 'is_classmethod', False))
      elif sym.kind == 'func' and isinstance(sym.obj, FuncInfo):
        fi, bound = sym.obj, False
    elif root.id in local or root.id in ('self', 'cls'):
      return None
    else:
      try:
        sym = self.resolve_expr(m, func_expr)
      except AnalysisError:
        return None
      if sym.kind == 'func' and isinstance(sym.obj, FuncInfo):
        fi = sym.obj
        bound = getattr(fi, 'is_classmethod', False) and fi.cls is not None
      elif sym.kind == 'bound' and isinstance(sym.obj, FuncInfo):
        fi, bound = sym.obj, True
    if fi is None:
      return None
    a = fi.node.args
    if a.vararg is not None or a.posonlyargs:
      return None
    names = [x.arg for x in a.args]
    return names[1:] if bound else names

  def read_text(self, rel: str) -> str:
    if rel in self.overlay:
      return self.overlay[rel]
    with open(os.path.join(self.root, rel), 'r', encoding='utf-8') as f:
      return f.read()

  # -------------------------------------------------------------------- access
  def mod(self, short: str) -> Module:
    if short not in self.by_short:
      raise AnalysisError(f'anchor module {short} not found under {self.root}')
    return self.by_short[short]

  def func(self, fq: str) -> FuncInfo:
    short, qual = fq.split(':', 1)
    return self.mod(short).func(qual)

  def cls(self, fq: str) -> ClassInfo:
    short, qual = fq.split(':', 1)
    return self.mod(short).cls(qual)

  def all_functions(self) -> Iterator[FuncInfo]:
    for m in self.modules.values():
      yield from m.functions.values()

  def digest(self) -> str:
    h = hashlib.sha256()
    for m in self.modules.values():
      h.update(m.rel.encode())
      h.update(m.src.encode())
    for rel in sorted(self.json_files):
      h.update(rel.encode())
      h.update(json.dumps(self.json_files[rel], sort_keys=True).encode())
    return h.hexdigest()[:16]

  def stats(self) -> dict[str, int]:
    return {
        'modules': len(self.modules),
        'functions': sum(len(m.functions) for m in self.modules.values()),
        'classes': sum(len(m.classes) for m in self.modules.values()),
        'json_files': len(self.json_files),
    }

  # ---------------------------------------------------------------- resolution
  def resolve_module_name(self, dotted: str) -> Optional[Module]:
    return self.modules.get(dotted)

  def resolve_name(self, module: Module, name: str, _depth=0) -> Sym:
    """Resolve a bare name in module scope."""
    if _depth > 12:
      return Sym('external', name)
    if name in module.functions and '.' not in name:
      return Sym('func', module.functions[name])
    if name in module.classes:
      return Sym('class', module.classes[name])
    if name in module.assigns:
      val = module.assigns[name][-1]
      s = self.resolve_expr(module, val, _depth=_depth + 1)
      if s.kind in ('module', 'func', 'class', 'instance', 'bound', 'enum_member'):
        return s
      return Sym('const', val, module)
    if name in module.imports:
      target = module.imports[name]
      m = self.resolve_module_name(target)
      if m is not None:
        return Sym('module', m)
      if '.' in target:
        base, attr = target.rsplit('.', 1)
        bm = self.resolve_module_name(base)
        if bm is not None:
          return self.resolve_attr(Sym('module', bm), attr, _depth + 1)
      return Sym('external', target)
    return Sym('external', name)

  def resolve_attr(self, base: Sym, attr: str, _depth=0) -> Sym:
    if base.kind == 'module':
      return self.resolve_name(base.obj, attr, _depth + 1)
    if base.kind == 'class':
      ci: ClassInfo = base.obj
      if attr in ci.methods:
        return Sym('func', ci.methods[attr])
      if attr in ci.nested:
        return Sym('class', ci.nested[attr])
      if ci.is_enum and attr in ci.enum_members:
        return Sym('enum_member', ci, attr)
      if attr in ci.enum_members:
        return Sym('const', ci.enum_members[attr], ci.module)
      f = ci.field(attr)
      if f is not None and f.default is not None:
        return Sym('const', f.default, ci.module)
      return Sym('external', f'{ci.fq}.{attr}')
    if base.kind == 'instance':
      ci = base.obj
      if attr in ci.methods:
        return Sym('bound', ci.methods[attr], ci)
      if attr in ci.nested:
        return Sym('class', ci.nested[attr])
      t = self.attr_type(ci, attr)
      if t is not None:
        return t
      return Sym('external', f'{ci.fq}().{attr}')
    if base.kind == 'external':
      return Sym('external', f'{base.obj}.{attr}')
    return Sym('external', f'?.{attr}')

  def attr_type(self, ci: ClassInfo, attr: str) -> Optional[Sym]:
    """Type of instance attribute `attr` of class `ci`, when declared."""
    f = ci.field(attr)
    if f is not None and f.annotation is not None:
      s = self.annotation_type(ci.module, f.annotation)
      if s is not None:
        return s
    if attr in ci.init_attrs:
      ann, val = ci.init_attrs[attr]
      if ann is not None:
        s = self.annotation_type(ci.module, ann)
        if s is not None:
          return s
      if isinstance(val, ast.Call):
        s = self.resolve_expr(ci.module, val.func)
        if s.kind == 'class':
          return Sym('instance', s.obj)
    return None

  def annotation_type(self, module: Module, ann: ast.expr) -> Optional[Sym]:
    """Instance type named by an annotation (Optional[...] is looked through)."""
    if isinstance(ann, ast.Constant) and isinstance(ann.value, str):
      try:
        ann = ast.parse(ann.value, mode='eval').body
      except SyntaxError:
        return None
    if isinstance(ann, ast.Subscript):
      head = ast.unparse(ann.value)
      if head.split('.')[-1] in ('Optional',):
        return self.annotation_type(module, ann.slice)
      if head.split('.')[-1] in ('Union',):
        elts = ann.slice.elts if isinstance(ann.slice, ast.Tuple) else [ann.slice]
        cands = [self.annotation_type(module, e) for e in elts
                 if not (isinstance(e, ast.Constant) and e.value is None)]
        cands = [c for c in cands if c is not None]
        return cands[0] if len(cands) == 1 else None
      return None
    if isinstance(ann, (ast.Name, ast.Attribute)):
      s = self.resolve_expr(module, ann)
      if s.kind == 'class':
        return Sym('instance', s.obj)
    return None

  def resolve_expr(self, module: Module, expr: ast.expr, _depth=0) -> Sym:
    """Resolve a Name/Attribute chain (or constructor call) at module scope."""
    if _depth > 12:
      return Sym('external', '?')
    if isinstance(expr, ast.Name):
      return self.resolve_name(module, expr.id, _depth + 1)
    if isinstance(expr, ast.Attribute):
      base = self.resolve_expr(module, expr.value, _depth + 1)
      return self.resolve_attr(base, expr.attr, _depth + 1)
    if isinstance(expr, ast.Call):
      f = self.resolve_expr(module, expr.func, _depth + 1)
      if f.kind == 'class':
        return Sym('instance', f.obj)
      return Sym('external', '?call')
    return Sym('external', '?')


_REPO_CACHE: dict[str, Repo] = {}


def load_repo() -> Repo:
  root = repo_root()
  if root not in _REPO_CACHE:
    _REPO_CACHE[root] = Repo(root)
  return _REPO_CACHE[root]


def find_site_packages_file(rel: str) -> Optional[str]:
  """Locate a dependency source file by scanning sys.path (never imports it)."""
  for p in sys.path:
    cand = os.path.join(p, rel)
    if os.path.isfile(cand):
      return cand
  for cand in glob.glob('/venv/lib/python3*/site-packages/' + rel):
    return cand
  return None
