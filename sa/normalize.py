"""Canonical form of the parsed source.

Every rule reads the repository through `index.Module.tree`. Before a tree is
indexed it is brought into a canonical form, so that behaviour-preserving
rewrites of the kind a refactoring produces do not change what the rules see:

  N1  a local that is assigned once, read once, and read in the statement that
      directly follows its assignment is substituted into that statement
      ("extract variable" undone): `t = E; if t:` -> `if E:`,
      `r = E; return r` -> `return E`. Only when the order of evaluation cannot
      change: E is free of calls, or the read is the first thing the next
      statement evaluates (its test / value / iterable as a whole).
  N2  `not` is pushed into comparisons: not (a is None) -> a is not None,
      not (a == b) -> a != b, not (a in b) -> a not in b, and `not not x` -> x
      where only the truth value matters.
  N3  a two-armed `if` whose test is a negation is turned round:
      `if not c: A else: B` -> `if c: B else: A`, and likewise one whose test is
      a single `is not` / `!=` / `not in` (an elif is an else that holds one if).
  N4  the operands of == / != get a canonical order: a constant-like operand
      (literal, enum / class constant) goes to the right, otherwise the
      operands are ordered by their source text.

  N5  a block that ends a loop body or a function and whose last statement is
      an `if` without else is written with a guard clause:
      `for ...: if c: REST` -> `for ...: if not c: continue; REST`
      (repeatedly, so nested trailing ifs become a sequence of guards).
  N6  (index.Repo._normalize_calls) at a call that resolves by name to one
      repository function, keyword arguments that continue the positional
      prefix become positional: f(a, y=b) -> f(a, b).

The result is only analysed, never executed. Line numbers of the surviving
nodes are kept, so reports still point into the file.
"""
from __future__ import annotations

import ast
from typing import Optional

_EFFECT = (ast.Call, ast.Await, ast.Yield, ast.YieldFrom, ast.NamedExpr)


def _pure(e: ast.AST) -> bool:
  return not any(isinstance(n, _EFFECT) for n in ast.walk(e))


def _const_like(n: ast.AST) -> bool:
  if isinstance(n, ast.Constant):
    return True
  if isinstance(n, ast.UnaryOp) and isinstance(n.op, (ast.USub, ast.UAdd)) and isinstance(n.operand, ast.Constant):
    return True
  if isinstance(n, ast.Attribute):
    a = n.attr
    return a.isupper() or a[:1].isupper() or (a.endswith('_') and a[:-1].islower() and isinstance(n.value, ast.Name) and n.value.id in ('np', 'numpy'))
  if isinstance(n, (ast.List, ast.Tuple, ast.Set)):
    return all(_const_like(e) for e in n.elts)
  return False


_NEG = {ast.Is: ast.IsNot, ast.IsNot: ast.Is, ast.Eq: ast.NotEq, ast.NotEq: ast.Eq, ast.In: ast.NotIn, ast.NotIn: ast.In}


class _Expr(ast.NodeTransformer):
  """N2 and N4 on expressions (bottom-up)."""

  def visit_UnaryOp(self, node):
    self.generic_visit(node)
    if isinstance(node.op, ast.Not):
      x = node.operand
      if isinstance(x, ast.Compare) and len(x.ops) == 1 and type(x.ops[0]) in _NEG:
        return ast.copy_location(ast.Compare(left=x.left, ops=[_NEG[type(x.ops[0])]()], comparators=x.comparators), node)
      if isinstance(x, ast.UnaryOp) and isinstance(x.op, ast.Not) and isinstance(x.operand, (ast.Compare, ast.BoolOp)):
        return x.operand   # already a truth value
    return node

  def visit_Compare(self, node):
    self.generic_visit(node)
    if len(node.ops) == 1 and isinstance(node.ops[0], (ast.Eq, ast.NotEq)):
      l, r = node.left, node.comparators[0]
      cl, cr = _const_like(l), _const_like(r)
      swap = (cl and not cr) or (cl == cr and _pure(l) and _pure(r) and ast.unparse(l) > ast.unparse(r))
      if swap:
        return ast.copy_location(ast.Compare(left=r, ops=node.ops, comparators=[l]), node)
    return node


def _strip_not_not(test: ast.expr) -> ast.expr:
  while isinstance(test, ast.UnaryOp) and isinstance(test.op, ast.Not) and isinstance(test.operand, ast.UnaryOp) and isinstance(test.operand.op, ast.Not):
    test = test.operand.operand
  return test


def _count_names(fn_body: list) -> tuple:
  loads, stores, blocked = {}, {}, set()
  for st in fn_body:
    for n in ast.walk(st):
      if isinstance(n, ast.Name):
        d = loads if isinstance(n.ctx, ast.Load) else stores
        d[n.id] = d.get(n.id, 0) + 1
      elif isinstance(n, (ast.Global, ast.Nonlocal)):
        blocked.update(n.names)
      elif isinstance(n, (ast.FunctionDef, ast.AsyncFunctionDef, ast.Lambda, ast.ListComp, ast.SetComp, ast.DictComp, ast.GeneratorExp)):
        # a read inside a nested scope happens later / repeatedly: never substitute there
        for m in ast.walk(n):
          if isinstance(m, ast.Name) and m is not n:
            blocked.add(m.id)
      elif isinstance(n, (ast.AugAssign,)) and isinstance(n.target, ast.Name):
        blocked.add(n.target.id)
      elif isinstance(n, ast.ExceptHandler) and n.name:
        blocked.add(n.name)
  return loads, stores, blocked


class _Subst(ast.NodeTransformer):

  def __init__(self, name, value):
    self.name, self.value, self.done = name, value, 0

  def visit_Name(self, node):
    if node.id == self.name and isinstance(node.ctx, ast.Load):
      self.done += 1
      return self.value
    return node


def _evaluated_first(expr: ast.expr, name: str) -> bool:
  """Is the single read of `name` in `expr` evaluated unconditionally and before any call of `expr` completes? Then an
  effectful definition can be moved into its place without changing the order of effects."""
  state = {'found': False, 'ok': False}

  def walk(e, conditional):
    if state['found']:
      return
    if isinstance(e, ast.Name):
      if e.id == name and isinstance(e.ctx, ast.Load):
        state['found'] = True
        state['ok'] = not conditional
      return
    if isinstance(e, (ast.Lambda, ast.ListComp, ast.SetComp, ast.DictComp, ast.GeneratorExp)):
      if any(isinstance(n, ast.Name) and n.id == name for n in ast.walk(e)):
        state['found'] = True   # evaluated later / repeatedly
      return
    if isinstance(e, ast.BoolOp):
      for i, v in enumerate(e.values):
        walk(v, conditional or i > 0)
      return
    if isinstance(e, ast.IfExp):
      walk(e.test, conditional)
      walk(e.body, True)
      walk(e.orelse, True)
      return
    if isinstance(e, ast.Compare):
      walk(e.left, conditional)
      for i, c in enumerate(e.comparators):
        walk(c, conditional or i > 0)
      return
    for child in ast.iter_child_nodes(e):
      if isinstance(child, ast.expr) or isinstance(child, ast.keyword):
        walk(child.value if isinstance(child, ast.keyword) else child, conditional)
        if state['found']:
          return
    if isinstance(e, _EFFECT) and not state['found']:
      state['found'] = True   # a call completed before the name was read
  walk(expr, False)
  return state['ok']


def _first_evaluated(st: ast.stmt) -> Optional[ast.expr]:
  if isinstance(st, (ast.If, ast.While)):
    return st.test
  if isinstance(st, ast.Return):
    return st.value
  if isinstance(st, ast.Assign):
    return st.value
  if isinstance(st, ast.AnnAssign):
    return st.value
  if isinstance(st, ast.For):
    return st.iter
  if isinstance(st, ast.Expr):
    return st.value
  return None


def _head_exprs(st: ast.stmt) -> list:
  """Expressions of `st` that are evaluated ONCE when the statement starts (not the bodies of compound statements;
  a while test is evaluated again and again, so nothing is substituted into it)."""
  if isinstance(st, ast.If):
    return [st.test]
  if isinstance(st, ast.While):
    return []
  if isinstance(st, ast.For):
    return [st.iter]
  if isinstance(st, ast.With):
    return [i.context_expr for i in st.items]
  if isinstance(st, (ast.Try, ast.FunctionDef, ast.AsyncFunctionDef, ast.ClassDef)):
    return []
  return [st]


def _try_subst(prev, st, loads, stores, blocked):
  """N1 for one pair of adjacent statements: the statement `st` with the definition `prev` substituted, or None."""
  if not (isinstance(prev, ast.Assign) and len(prev.targets) == 1 and isinstance(prev.targets[0], ast.Name)):
    return None
  t = prev.targets[0].id
  if not (loads.get(t, 0) == 1 and stores.get(t, 0) == 1 and t not in blocked):
    return None
  heads = _head_exprs(st)
  uses = sum(1 for h in heads for n in ast.walk(h) if isinstance(n, ast.Name) and n.id == t and isinstance(n.ctx, ast.Load))
  if uses != 1:
    return None
  first = _first_evaluated(st)
  whole = first is not None and _evaluated_first(first, t)
  if not (whole or _pure(prev.value)):
    return None
  sub = _Subst(t, prev.value)
  if isinstance(st, ast.If):
    st.test = sub.visit(st.test)
  elif isinstance(st, ast.For):
    st.iter = sub.visit(st.iter)
  elif isinstance(st, ast.With):
    for i in st.items:
      i.context_expr = sub.visit(i.context_expr)
  else:
    st = sub.visit(st)
  if sub.done != 1:
    return None
  loads[t] = 0
  return st


def _subst_pass(stmts: list, loads, stores, blocked) -> list:
  out = []
  for st in stmts:
    sub_st = _try_subst(out[-1] if out else None, st, loads, stores, blocked)
    if sub_st is not None:
      out.pop()
      st = sub_st
    out.append(st)
  return out


def _guard_form(stmts: list, tail: str) -> list:
  """N5: a block that ends a loop body (tail == 'loop') or a function (tail == 'fn') and whose last statement is an
  if without else becomes a guard clause followed by the former body: `if c: REST` -> `if not c: continue; REST`."""
  while stmts and isinstance(stmts[-1], ast.If) and not stmts[-1].orelse:
    last = stmts[-1]
    if len(last.body) == 1 and isinstance(last.body[0], (ast.Continue if tail == 'loop' else ast.Return)) and (tail == 'loop' or last.body[0].value is None):
      break   # already a (redundant) guard
    leave = ast.copy_location(ast.Continue() if tail == 'loop' else ast.Return(value=None), last)
    neg = _Expr().visit(ast.copy_location(ast.UnaryOp(op=ast.Not(), operand=last.test), last.test))
    guard = ast.copy_location(ast.If(test=_strip_not_not(neg), body=[leave], orelse=[]), last)
    stmts = stmts[:-1] + [guard] + list(last.body)
  return stmts


def _block(stmts: list, loads: dict, stores: dict, blocked: set, tail: Optional[str] = None) -> list:
  if tail is not None:
    stmts = _subst_pass(list(stmts), loads, stores, blocked)   # `t = E; if t: REST` must become `if E: REST` before it is turned into a guard
    stmts = _guard_form(stmts, tail)
  out = []
  for st in stmts:
    # recurse into compound statements first
    for field in ('body', 'orelse', 'finalbody'):
      sub = getattr(st, field, None)
      if isinstance(sub, list) and sub and isinstance(sub[0], ast.stmt) and not isinstance(st, (ast.FunctionDef, ast.AsyncFunctionDef, ast.ClassDef)):
        sub_tail = 'loop' if field == 'body' and isinstance(st, (ast.For, ast.While)) else None
        setattr(st, field, _block(sub, loads, stores, blocked, sub_tail))
    if isinstance(st, ast.Try):
      for h in st.handlers:
        h.body = _block(h.body, loads, stores, blocked)
    prev = out[-1] if out else None
    # N1
    sub_st = _try_subst(prev, st, loads, stores, blocked)
    if sub_st is not None:
      out.pop()
      st = sub_st
    # N2 on tests, N3
    if isinstance(st, (ast.If, ast.While)):
      st.test = _strip_not_not(st.test)
    if isinstance(st, ast.If) and st.orelse:   # (an `elif` is an else holding one if: the same rule applies)
      st.test = _Expr().visit(st.test)
      if isinstance(st.test, ast.UnaryOp) and isinstance(st.test.op, ast.Not):
        st.test, st.body, st.orelse = st.test.operand, st.orelse, st.body
      elif isinstance(st.test, ast.Compare) and len(st.test.ops) == 1 and isinstance(st.test.ops[0], (ast.IsNot, ast.NotEq, ast.NotIn)):
        # one polarity for two-armed ifs on a comparison: the positive operator
        st.test = ast.copy_location(ast.Compare(left=st.test.left, ops=[_NEG[type(st.test.ops[0])]()], comparators=st.test.comparators), st.test)
        st.body, st.orelse = st.orelse, st.body
    out.append(st)
  return out


def _functions(tree: ast.AST):
  for n in ast.walk(tree):
    if isinstance(n, (ast.FunctionDef, ast.AsyncFunctionDef)):
      yield n


def normalize_module(tree: ast.Module) -> ast.Module:
  tree = _Expr().visit(tree)
  for fn in _functions(tree):
    # names are counted per function (nested functions are separate scopes but their names are blocked in the parent)
    own = [s for s in fn.body]
    loads, stores, blocked = _count_names(own)
    for a in fn.args.posonlyargs + fn.args.args + fn.args.kwonlyargs:
      blocked.add(a.arg)
    fn.body = _block(fn.body, loads, stores, blocked, 'fn')
  # expression-level clean-up once more: substitution can create `not <compare>`
  tree = _Expr().visit(tree)
  for fn in _functions(tree):
    for n in ast.walk(fn):
      if isinstance(n, (ast.If, ast.While)):
        n.test = _strip_not_not(n.test)
  ast.fix_missing_locations(tree)
  return tree
