"""Catalogue of source variants used to validate the rules themselves.

Each variant is a set of textual replacements applied IN MEMORY (an overlay on
the index of the current tree; nothing is written to disk and the repository
is never executed). A `break` variant must make one of its `rules` report; a
`twin` variant is behaviour-preserving and must stay silent. A variant whose
anchor text no longer occurs exactly once is reported as skipped.

`control=True` variants are the quick-tier positive controls: a rule whose
expected violation count on the real tree is zero must still be seen to fire.
"""
from __future__ import annotations

import dataclasses
from typing import Optional

from sa import index

P = 'ai_edge_quantizer/'


@dataclasses.dataclass
class Mutant:
  id: str
  prop: str
  edits: list[tuple[str, str, str]]  # (rel path, old text, new text)
  rules: tuple[str, ...]
  note: str
  kind: str = 'break'  # or 'twin'
  control: bool = False
  allow_error: bool = False  # an ANALYSIS-ERROR also counts as noticed

  def apply(self, base: index.Repo) -> Optional[dict[str, str]]:
    overlay: dict[str, str] = {}
    for rel, old, new in self.edits:
      try:
        text = overlay.get(rel) or base.read_text(rel)
      except OSError:
        return None
      if text.count(old) != 1:
        return None
      overlay[rel] = text.replace(old, new)
    return overlay


CATALOGUE: list[Mutant] = []


def add(id_, prop, edits, rules, note, kind='break', control=False,
        allow_error=False):
  if isinstance(edits, tuple):
    edits = [edits]
  if isinstance(rules, str):
    rules = (rules,)
  CATALOGUE.append(
      Mutant(id_, prop, [(P + r if not r.startswith(P) else r, o, n)
                         for r, o, n in edits],
             tuple(rules), note, kind, control, allow_error)
  )


def for_property(prop: str) -> list[Mutant]:
  from sa import mutant_catalogue  # pylint: disable=g-import-not-at-top,unused-import

  return [m for m in CATALOGUE if m.prop == prop]
