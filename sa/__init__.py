"""Static analysis of google-ai-edge/ai-edge-quantizer (see /verif/DESIGN.md).

Nothing in this package imports or executes the analysed repository: every
verdict is computed from `ast` parses of the files under $SA_REPO (default
/repo) as they are when the check starts.
"""
