"""The variants (see mutants.py). One block per property."""
from sa.mutants import add

QT = 'qtyping.py'
RM = 'recipe_manager.py'

# ---------------------------------------------------------------------- C12
add('C12.f9', 'C12', (QT,
    """    if 'weight_tensor_config' in params_copy:
      params_copy['weight_tensor_config'] = TensorQuantizationConfig.from_dict(
          params_copy['weight_tensor_config']
      )
""",
    """    params_copy['weight_tensor_config'] = TensorQuantizationConfig.from_dict(
        params_copy['weight_tensor_config']
    )
"""), 'C12.R1', 'defect F9 returns: from_dict subscripts weight_tensor_config unconditionally', control=True)
add('C12.f7', 'C12', ('recipes/sample_advanced_usage_recipe.json',
    '"symmetric": false,\n        "granularity": "TENSORWISE",',
    '"symmetric": false,\n        "channel_wise": false,'),
    'C12.R4', 'defect F7 returns: shipped sample recipe uses a key that is not a field', control=True)
add('C12.writer_key', 'C12', (RM, "config['operation'] = quant_config.operation",
    "config['op'] = quant_config.operation"), 'C12.R2', 'writer emits op instead of operation')
add('C12.enum_not_str', 'C12', (QT, 'class ComputePrecision(str, enum.Enum):', 'class ComputePrecision(enum.Enum):'),
    ('C12.R3', 'C12.R1'), 'ComputePrecision loses its str base')
add('C12.recipe_py', 'C12', ('recipe.py', "'granularity': 'CHANNELWISE',", "'granularity': 'TENSORWISE',"),
    'C12.R6', 'recipe.dynamic_wi8_afp32() drifts from the shipped file')
add('C12.extra_key', 'C12', ('recipes/default_a8w8_recipe.json', '"skip_checks": false', '"skip_checks": false,\n      "execution_mode": "SRQ"'),
    ('C12.R4', 'C12.R5'), 'default recipe gains a key the dataclass does not have')
add('C12.to_dict_falsy', 'C12', (QT,
    """  weight_tensor_config: Optional[TensorQuantizationConfig] = None
  compute_precision: ComputePrecision = ComputePrecision.FLOAT""",
    """  weight_tensor_config: Optional[TensorQuantizationConfig] = None
  compute_precision: ComputePrecision = ComputePrecision.INTEGER"""),
    ('C12.R1', 'C12.R5'), 'changing a default must not matter: twin (all fields are always serialised)', kind='twin')
add('C12.to_dict_drop_false', 'C12', (QT,
    """            if v is not None and not (isinstance(v, dict) and not v)
        },
    )

  @classmethod
  def from_dict(cls, params: dict[str, Any]) -> 'OpQuantizationConfig':""",
    """            if v
        },
    )

  @classmethod
  def from_dict(cls, params: dict[str, Any]) -> 'OpQuantizationConfig':"""),
    ('C12.R1', 'C12.R5'), 'OpQuantizationConfig.to_dict drops falsy values (explicit False lost -> default restored)')
add('C12.need_calib_key', 'C12', (RM, "and 'activation_tensor_config' in op_quant_config['op_config']",
    "and op_quant_config['op_config']['activation_tensor_config'] is not None"),
    'C12.R2', 'need_calibration subscripts a key that to_dict omits')
add('C12.twin_rename', 'C12', (QT,
    """    params_copy = copy.deepcopy(params)
    return cls(**params_copy)""",
    """    kwargs = copy.deepcopy(params)
    return cls(**kwargs)"""), (), 'rename a temporary in TensorQuantizationConfig.from_dict', kind='twin')
