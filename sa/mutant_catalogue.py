"""The variants (see mutants.py). One block per property."""
from sa.mutants import add

QT = 'qtyping.py'
RM = 'recipe_manager.py'

# ---------------------------------------------------------------------- C12
add('C12.f9', 'C12', (QT,
    """    if 'weight_tensor_config' in params_copy:
      params_copy['weight_tensor_config'] = TensorQuantizationConfig.from_dict(
          params_copy['weight_tensor_config']
      )
""",
    """    params_copy['weight_tensor_config'] = TensorQuantizationConfig.from_dict(
        params_copy['weight_tensor_config']
    )
"""), 'C12.R1', 'defect F9 returns: from_dict subscripts weight_tensor_config unconditionally', control=True)
add('C12.f7', 'C12', ('recipes/sample_advanced_usage_recipe.json',
    '"symmetric": false,\n        "granularity": "TENSORWISE",',
    '"symmetric": false,\n        "channel_wise": false,'),
    'C12.R4', 'defect F7 returns: shipped sample recipe uses a key that is not a field', control=True)
add('C12.writer_key', 'C12', (RM, "config['operation'] = quant_config.operation",
    "config['op'] = quant_config.operation"), 'C12.R2', 'writer emits op instead of operation')
add('C12.enum_not_str', 'C12', (QT, 'class ComputePrecision(str, enum.Enum):', 'class ComputePrecision(enum.Enum):'),
    ('C12.R3', 'C12.R1'), 'ComputePrecision loses its str base')
add('C12.recipe_py', 'C12', ('recipe.py', "'granularity': 'CHANNELWISE',", "'granularity': 'TENSORWISE',"),
    'C12.R6', 'recipe.dynamic_wi8_afp32() drifts from the shipped file')
add('C12.extra_key', 'C12', ('recipes/default_a8w8_recipe.json', '"skip_checks": false', '"skip_checks": false,\n      "execution_mode": "SRQ"'),
    ('C12.R4', 'C12.R5'), 'default recipe gains a key the dataclass does not have')
add('C12.to_dict_falsy', 'C12', (QT,
    """  weight_tensor_config: Optional[TensorQuantizationConfig] = None
  compute_precision: ComputePrecision = ComputePrecision.FLOAT""",
    """  weight_tensor_config: Optional[TensorQuantizationConfig] = None
  compute_precision: ComputePrecision = ComputePrecision.INTEGER"""),
    ('C12.R1', 'C12.R5'), 'changing a default must not matter: twin (all fields are always serialised)', kind='twin')
add('C12.to_dict_drop_false', 'C12', (QT,
    """            if v is not None and not (isinstance(v, dict) and not v)
        },
    )

  @classmethod
  def from_dict(cls, params: dict[str, Any]) -> 'OpQuantizationConfig':""",
    """            if v
        },
    )

  @classmethod
  def from_dict(cls, params: dict[str, Any]) -> 'OpQuantizationConfig':"""),
    ('C12.R1', 'C12.R5'), 'OpQuantizationConfig.to_dict drops falsy values (explicit False lost -> default restored)')
add('C12.need_calib_key', 'C12', (RM, "and 'activation_tensor_config' in op_quant_config['op_config']",
    "and op_quant_config['op_config']['activation_tensor_config'] is not None"),
    'C12.R2', 'need_calibration subscripts a key that to_dict omits')
add('C12.twin_rename', 'C12', (QT,
    """    params_copy = copy.deepcopy(params)
    return cls(**params_copy)""",
    """    kwargs = copy.deepcopy(params)
    return cls(**kwargs)"""), (), 'rename a temporary in TensorQuantizationConfig.from_dict', kind='twin')

# ---------------------------------------------------------------------- C14
PG = 'params_generator.py'
QZ = 'quantizer.py'
CAL = 'calibrator.py'
add('C14.f1', 'C14', (PG,
    """    else:
      # Materialization functions overwrite QSVs in place (same-as-input-scale
      # and fixed-range ops); do not modify the caller's calibration result.
      model_qsvs = copy.deepcopy(model_qsvs)
""", ""), 'C14.R1', 'defect F1 returns: materialisers store into the caller\'s calibration result', control=True)
add('C14.shallow_copy', 'C14', (PG, "      model_qsvs = copy.deepcopy(model_qsvs)\n", "      model_qsvs = dict(model_qsvs)\n"),
    'C14.R1', 'a shallow copy is not enough: fixed-range ops store into the per-tensor dict')
add('C14.two_level_copy', 'C14', (PG, "      model_qsvs = copy.deepcopy(model_qsvs)\n",
    "      model_qsvs = {name: dict(qsv) for name, qsv in model_qsvs.items()}\n"),
    (), 'a two-level copy covers both store depths (name -> qsv -> min/max)', kind='twin')
add('C14.cache_pg', 'C14', (QZ,
    """    params_generator_instance = params_generator.ParamsGenerator(
        self.float_model
    )
""",
    """    if not hasattr(self, '_params_generator'):
      self._params_generator = params_generator.ParamsGenerator(
          self.float_model
      )
    params_generator_instance = self._params_generator
"""), ('C14.R2', 'C14.R3'), 'Quantizer caches its ParamsGenerator (accumulated results leak into the next quantize())', control=True)
add('C14.load_qsvs_nocopy', 'C14', (CAL, "    self._model_qsvs = copy.deepcopy(model_qsvs)", "    self._model_qsvs = model_qsvs"),
    'C14.R1', 'previous calibration result kept by reference and then updated in place')
add('C14.input_dict', 'C14', ('utils/tfl_interpreter_utils.py', "  signature_input = signature_input_data.copy()", "  signature_input = signature_input_data"),
    'C14.R1', 'calibration/test sample dict overwritten with its quantized value')
add('C14.str_set_iter', 'C14', (CAL, "    for tensor_name, qsv in op_qsvs.items():\n      if tensor_name in ignore_tensor_names:",
    "    for tensor_name in set(op_qsvs) - ignore_tensor_names:\n      qsv = op_qsvs[tensor_name]\n      if tensor_name in ignore_tensor_names:"),
    'C14.R4', 'iteration over a set of tensor names (hash-seed dependent order)')
add('C14.module_cache', 'C14', [(PG, "_QuantTrans = qtyping.QuantTransformation\n", "_QuantTrans = qtyping.QuantTransformation\n_RESULT_CACHE = {}\n"),
    (PG, "    self._post_process_results()\n    return self.model_quant_results", "    self._post_process_results()\n    _RESULT_CACHE[id(model_recipe_manager)] = self.model_quant_results\n    return self.model_quant_results")],
    ('C14.R3', 'C14.R5'), 'module-level cache written by quantize()')
add('C14.unseeded', 'C14', ('utils/test_utils.py', "rng = np.random.default_rng(random_seed)", "rng = np.random.default_rng()"),
    'C14.R5', 'validate() default data drawn from an unseeded generator')
add('C14.twin_rename', 'C14', (QZ, "    calib = calibrator.Calibrator(self.float_model)\n    if previous_calibration_result is not None:\n      calib.load_model_qsvs(previous_calibration_result)\n    calib.calibrate(calibration_data, self._recipe_manager, signature_key)\n    return calib.get_model_qsvs()",
    "    model_calibrator = calibrator.Calibrator(self.float_model)\n    if previous_calibration_result is not None:\n      model_calibrator.load_model_qsvs(previous_calibration_result)\n    model_calibrator.calibrate(calibration_data, self._recipe_manager, signature_key)\n    return model_calibrator.get_model_qsvs()"),
    (), 'rename the per-call Calibrator local', kind='twin')
add('C14.result_history', 'C14', (QZ, "    quant_params = self._get_quantization_params(calibration_result)\n",
    "    if self._result.quantized_model is not None and calibration_result is None:\n      return self._result\n    quant_params = self._get_quantization_params(calibration_result)\n"),
    'C14.R3', 'quantize() short-circuits on the previous result (stale after a recipe update)')
