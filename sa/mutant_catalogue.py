"""The variants (see mutants.py). One block per property."""
from sa.mutants import add

QT = 'qtyping.py'
RM = 'recipe_manager.py'

# ---------------------------------------------------------------------- C12
add('C12.f9', 'C12', (QT,
    """    if 'weight_tensor_config' in params_copy:
      params_copy['weight_tensor_config'] = TensorQuantizationConfig.from_dict(
          params_copy['weight_tensor_config']
      )
""",
    """    params_copy['weight_tensor_config'] = TensorQuantizationConfig.from_dict(
        params_copy['weight_tensor_config']
    )
"""), 'C12.R1', 'defect F9 returns: from_dict subscripts weight_tensor_config unconditionally', control=True)
add('C12.f7', 'C12', ('recipes/sample_advanced_usage_recipe.json',
    '"symmetric": false,\n        "granularity": "TENSORWISE",',
    '"symmetric": false,\n        "channel_wise": false,'),
    'C12.R4', 'defect F7 returns: shipped sample recipe uses a key that is not a field', control=True)
add('C12.writer_key', 'C12', (RM, "config['operation'] = quant_config.operation",
    "config['op'] = quant_config.operation"), 'C12.R2', 'writer emits op instead of operation')
add('C12.enum_not_str', 'C12', (QT, 'class ComputePrecision(str, enum.Enum):', 'class ComputePrecision(enum.Enum):'),
    ('C12.R3', 'C12.R1'), 'ComputePrecision loses its str base')
add('C12.recipe_py', 'C12', ('recipe.py', "'granularity': 'CHANNELWISE',", "'granularity': 'TENSORWISE',"),
    'C12.R6', 'recipe.dynamic_wi8_afp32() drifts from the shipped file')
add('C12.extra_key', 'C12', ('recipes/default_a8w8_recipe.json', '"skip_checks": false', '"skip_checks": false,\n      "execution_mode": "SRQ"'),
    ('C12.R4', 'C12.R5'), 'default recipe gains a key the dataclass does not have')
add('C12.to_dict_falsy', 'C12', (QT,
    """  weight_tensor_config: Optional[TensorQuantizationConfig] = None
  compute_precision: ComputePrecision = ComputePrecision.FLOAT""",
    """  weight_tensor_config: Optional[TensorQuantizationConfig] = None
  compute_precision: ComputePrecision = ComputePrecision.INTEGER"""),
    ('C12.R1', 'C12.R5'), 'changing a default must not matter: twin (all fields are always serialised)', kind='twin')
add('C12.to_dict_drop_false', 'C12', (QT,
    """            if v is not None and not (isinstance(v, dict) and not v)
        },
    )

  @classmethod
  def from_dict(cls, params: dict[str, Any]) -> 'OpQuantizationConfig':""",
    """            if v
        },
    )

  @classmethod
  def from_dict(cls, params: dict[str, Any]) -> 'OpQuantizationConfig':"""),
    ('C12.R1', 'C12.R5'), 'OpQuantizationConfig.to_dict drops falsy values (explicit False lost -> default restored)')
add('C12.need_calib_key', 'C12', (RM, "and 'activation_tensor_config' in op_quant_config['op_config']",
    "and op_quant_config['op_config']['activation_tensor_config'] is not None"),
    'C12.R2', 'need_calibration subscripts a key that to_dict omits')
add('C12.twin_rename', 'C12', (QT,
    """    params_copy = copy.deepcopy(params)
    return cls(**params_copy)""",
    """    kwargs = copy.deepcopy(params)
    return cls(**kwargs)"""), (), 'rename a temporary in TensorQuantizationConfig.from_dict', kind='twin')

# ---------------------------------------------------------------------- C14
PG = 'params_generator.py'
QZ = 'quantizer.py'
CAL = 'calibrator.py'
add('C14.f1', 'C14', (PG,
    """    else:
      # Materialization functions overwrite QSVs in place (same-as-input-scale
      # and fixed-range ops); do not modify the caller's calibration result.
      model_qsvs = copy.deepcopy(model_qsvs)
""", ""), 'C14.R1', 'defect F1 returns: materialisers store into the caller\'s calibration result', control=True)
add('C14.shallow_copy', 'C14', (PG, "      model_qsvs = copy.deepcopy(model_qsvs)\n", "      model_qsvs = dict(model_qsvs)\n"),
    'C14.R1', 'a shallow copy is not enough: fixed-range ops store into the per-tensor dict')
add('C14.two_level_copy', 'C14', (PG, "      model_qsvs = copy.deepcopy(model_qsvs)\n",
    "      model_qsvs = {name: dict(qsv) for name, qsv in model_qsvs.items()}\n"),
    (), 'a two-level copy covers both store depths (name -> qsv -> min/max)', kind='twin')
add('C14.cache_pg', 'C14', (QZ,
    """    params_generator_instance = params_generator.ParamsGenerator(
        self.float_model
    )
""",
    """    if not hasattr(self, '_params_generator'):
      self._params_generator = params_generator.ParamsGenerator(
          self.float_model
      )
    params_generator_instance = self._params_generator
"""), ('C14.R2', 'C14.R3'), 'Quantizer caches its ParamsGenerator (accumulated results leak into the next quantize())', control=True)
add('C14.load_qsvs_nocopy', 'C14', (CAL, "    self._model_qsvs = copy.deepcopy(model_qsvs)", "    self._model_qsvs = model_qsvs"),
    'C14.R1', 'previous calibration result kept by reference and then updated in place')
add('C14.input_dict', 'C14', ('utils/tfl_interpreter_utils.py', "  signature_input = signature_input_data.copy()", "  signature_input = signature_input_data"),
    'C14.R1', 'calibration/test sample dict overwritten with its quantized value')
add('C14.str_set_iter', 'C14', (CAL, "    for tensor_name, qsv in op_qsvs.items():\n      if tensor_name in ignore_tensor_names:",
    "    for tensor_name in set(op_qsvs) - ignore_tensor_names:\n      qsv = op_qsvs[tensor_name]\n      if tensor_name in ignore_tensor_names:"),
    'C14.R4', 'iteration over a set of tensor names (hash-seed dependent order)')
add('C14.module_cache', 'C14', [(PG, "_QuantTrans = qtyping.QuantTransformation\n", "_QuantTrans = qtyping.QuantTransformation\n_RESULT_CACHE = {}\n"),
    (PG, "    self._post_process_results()\n    return self.model_quant_results", "    self._post_process_results()\n    _RESULT_CACHE[id(model_recipe_manager)] = self.model_quant_results\n    return self.model_quant_results")],
    ('C14.R3', 'C14.R5'), 'module-level cache written by quantize()')
add('C14.unseeded', 'C14', ('utils/test_utils.py', "rng = np.random.default_rng(random_seed)", "rng = np.random.default_rng()"),
    'C14.R5', 'validate() default data drawn from an unseeded generator')
add('C14.twin_rename', 'C14', (QZ, "    calib = calibrator.Calibrator(self.float_model)\n    if previous_calibration_result is not None:\n      calib.load_model_qsvs(previous_calibration_result)\n    calib.calibrate(calibration_data, self._recipe_manager, signature_key)\n    return calib.get_model_qsvs()",
    "    model_calibrator = calibrator.Calibrator(self.float_model)\n    if previous_calibration_result is not None:\n      model_calibrator.load_model_qsvs(previous_calibration_result)\n    model_calibrator.calibrate(calibration_data, self._recipe_manager, signature_key)\n    return model_calibrator.get_model_qsvs()"),
    (), 'rename the per-call Calibrator local', kind='twin')
add('C14.result_history', 'C14', (QZ, "    quant_params = self._get_quantization_params(calibration_result)\n",
    "    if self._result.quantized_model is not None and calibration_result is None:\n      return self._result\n    quant_params = self._get_quantization_params(calibration_result)\n"),
    'C14.R3', 'quantize() short-circuits on the previous result (stale after a recipe update)')

# ---------------------------------------------------------------------- C03
MMU = 'algorithms/utils/min_max_quantize_utils.py'
NMM = 'algorithms/uniform_quantize/naive_min_max_quantize.py'
TIG = 'transformation_instruction_generator.py'
QTS = 'transformations/quantize_tensor.py'
FCS = 'algorithms/nonlinear_quantize/float_casting.py'
TU = 'transformations/transformation_utils.py'
DQI = 'transformations/dequant_insert.py'
QI = 'transformations/quant_insert.py'
add('C03.weight_only_arm', 'C03', (MMU,
    "      transformations = [_QuantTransformation.ADD_DEQUANTIZE]\n    else:\n      transformations = [_QuantTransformation.NO_QUANTIZE]\n  else:\n    raise ValueError(",
    "      transformations = [_QuantTransformation.QUANTIZE_TENSOR]\n    else:\n      transformations = [_QuantTransformation.NO_QUANTIZE]\n  else:\n    raise ValueError("),
    'C03.R1', 'weight-only constants quantized in place without a DEQUANTIZE', control=True)
add('C03.drq_outbound', 'C03', (MMU, "    if is_inbounding_tensor and is_constant:\n      transformations = [_QuantTransformation.QUANTIZE_TENSOR]\n    else:\n      transformations = [_QuantTransformation.NO_QUANTIZE]\n  elif (\n      op_quant_config.weight_tensor_config is not None",
    "    if is_constant:\n      transformations = [_QuantTransformation.QUANTIZE_TENSOR]\n    else:\n      transformations = [_QuantTransformation.NO_QUANTIZE]\n  elif (\n      op_quant_config.weight_tensor_config is not None"),
    'C03.R1', 'dynamic-range arm also quantizes constant outputs')
add('C03.requant_params', 'C03', (TIG,
    """                trans_rule.consumers,
                producer_trans_rule.parameters,
            )
        )
        transformations.append(
            qtyping.TransformationInst(
                qtyping.QuantTransformation.ADD_QUANTIZE,""",
    """                trans_rule.consumers,
                trans_rule.parameters,
            )
        )
        transformations.append(
            qtyping.TransformationInst(
                qtyping.QuantTransformation.ADD_QUANTIZE,"""),
    'C03.R4', 'requantize branch annotates the source tensor with the consumer parameters', control=True)
add('C03.filter_code', 'C03', (MMU, "  fp32_type_code = 0  # See schema_py_generated.py for type code.", "  fp32_type_code = 1  # See schema_py_generated.py for type code."),
    'C03.R2', 'dtype filter keeps FLOAT16 instead of FLOAT32')
add('C03.reshape_shape', 'C03', (NMM, "      constraint=_OpQuantConstraint.SAME_AS_INPUT_SCALE,\n      inputs_to_ignore=[1],  # Shape tensor does not need to be quantized.\n",
    "      constraint=_OpQuantConstraint.SAME_AS_INPUT_SCALE,\n"), 'C03.R2', 'reshape no longer excludes its shape operand explicitly')
add('C03.unknown_skip', 'C03', ('params_generator.py',
    """            op_quant_results = self._get_params_for_no_quant_op(
                subgraph_op_id, op, subgraph.tensors
            )
            self._update_model_quant_results(op_quant_results)
            continue""", "            continue"),
    'C03.R3', 'unknown ops skipped without filing NO_QUANTIZE for their tensors')
add('C03.ladder', 'C03', (QTS, "  if bitwidth <= 4:\n    return schema_py_generated.TensorType.INT4", "  if bitwidth < 4:\n    return schema_py_generated.TensorType.INT4"),
    'C03.R5', '4-bit parameters annotated INT8 while bytes stay nibble-packed')
add('C03.allclose', 'C03', ('qtyping.py', "        and np.array_equal(self.scale, other.scale)", "        and np.allclose(self.scale, other.scale)"),
    'C03.R8', 'tolerant scale comparison in UniformQuantParams.__eq__')
add('C03.eq_skip_field', 'C03', ('qtyping.py', "        and np.array_equal(self.zero_point, other.zero_point)\n        and self.symmetric == other.symmetric", "        and self.symmetric == other.symmetric"),
    'C03.R8', 'zero point left out of UniformQuantParams.__eq__')
_REWIRE_OLD_D = """    for input_idx in range(len(op.inputs)):
      if op.inputs[input_idx] == transformation_input.tensor_id:
        op.inputs[input_idx] = new_tensor_id
"""
_REWIRE_NEW_D = """    for input_idx in range(len(op.inputs)):
      if op.inputs[input_idx] == transformation_input.tensor_id:
        op.inputs[input_idx] = new_tensor_id
        break
"""
_DEDUPE = [('params_generator.py',
    """            tensor_params.consumers = copy.deepcopy(op_tensor_result.consumers)
          else:
            tensor_params.consumers += copy.deepcopy(op_tensor_result.consumers)
""",
    """            tensor_params.consumers = []
          for consumer in op_tensor_result.consumers:
            if consumer not in tensor_params.consumers:
              tensor_params.consumers.append(copy.deepcopy(consumer))
""")]
add('C03.break_and_dedupe', 'C03', [(DQI, _REWIRE_OLD_D, _REWIRE_NEW_D)] + _DEDUPE, 'C03.R9',
    'rewiring stops at the first operand AND consumer entries are de-duplicated (two cooperating sites)')
add('C03.break_only', 'C03', (DQI, _REWIRE_OLD_D, _REWIRE_NEW_D), (), 'break alone is harmless: consumer lists carry one entry per operand occurrence', kind='twin')
add('C03.dedupe_only', 'C03', _DEDUPE, (), 'de-duplication alone is harmless: each pass rewires all occurrences', kind='twin')
add('C03.bias_const', 'C03', (NMM, """    is_constant = (
        # Check if SRQ.
        op_info.op_quant_config.compute_precision == _ComputePrecision.INTEGER
        and op_info.op_quant_config.activation_tensor_config is not None
    )""", """    is_constant = (
        op_info.op_quant_config.compute_precision == _ComputePrecision.INTEGER
    )"""), 'C03.R6', 'bias treated as a quantizable constant under dynamic-range quantization too')
add('C03.weight_ops', 'C03', (MMU, "  if is_constant and op_info.op_name in frozenset.union(\n      _SUPPORTED_WEIGHT_ONLY_OPS, _SUPPORTED_DRQ_OPS\n  ):",
    "  if is_constant and op_info.op_name in _SUPPORTED_SUBCHANNEL_OPS:"), 'C03.R6', 'only FULLY_CONNECTED constants get the weight config')
add('C03.fcast_index', 'C03', (FCS, "          input_index=2,\n          weight_index=1,\n          bias_index=3,", "          input_index=1,\n          weight_index=2,\n          bias_index=3,"),
    'C03.R7', 'float-casting transpose-conv casts the activation operand instead of the weight')
add('C03.twin_table_refactor', 'C03', (MMU, "    if is_inbounding_tensor:\n      transformations = [_QuantTransformation.ADD_QUANTIZE]\n      if is_constant:\n        # Quantize the constant tensor directly to simplify downstream\n        # optimizations.\n        transformations = [_QuantTransformation.QUANTIZE_TENSOR]\n    else:",
    "    if is_inbounding_tensor and is_constant:\n      transformations = [_QuantTransformation.QUANTIZE_TENSOR]\n    elif is_inbounding_tensor:\n      transformations = [_QuantTransformation.ADD_QUANTIZE]\n    else:"),
    (), 'equivalent restructuring of the SRQ arm', kind='twin')

# ---------------------------------------------------------------------- C17
UQT = 'algorithms/uniform_quantize/uniform_quantize_tensor.py'
add('C17.f8', 'C17', (UQT, "      tensor_data.astype(np.float64) - quantization_params.zero_point,", "      tensor_data - quantization_params.zero_point,"),
    'C17.R5', 'defect F8 returns: zero point subtracted in int8', control=True)
add('C17.sym_clamp', 'C17', (UQT, "    bound = np.maximum(np.abs(min_value), np.abs(max_value))\n    bound = np.maximum(bound, min_bound)\n", "    bound = np.maximum(np.abs(min_value), np.abs(max_value))\n"),
    'C17.R2', 'symmetric lower clamp removed: zero scale for an all-zero tensor', control=True)
add('C17.zero_not_forced', 'C17', (UQT, "    bound_max = np.maximum(max_value, np.zeros_like(max_value))", "    bound_max = max_value"),
    'C17.R2', 'zero no longer forced into the asymmetric range (all-negative tensors)')
add('C17.cast_before_clip', 'C17', (UQT, "  ret = np.multiply(tensor_data, inverse_scales) + zero_points\n  ret = _round_and_clip(ret, qtype, narrow_range)\n  ret = assign_quantized_type(ret, qtype)\n  return ret\n\n\ndef uniform_dequantize(",
    "  ret = np.multiply(tensor_data, inverse_scales) + zero_points\n  ret = assign_quantized_type(np.rint(ret), qtype)\n  ret = _round_and_clip(ret, qtype, narrow_range)\n  return ret\n\n\ndef uniform_dequantize("),
    ('C17.R1', 'C17.R7'), 'cast before clip: out-of-range values wrap')
add('C17.narrow_off_by_one', 'C17', (UQT, "          qmin + 1,\n          qmax,", "          qmin + 1,\n          qmax - 1,"), 'C17.R7', 'narrow range clips the top code too')
add('C17.narrow_always_false', 'C17', (UQT, "  narrow_range = quantization_params.symmetric\n  required_dtype = np.signedinteger if qtype.signed else np.unsignedinteger\n  if not np.issubdtype(zero_points.dtype, required_dtype):\n    raise ValueError(\n        f\"zero_points need to be {required_dtype}.\"\n        f\" But the actual type is {zero_points.dtype}.\"\n    )\n  ret = np.multiply(tensor_data, inverse_scales) + zero_points",
    "  narrow_range = False\n  required_dtype = np.signedinteger if qtype.signed else np.unsignedinteger\n  if not np.issubdtype(zero_points.dtype, required_dtype):\n    raise ValueError(\n        f\"zero_points need to be {required_dtype}.\"\n        f\" But the actual type is {zero_points.dtype}.\"\n    )\n  ret = np.multiply(tensor_data, inverse_scales) + zero_points"),
    'C17.R7', 'symmetric quantization uses the full range (-128 appears)')
add('C17.bias_32', 'C17', (UQT, "  bias_number_bits = 64 if input_tensor_quant_params.num_bits == 16 else 32", "  bias_number_bits = 32"), 'C17.R8', 'bias always 32 bit')
add('C17.bias_scale', 'C17', (UQT, "  effective_output_scale = np.squeeze(input_tensor_scale * weight_tensor_scale)", "  effective_output_scale = np.squeeze(weight_tensor_scale)"),
    'C17.R8', 'bias scale ignores the input scale')
add('C17.skip_rank_fix', 'C17', (UQT, "  quantization_params = fix_quantization_params_rank(\n      tensor_data, quantization_params\n  )\n  _is_valid_quantization_params(tensor_data, quantization_params)\n  scales, zero_points = (",
    "  if tensor_data.ndim > 1:\n    quantization_params = fix_quantization_params_rank(\n        tensor_data, quantization_params\n    )\n  _is_valid_quantization_params(tensor_data, quantization_params)\n  scales, zero_points = ("),
    'C17.R6', 'rank fix-up skipped for 1-D tensors')
add('C17.expand_wrong_axes', 'C17', (UQT, "        if dim != quantization_params.quantized_dimension\n    ]", "        if dim != 0\n    ]"), 'C17.R9', 'scale expanded as if the quantized dimension were always 0')
add('C17.qmax_scale', 'C17', (UQT, "      scale = bound / qmax\n", "      scale = bound / (qmax + 1)\n"), 'C17.R2', 'symmetric scale divides by 2^(b-1) instead of qmax')
add('C17.twin_divide', 'C17', (UQT, "  inverse_scales = 1.0 / scales\n  # TODO: b/332574603 - support unsigned data type.\n  qtype = IntType(quantization_params.num_bits, signed=True)\n  # Symmetric means narrow range (e.g., -127 to 127)\n  narrow_range = quantization_params.symmetric\n  required_dtype = np.signedinteger if qtype.signed else np.unsignedinteger\n  if not np.issubdtype(zero_points.dtype, required_dtype):\n    raise ValueError(\n        f\"zero_points need to be {required_dtype}.\"\n        f\" But the actual type is {zero_points.dtype}.\"\n    )\n  ret = np.multiply(tensor_data, inverse_scales) + zero_points",
    "  # TODO: b/332574603 - support unsigned data type.\n  qtype = IntType(quantization_params.num_bits, signed=True)\n  # Symmetric means narrow range (e.g., -127 to 127)\n  narrow_range = quantization_params.symmetric\n  required_dtype = np.signedinteger if qtype.signed else np.unsignedinteger\n  if not np.issubdtype(zero_points.dtype, required_dtype):\n    raise ValueError(\n        f\"zero_points need to be {required_dtype}.\"\n        f\" But the actual type is {zero_points.dtype}.\"\n    )\n  ret = np.divide(tensor_data, scales) + zero_points"),
    (), 'divide by the scale instead of multiplying by its inverse (same rational function)', kind='twin')
add('C17.twin_widen_int64', 'C17', (UQT, "tensor_data.astype(np.float64) - quantization_params.zero_point", "tensor_data.astype(np.int64) - quantization_params.zero_point"),
    (), 'widen to int64 instead of float64', kind='twin')

# ---------------------------------------------------------------------- C11
add('C11.break_first', 'C11', (RM, "          result_config = selected_recipe.op_config\n          result_key = selected_recipe.algorithm_key\n",
    "          result_config = selected_recipe.op_config\n          result_key = selected_recipe.algorithm_key\n          break\n"),
    'C11.R3', 'first applicable rule of a scope wins', control=True)
add('C11.re_match', 'C11', (RM, "      if re.search(scope_regex, scope_name):", "      if re.match(scope_regex, scope_name):"), 'C11.R3', 're.match anchors the regex at the start of the scope')
add('C11.re_swapped', 'C11', (RM, "      if re.search(scope_regex, scope_name):", "      if re.search(scope_name, scope_regex):"), 'C11.R3', 'regex and scope swapped')
add('C11.except_narrow', 'C11', (RM, "            except ValueError:\n              continue  # Skip the recipe if it is not supported.", "            except KeyError:\n              continue  # Skip the recipe if it is not supported."),
    ('C11.R4', 'C11.R3'), 'resolve-time check no longer swallows ValueError')
add('C11.check_rule_op', 'C11', (RM, "                  recipe.algorithm_key, target_op_name, recipe.op_config", "                  recipe.algorithm_key, recipe.operation, recipe.op_config"),
    ('C11.R4', 'C11.R3'), 'support check asked about the rule operator ("*") instead of the target')
add('C11.remove_append', 'C11', (RM, "        else:\n          op_config = existing_config\n        configs.append(op_config)\n      if is_new_op:\n        configs.append(config)",
    "        else:\n          configs.append(existing_config)\n      configs.append(config)"), 'C11.R5', 'replacing a rule moves it to the end of its scope')
add('C11.star_appends', 'C11', (RM, "    if config.operation == _TFLOpName.ALL_SUPPORTED:\n      self._scope_configs[regex] = [config]\n      return",
    "    if config.operation == _TFLOpName.ALL_SUPPORTED:\n      self._scope_configs.setdefault(regex, []).append(config)\n      return"), 'C11.R5', '"*" no longer resets the rules of its scope')
add('C11.readd_moves_scope', 'C11', (RM, "    if regex not in self._scope_configs:\n      self._scope_configs[regex] = [config]\n    else:",
    "    if regex not in self._scope_configs:\n      self._scope_configs[regex] = [config]\n    elif len(self._scope_configs[regex]) == 1 and self._scope_configs[regex][0].operation == config.operation:\n      del self._scope_configs[regex]\n      self._scope_configs[regex] = [config]\n    else:"),
    'C11.R5', 'replacing the only rule of a scope moves the scope to the end of the scan order')
_ADD_OLD = """    if regex not in self._scope_configs:
      self._scope_configs[regex] = [config]
    else:
      # Reiterate configs to avoid duplication on op settings.
      configs = []
      is_new_op = True
      for existing_config in self._scope_configs[regex]:
        if existing_config.operation == config.operation:
          is_new_op = False
          op_config = config
          logging.warning(
              'Overwrite operation %s config under scope_regex %s with %s.',
              existing_config.operation,
              regex,
              config,
          )
        else:
          op_config = existing_config
        configs.append(op_config)
      if is_new_op:
        configs.append(config)
      self._scope_configs[regex] = configs
"""
_ADD_REFACTORED = """    scope_recipes = self._scope_configs.setdefault(regex, [])
    for i, existing_config in enumerate(scope_recipes):
      if existing_config.operation == config.operation:
        scope_recipes[i] = config
        return
    scope_recipes.append(config)
"""
add('C11.twin_refactor', 'C11', (RM, _ADD_OLD, _ADD_REFACTORED), (), 'in-place replace refactor with the scope list fetched AFTER the support check', kind='twin')
add('C11.setdefault_early', 'C11', [(RM, _ADD_OLD, _ADD_REFACTORED.replace("    scope_recipes = self._scope_configs.setdefault(regex, [])\n", "")),
    (RM, "    # Special care if trying to set all ops to some config.\n", "    scope_recipes = self._scope_configs.setdefault(regex, [])\n    # Special care if trying to set all ops to some config.\n")],
    ('C11.R4', 'C11.R5'), 'scope entry created before the support check: a refused add reserves the scope position (seeded a2-C11)')
add('C11.resolution_caches', 'C11', (RM, "    return result_key, result_config\n", "    self._last_resolution = (target_op_name, scope_name, result_key)\n    return result_key, result_config\n"),
    'C11.R1', 'resolution writes object state')

# ---------------------------------------------------------------------- C10
add('C10.f2', 'C10', (CAL, "        scope += \";\"  # Split names, same as ParamsGenerator._get_op_scope.\n", ""), 'C10.R1', 'defect F2 returns: calibration scope lacks the separator', control=True)
add('C10.pg_sep', 'C10', ('params_generator.py', "        scope += ';'  # Split names.", "        scope += ','  # Split names."), 'C10.R1', 'quantization scope uses another separator')
add('C10.scope_skip_guard', 'C10', (CAL, "      if output_tensor_idx != -1:\n        output_tensor = subgraph_tensors[output_tensor_idx]", "      if output_tensor_idx > 0:\n        output_tensor = subgraph_tensors[output_tensor_idx]"),
    'C10.R1', 'calibration scope skips tensor 0')
add('C10.f3', 'C10', (CAL, "              self._tfl_interpreter, subgraph_index\n          )\n      )", "              self._tfl_interpreter\n          )\n      )"), 'C10.R3', 'defect F3 returns: tensor contents read from subgraph 0', control=True)
add('C10.f3_walk_all', 'C10', (CAL, "      subgraph = self._flatbuffer_model.subgraphs[subgraph_index]\n", "      subgraph = self._flatbuffer_model.subgraphs[0]\n"), 'C10.R3', 'operators of subgraph 0 walked whatever the signature')
add('C10.f10', 'C10', ('params_generator.py', "    if model_recipe_manager.need_calibration() and model_qsvs is None:", "    if model_recipe_manager.need_calibration() and not model_qsvs:"),
    'C10.R5', 'defect F10 returns: an empty calibration result is treated as missing', control=True)
add('C10.io_in_init', 'C10', [(CAL, "      # Add input/output operators to the subgraph.\n      subgraph.operators += (\n          tfl_flatbuffer_utils.get_subgraph_input_output_operators(subgraph)\n      )\n      for op in subgraph.operators:\n        if isinstance(op, qtyping.IOOperator):",
    "      for op in subgraph.operators:\n        if isinstance(op, qtyping.IOOperator):"),
    (CAL, "        for tensor_name, qsv in op_qsvs.items():\n          if tensor_name not in self._model_qsvs:\n            self._model_qsvs[tensor_name] = qsv\n",
     "        for tensor_name, qsv in op_qsvs.items():\n          if tensor_name not in self._model_qsvs:\n            self._model_qsvs[tensor_name] = qsv\n      subgraph.operators += (\n          tfl_flatbuffer_utils.get_subgraph_input_output_operators(subgraph)\n      )\n")],
    'C10.R2', 'virtual IO operators attached only when QSVs are initialised (skipped on resume) (seeded a1-C09 / a2-C10)', allow_error=True)
add('C10.need_calib', 'C10', (RM, "          == qtyping.ComputePrecision.INTEGER\n          and 'activation_tensor_config' in op_quant_config['op_config']", "          == qtyping.ComputePrecision.INTEGER"),
    'C10.R4', 'need_calibration() also true for dynamic-range recipes')
add('C10.init_extra_skip', 'C10', (CAL, "        op_key = tfl_flatbuffer_utils.TFL_OP_CODE_TO_NAME[op_code]\n        # Step1: query",
    "        op_key = tfl_flatbuffer_utils.TFL_OP_CODE_TO_NAME[op_code]\n        if op_key == qtyping.TFLOperationName.BATCH_MATMUL:\n          continue\n        # Step1: query"),
    'C10.R2', 'one selection loop skips an operator kind the others do not')

# ---------------------------------------------------------------------- C09
CU = 'utils/calibration_utils.py'
add('C09.load_nocopy', 'C09', (CAL, "    self._model_qsvs = copy.deepcopy(model_qsvs)", "    self._model_qsvs = model_qsvs"), 'C09.R1', 'previous result kept by reference', control=True)
add('C09.smoothing', 'C09', (CU, "smoothing_factor: float = 0.95", "smoothing_factor: float = 0.9"), 'C09.R2', 'EMA weight 0.9', control=True)
add('C09.fold_plus', 'C09', (CU, "  return smoothing_factor * w + (1.0 - smoothing_factor) * update", "  return smoothing_factor * w + (1.0 + smoothing_factor) * update"), 'C09.R2', '(1 + s) in the fold')
add('C09.fold_swapped', 'C09', (CU, "  updated_qsv[\"min\"] = _update_moving_average(\n      smoothing_factor, qsv[\"min\"], new_qsv[\"min\"]\n  )", "  updated_qsv[\"min\"] = _update_moving_average(\n      smoothing_factor, new_qsv[\"min\"], qsv[\"min\"]\n  )"),
    'C09.R2', 'old and new swapped for the min statistic')
add('C09.hoist_set', 'C09', [(CAL, "    for data in calibration_dataset:\n      # Initialize tensor names that are updated in this round of calibration.\n      updated_tensor_names = set()\n",
    "    updated_tensor_names = set()\n    for data in calibration_dataset:\n")], 'C09.R3', 'de-duplication set hoisted out of the sample loop: only the first sample counts')
add('C09.min_is_max', 'C09', ('algorithms/uniform_quantize/naive_min_max_quantize.py', "        \"min\": np.min(tensor_content, axis=None, keepdims=True),", "        \"min\": np.max(tensor_content, axis=None, keepdims=True),"),
    'C09.R4', 'runtime min recorded with np.max')
add('C09.update_in_place', 'C09', (CU, "  updated_qsv = {}\n  updated_qsv[\"min\"] = _update_moving_average(", "  updated_qsv = qsv\n  updated_qsv[\"min\"] = _update_moving_average("),
    'C09.R6', 'moving_average_update overwrites the old statistic object in place')
add('C09.no_preserve', 'C09', ('utils/tfl_interpreter_utils.py', "      experimental_preserve_all_tensors=True,\n", ""), 'C09.R7', 'interpreter no longer preserves intermediate tensors')
add('C09.io_in_init', 'C09', [(CAL, "      # Add input/output operators to the subgraph.\n      subgraph.operators += (\n          tfl_flatbuffer_utils.get_subgraph_input_output_operators(subgraph)\n      )\n      for op in subgraph.operators:\n        if isinstance(op, qtyping.IOOperator):",
    "      for op in subgraph.operators:\n        if isinstance(op, qtyping.IOOperator):"),
    (CAL, "        for tensor_name, qsv in op_qsvs.items():\n          if tensor_name not in self._model_qsvs:\n            self._model_qsvs[tensor_name] = qsv\n",
     "        for tensor_name, qsv in op_qsvs.items():\n          if tensor_name not in self._model_qsvs:\n            self._model_qsvs[tensor_name] = qsv\n      subgraph.operators += (\n          tfl_flatbuffer_utils.get_subgraph_input_output_operators(subgraph)\n      )\n")],
    'C09.R8', 'virtual IO operators attached only on the not-resumed path (seeded a1-C09)', allow_error=True)
add('C09.sorted_data', 'C09', (CAL, "    for data in calibration_dataset:", "    for data in reversed(list(calibration_dataset)):"), 'C09.R3', 'dataset folded in reverse order')
add('C09.twin_fold', 'C09', (CU, "  return smoothing_factor * w + (1.0 - smoothing_factor) * update", "  return update + smoothing_factor * (w - update)"), (), 'algebraically identical fold', kind='twin')

# ---------------------------------------------------------------------- C13
DP = 'default_policy.py'
AM = 'algorithm_manager.py'
AMA = 'algorithm_manager_api.py'
add('C13.policy_int_only', 'C13', (NMM, "  if op_quant_config.compute_precision in [\n      _ComputePrecision.INTEGER,\n      _ComputePrecision.FLOAT,\n  ]:", "  if op_quant_config.compute_precision in [\n      _ComputePrecision.INTEGER,\n  ]:"),
    'C13.R1', 'policy consulted only for INTEGER compute: every FLOAT config is accepted', control=True)
add('C13.alias_unroll', 'C13', (DP, "      quant_configs = copy.deepcopy(unrolled_configs)\n      if op in policy.keys():\n        quant_configs += policy[op_name]\n      policy[op_name] = quant_configs",
    "      quant_configs = unrolled_configs\n      if op in policy.keys():\n        quant_configs += policy[op_name]\n      policy[op_name] = copy.deepcopy(quant_configs)"),
    'C13.R1', 'aliasing in update_default_config_policy: ops inherit the configs of ops listed before them (seeded a2-C13)')
add('C13.softmax_drq', 'C13', (DP, '    "dynamic_wi4_afp32": ["FULLY_CONNECTED", "EMBEDDING_LOOKUP"],', '    "dynamic_wi4_afp32": ["FULLY_CONNECTED", "EMBEDDING_LOOKUP", "SOFTMAX"],'),
    'C13.R1', 'policy lists a dynamic-range config for an op that has no weight handling')
add('C13.weightonly_no_dequant', 'C13', (DP, '      "explicit_dequantize": true,\n      "compute_precision": "FLOAT"\n    },\n    "weightonly_wi4_afp32"', '      "explicit_dequantize": false,\n      "compute_precision": "FLOAT"\n    },\n    "weightonly_wi4_afp32"'),
    'C13.R1', 'policy accepts FLOAT compute without explicit dequantize: accepted, then the mode table raises')
add('C13.skip_ignored', 'C13', (AMA, "    if op_quantization_config.skip_checks:\n      return\n", ""), 'C13.R2', 'skip_checks no longer bypasses the checks')
add('C13.unregistered_ok', 'C13', (AMA, "    if not self.is_op_registered(quantization_algorithm, tfl_op_name):\n      raise ValueError(\n          f\"Unsupported operation {tfl_op_name} for Algorithm:\"\n          f\" {quantization_algorithm}.\"\n      )\n    if quantization_algorithm not in self._config_check_registry:",
    "    if not self.is_op_registered(quantization_algorithm, tfl_op_name):\n      return\n    if quantization_algorithm not in self._config_check_registry:"),
    ('C13.R2', 'C13.R1'), 'unregistered operators are accepted')
add('C13.fcast_bits', 'C13', (FCS, "      op_quant_config.weight_tensor_config.num_bits != 16\n      or op_quant_config.weight_tensor_config.dtype\n      != qtyping.TensorDataType.FLOAT", "      op_quant_config.weight_tensor_config.dtype\n      != qtyping.TensorDataType.FLOAT"),
    'C13.R1', 'float casting accepts 4- and 8-bit float weights')
add('C13.zip_len', 'C13', (AM, "        _TFLOpName.EMBEDDING_LOOKUP,\n    ),\n    (\n        float_casting.materialize_fc_conv,", "        _TFLOpName.EMBEDDING_LOOKUP,\n        _TFLOpName.BATCH_MATMUL,\n    ),\n    (\n        float_casting.materialize_fc_conv,"),
    ('C13.R4',), 'registration tuples of different length (zip drops the last op silently)')
add('C13.fcast_set', 'C13', (FCS, "    _TFLOpName.EMBEDDING_LOOKUP,\n])", "    _TFLOpName.EMBEDDING_LOOKUP,\n    _TFLOpName.BATCH_MATMUL,\n])"), ('C13.R4', 'C13.R1'), 'float casting check accepts an op with no registered materialiser')
add('C13.twin_policy_order', 'C13', (DP, '    "static_wi4_ai8": ["FULLY_CONNECTED", "CONV_2D", "INPUT", "OUTPUT"],', '    "static_wi4_ai8": ["CONV_2D", "FULLY_CONNECTED", "OUTPUT", "INPUT"],'),
    (), 'reordering op names inside a policy entry', kind='twin')

# ---------------------------------------------------------------------- C08
add('C08.extra_key', 'C08', ('recipes/default_a16w8_recipe.json', '"skip_checks": false', '"skip_checks": false,\n      "execution_mode": "SRQ"'), 'C08.R1', 'default recipe gains an unknown key', control=True)
add('C08.bad_enum', 'C08', ('recipes/default_af32w8float_recipe.json', '"granularity": "CHANNELWISE"', '"granularity": "PER_CHANNEL"'), ('C08.R1', 'C08.R3'), 'default recipe uses a non-existent granularity name')
add('C08.except_narrow', 'C08', (RM, "            except ValueError:\n              continue  # Skip the recipe if it is not supported.", "            except KeyError:\n              continue  # Skip the recipe if it is not supported."),
    ('C08.R2', 'C08.R3'), '"*" rule leaks ValueError for an unsupported (op, config) cell')
add('C08.a16_softmax', 'C08', (NMM, "      16: qtyping.UniformQuantParams(\n          num_bits=16,\n          quantized_dimension=None,\n          scale=np.array(1.0 / 32768),\n          zero_point=np.array(0),\n      ),\n", ""),
    'C08.R3', 'softmax/logistic lose their 16-bit fixed range: default_a16w8 raises on such graphs')
add('C08.skip_vertical', 'C08', (TIG, "    last_producer_rule_idx = len(transformations) - 1\n    if last_producer_rule_idx >= 0:", "    if transformations and transformations_available_for_vertical_optimization:"),
    'C08.R5', 'vertical optimiser skipped when there is no consumer rule (seeded a2-C08)', control=True)
add('C08.keep_empty_producer', 'C08', (TIG, "    if producer_trans_rule.consumers:\n      transformations.insert(0, producer_trans_rule)", "    transformations.insert(0, producer_trans_rule)"),
    'C08.R5', 'producer rule kept even when every consumer was taken over')
add('C08.qdim_missing', 'C08', ('utils/tfl_flatbuffer_utils.py', "    _TFLOpName.CONV_2D_TRANSPOSE: 0,\n})", "})"), 'C08.R3', 'per-channel dimension of transpose-conv removed: KeyError under the channelwise default recipes')
add('C08.twin_guard', 'C08', (TIG, "    last_producer_rule_idx = len(transformations) - 1\n    if last_producer_rule_idx >= 0:", "    if transformations:"), (), 'truthiness test of the producer list instead of the index arithmetic', kind='twin')

# ---------------------------------------------------------------------- C15
FBU = 'utils/tfl_flatbuffer_utils.py'
add('C15.no_check', 'C15', (PG, "    self._check_buffer_sharing()\n", "    pass\n"), 'C15.R1', '_post_process_results no longer checks buffer sharing', control=True)
add('C15.check_conditional', 'C15', (PG, "    self._post_process_results()\n    return self.model_quant_results", "    if model_qsvs:\n      self._post_process_results()\n    return self.model_quant_results"),
    'C15.R1', 'sharing check only when statistics were supplied (weight-only recipes bypass it)')
add('C15.dedupe_tensor', 'C15', (FBU, "        if tensor.buffer not in buffer_to_tensor_map:\n          buffer_to_tensor_map[tensor.buffer] = []\n        buffer_to_tensor_map[tensor.buffer].append(tensor)",
    "        tensors = buffer_to_tensor_map.setdefault(tensor.buffer, [])\n        if not any(tensor is listed for listed in tensors):\n          tensors.append(tensor)"),
    'C15.R2', 'each tensor listed once per buffer (seeded a1-C01)', control=True)
add('C15.skip_pairs', 'C15', (PG, "      if len(tensors) <= 1:\n        continue", "      if len(tensors) <= 2:\n        continue"), 'C15.R1', 'groups of two sharers are skipped')
add('C15.tail_from_2', 'C15', (PG, "      for tensor in tensors[1:]:", "      for tensor in tensors[2:]:"), 'C15.R1', 'second sharer never compared')
add('C15.addq_quantized', 'C15', (PG, "  float_source_transformations = [\n      _QuantTrans.ADD_QUANTIZE,\n      _QuantTrans.NO_QUANTIZE,\n  ]\n  quantized_source_transformations = [\n      _QuantTrans.QUANTIZE_TENSOR,\n      _QuantTrans.ADD_DEQUANTIZE,\n  ]",
    "  float_source_transformations = [\n      _QuantTrans.NO_QUANTIZE,\n  ]\n  quantized_source_transformations = [\n      _QuantTrans.QUANTIZE_TENSOR,\n      _QuantTrans.ADD_DEQUANTIZE,\n      _QuantTrans.ADD_QUANTIZE,\n  ]"),
    ('C15.R4', 'C15.R5'), 'ADD_QUANTIZE filed as a quantized-source transformation')
add('C15.params_ignored', 'C15', (PG, "    if params1.parameters != params2.parameters:\n      return False\n", "    pass\n"), 'C15.R5', 'sharers with different parameters declared compatible')
add('C15.reads_buffer', 'C15', (QTS, "              cast(\n                  np.ndarray, transformation_input.quant_params.quantized_data\n              ).tobytes(),", "              cast(\n                  np.ndarray, transformation_input.buffers[tensor.buffer].data\n              ).tobytes(),"),
    'C15.R3', 'new bytes derived from the buffer being overwritten')
add('C15.buffer0', 'C15', (QTS, "  if tensor.buffer:\n    if transformation_input.quant_params.quantized_data is not None:", "  if tensor.buffer is not None:\n    if transformation_input.quant_params.quantized_data is not None:"),
    (), 'buffer 0 could be written - but only a tensor WITH quantized data reaches that line, and a constant never lives in buffer 0: harmless', kind='twin')
add('C15.valid_check', 'C15', (TIG, "          transform_type == qtyping.QuantTransformation.QUANTIZE_TENSOR\n          or transform_type == qtyping.QuantTransformation.ADD_DEQUANTIZE", "          transform_type == qtyping.QuantTransformation.QUANTIZE_TENSOR"),
    'C15.R4', 'ADD_DEQUANTIZE no longer counts as quantizing the tensor in the validity check')
add('C15.twin_setdefault', 'C15', (FBU, "        if tensor.buffer not in buffer_to_tensor_map:\n          buffer_to_tensor_map[tensor.buffer] = []\n        buffer_to_tensor_map[tensor.buffer].append(tensor)",
    "        buffer_to_tensor_map.setdefault(tensor.buffer, []).append(tensor)"), (), 'setdefault idiom, every occurrence still listed', kind='twin')

# ---------------------------------------------------------------------- C16
MMF = 'model_modifier.py'
add('C16.zero_placeholder', 'C16', (MMF, "        buffer.offset = 1\n        buffer.size = 1", "        buffer.offset = 0\n        buffer.size = 0"), 'C16.R3', 'placeholder offset/size 0: flatbuffer table grows between the passes', control=True)
add('C16.pad8', 'C16', (MMF, "      dummy_bytearray += buffer_data\n      while len(dummy_bytearray) % 16:", "      dummy_bytearray += buffer_data\n      while len(dummy_bytearray) % 8:"), ('C16.R1', 'C16.R2'), 'pass 1 pads constants to 8 bytes')
add('C16.no_pad_pass2', 'C16', (MMF, "      model_bytearray += buffer_data\n      while len(model_bytearray) % 16:\n        model_bytearray += b'\\0'\n", "      model_bytearray += buffer_data\n"), 'C16.R2', 'padding dropped in the emitting pass only')
add('C16.no_initial_pad', 'C16', (MMF, "    # calculate the correct buffer size and offset\n    while len(dummy_bytearray) % 16:\n      dummy_bytearray += b'\\0'\n", "    # calculate the correct buffer size and offset\n"),
    ('C16.R1', 'C16.R2'), 'first constant placed right after the unpadded flatbuffer', control=True)
add('C16.elif_no_append', 'C16', (MMF, "      elif isinstance(buffer.data, np.ndarray):\n        self._constant_map.append(buffer.data.tobytes())\n        buffer_size += len(buffer.data.tobytes())",
    "      elif isinstance(buffer.data, np.ndarray):\n        if buffer.data.size:\n          self._constant_map.append(buffer.data.tobytes())\n        buffer_size += len(buffer.data.tobytes())"),
    'C16.R4', 'empty ndarray buffers get no constant-map entry: later indices shift')
add('C16.size_of_other', 'C16', (MMF, "      buffer.size = len(buffer_data)\n", "      buffer.size = len(dummy_bytearray)\n"), 'C16.R1', 'size recorded is not the length of the appended constant')
add('C16.threshold', 'C16', (MMF, "    if constant_buffer_size > 2**31 - 2**20:", "    if constant_buffer_size > 2**32 - 2**20:"), 'C16.R5', 'threshold above the flatbuffer limit')
add('C16.skip_small', 'C16', (MMF, "    for buffer_idx, _ in enumerate(quantized_model.buffers):\n      buffer_data = self._constant_map[buffer_idx]\n      if buffer_data is None or len(buffer_data) == 0:\n        continue",
    "    for buffer_idx, _ in enumerate(quantized_model.buffers):\n      buffer_data = self._constant_map[buffer_idx]\n      if buffer_data is None or len(buffer_data) < 3:\n        continue"), ('C16.R2', 'C16.R6'), 'emitting pass skips small constants that the first pass counted')
add('C16.cached_modifier', 'C16', [(QZ, "    self._result: QuantizationResult = QuantizationResult([{}], None)", "    self._model_modifier = model_modifier.ModelModifier(self.float_model)\n    self._result: QuantizationResult = QuantizationResult([{}], None)"),
    (QZ, "    model_modifier_instance = model_modifier.ModelModifier(self.float_model)\n    return model_modifier_instance.modify_model(quant_params)", "    return self._model_modifier.modify_model(quant_params)")],
    'C16.R4', 'ModelModifier cached on the Quantizer: stale constant map (seeded a2-C16)')
add('C16.twin_reset_map', 'C16', [(QZ, "    self._result: QuantizationResult = QuantizationResult([{}], None)", "    self._model_modifier = model_modifier.ModelModifier(self.float_model)\n    self._result: QuantizationResult = QuantizationResult([{}], None)"),
    (QZ, "    model_modifier_instance = model_modifier.ModelModifier(self.float_model)\n    return model_modifier_instance.modify_model(quant_params)", "    return self._model_modifier.modify_model(quant_params)"),
    (MMF, "    buffer_size = 0\n    for buffer in quantized_model.buffers:", "    buffer_size = 0\n    self._constant_map = []\n    for buffer in quantized_model.buffers:")],
    (), 'cached ModelModifier is fine for C16 once the constant map is reset per call', kind='twin')

# ---------------------------------------------------------------------- C01
TP = 'transformation_performer.py'
add('C01.f4', 'C01', (TP, "    if instruction.producer is None or instruction.producer < 0:", "    if not instruction.producer or instruction.producer < 0:"), 'C01.R7', 'defect F4 returns: producer 0 treated as absent', control=True)
add('C01.f5_performer', 'C01', (TP, "      if original_op_id < 0:\n        # -1 stands for the graph output, which is not an op in the map.\n        consumers.append(-1)\n        continue\n", ""),
    'C01.R6', 'defect F5 returns: -1 looked up in the op-id map', control=True)
add('C01.f5_rewire', 'C01', (DQI, "    if consumer_id < 0:\n      continue  # -1 stands for the graph output, handled below.\n", ""), 'C01.R6', 'defect F5 returns: operators[-1] rewired')
add('C01.f5_shift', 'C01', (TP, "        self._first_original_op_at_or_after(\n            transformation_inst.subgraph_id, trans_info.op_id\n        ),", "        min(instruction.consumers),"), 'C01.R6', 'defect F5 returns: map shifted from min(consumers) = -1')
add('C01.insert_pos', 'C01', (DQI, "  op_id = max(transformation_input.producer + 1, first_consumer_id)", "  op_id = max(transformation_input.producer, first_consumer_id)"), 'C01.R5', 'DEQUANTIZE may be inserted before its producer')
add('C01.no_map_update', 'C01', (TP, "    self._update_op_id_map(\n        transformation_inst.subgraph_id,\n        self._first_original_op_at_or_after(\n            transformation_inst.subgraph_id, trans_info.op_id\n        ),\n        trans_info.num_ops_added,\n    )\n", ""),
    'C01.R8', 'op-id map not shifted after an insertion')
add('C01.id_after_append', 'C01', (TU, "  new_tensor.buffer = 0\n  new_tensor_id = len(subgraph.tensors)\n  subgraph.tensors.append(new_tensor)\n  return new_tensor_id", "  new_tensor.buffer = 0\n  subgraph.tensors.append(new_tensor)\n  new_tensor_id = len(subgraph.tensors)\n  return new_tensor_id"),
    'C01.R4', 'new activation tensor id computed after the append (off by one)')
add('C01.no_unique_check', 'C01', (PG, "    self._check_tensor_names_are_unique()\n", ""), 'C01.R1', 'tensor-name uniqueness check removed')
add('C01.set_per_subgraph', 'C01', (PG, "    global_tensor_names = set()\n    for subgraph in self.flatbuffer_model.subgraphs:\n", "    for subgraph in self.flatbuffer_model.subgraphs:\n      global_tensor_names = set()\n"),
    'C01.R1', 'uniqueness checked per subgraph only')
add('C01.wrong_builtin', 'C01', (QI, "      schema_py_generated.BuiltinOperator.QUANTIZE,", "      schema_py_generated.BuiltinOperator.DEQUANTIZE,"), 'C01.R3', 'insert_quant emits a DEQUANTIZE op code (copy-paste)')
add('C01.info_pos', 'C01', (QI, "  return qtyping.TransformationInfo(\n      op_id=op_id, num_ops_added=1, output_tensor_id=new_tensor_id\n  )", "  return qtyping.TransformationInfo(\n      op_id=first_consumer_id, num_ops_added=1, output_tensor_id=new_tensor_id\n  )"),
    'C01.R3', 'reported insert position differs from the real one')
add('C01.no_reset', 'C01', (TP, "    self._original_op_id_map = []\n    self._added_op_id_map = []\n    self._create_op_id_map(tflite_model)", "    self._create_op_id_map(tflite_model)"), 'C01.R8', 'op-id maps accumulate across transform_graph calls')
add('C01.no_validity', 'C01', (TIG, "    self._check_tensor_transformation_instructions_valid(tensor_trans_insts)\n", ""), 'C01.R2', 'instruction validity check removed')
add('C01.add_op_code_idx', 'C01', (TU, "  model_op_codes[-1].builtinCode = op_code\n  return len(model_op_codes) - 1", "  model_op_codes[-1].builtinCode = op_code\n  return len(model_op_codes)"), 'C01.R4', 'add_op_code returns an out-of-range index for a new code')
add('C01.update_instr_conditional', 'C01', (TP, "    self._update_instructions(\n        transformation_index,\n        transformation_inst.instructions,\n        transformation_inst.subgraph_id,\n        trans_info,\n    )",
    "    if trans_info.op_id > 0:\n      self._update_instructions(\n          transformation_index,\n          transformation_inst.instructions,\n          transformation_inst.subgraph_id,\n          trans_info,\n      )"),
    'C01.R8', 'later instructions not retargeted when the op was inserted at position 0')
add('C01.twin_guard_eq', 'C01', (DQI, "    if consumer_id < 0:\n      continue  # -1 stands for the graph output, handled below.", "    if consumer_id == -1:\n      continue"), (), 'sentinel guard written as == -1', kind='twin')
add('C17.rebuild_drops_symmetric', 'C17', (UQT, "      num_bits=quantization_params.num_bits,\n      symmetric=quantization_params.symmetric,\n      quantized_dimension=quantization_params.quantized_dimension,\n      quantized_data=quantization_params.quantized_data,\n  )\n\n\ndef uniform_quantize_for_emulated_subchannel(",
    "      num_bits=quantization_params.num_bits,\n      quantized_dimension=quantization_params.quantized_dimension,\n      quantized_data=quantization_params.quantized_data,\n  )\n\n\ndef uniform_quantize_for_emulated_subchannel("),
    'C17.R10', 'rank-fixed parameters rebuilt without `symmetric` (defaults to True: asymmetric params clipped to the narrow range) (seeded b3-C17; MISSED by the first version of the check)')

# ---------------------------------------------------------------------- C02
add('C02.f6a', 'C02', (DQI, "  if -1 in transformation_input.consumers:\n    for output_idx, output in enumerate(transformation_input.subgraph.outputs):\n      if output == transformation_input.tensor_id:\n        transformation_input.subgraph.outputs[output_idx] = new_tensor_id",
    "  for output_idx, output in enumerate(transformation_input.subgraph.outputs):\n    if output == transformation_input.tensor_id:\n      transformation_input.subgraph.outputs[output_idx] = new_tensor_id"),
    'C02.R3', 'defect F6a returns: graph output rewired by an instruction that does not cover it', control=True)
add('C02.f6b', 'C02', (MMF, "    self._update_signature_outputs(quantized_model, original_outputs)\n", ""), 'C02.R3', 'defect F6b returns: signature outputs never retargeted', control=True)
add('C02.global_map', 'C02', (MMF, "    for signature_def in quantized_model.signatureDefs or []:\n      subgraph_id = signature_def.subgraphIndex\n      replaced_outputs = dict(\n          zip(\n              original_outputs[subgraph_id],\n              quantized_model.subgraphs[subgraph_id].outputs,\n          )\n      )\n",
    "    replaced_outputs = {}\n    for subgraph, outputs in zip(quantized_model.subgraphs, original_outputs):\n      replaced_outputs.update(zip(outputs, subgraph.outputs))\n    for signature_def in quantized_model.signatureDefs or []:\n"),
    'C02.R3', 'one old->new output table for the whole model (seeded a1-C02)')
add('C02.sig_subgraph0', 'C02', (MMF, "      subgraph_id = signature_def.subgraphIndex\n", "      subgraph_id = 0\n"), 'C02.R3', 'signature outputs remapped with the outputs of subgraph 0')
add('C02.rewire_all_ops', 'C02', (QI, "  for consumer_id in transformation_input.consumers:\n    if consumer_id < 0:\n      continue  # -1 stands for the graph output, handled below.\n    op = transformation_input.subgraph.operators[consumer_id]\n",
    "  for consumer_id in range(len(transformation_input.subgraph.operators)):\n    op = transformation_input.subgraph.operators[consumer_id]\n"), ('C02.R2', 'C01.R6'), 'every operator reading the tensor is rewired, not only the listed consumers')
add('C02.no_eq_guard', 'C02', (QI, "      if op.inputs[input_idx] == transformation_input.tensor_id:\n        op.inputs[input_idx] = new_tensor_id", "      if input_idx == 0:\n        op.inputs[input_idx] = new_tensor_id"),
    'C02.R2', 'first operand rewired regardless of which tensor it reads')
add('C02.rename_source', 'C02', (DQI, "  # quantize the source tensor\n  quantize_tensor.quantize_tensor(transformation_input)\n", "  # quantize the source tensor\n  quantize_tensor.quantize_tensor(transformation_input)\n  tensor.name = tensor.name + b'_quantized'\n"),
    'C02.R1', 'source tensor renamed by insert_dequant')
add('C02.reshape_source', 'C02', (QTS, "    tensor.quantization = flatbuffer_quantization\n", "    tensor.quantization = flatbuffer_quantization\n    tensor.shape = list(tensor.shape)\n"), 'C02.R1', 'quantize_tensor writes the shape of the source tensor')
add('C02.no_deepcopy', 'C02', (MMF, "    quantized_model = copy.deepcopy(\n        flatbuffer_utils.read_model_from_bytearray(self._model_content)\n    )", "    quantized_model = flatbuffer_utils.read_model_from_bytearray(\n        self._model_content\n    )"),
    'C02.R4', 'parsed model transformed in place without the deep copy')
add('C02.snapshot_after', 'C02', (MMF, "    original_outputs = [\n        list(subgraph.outputs) for subgraph in quantized_model.subgraphs\n    ]\n    self._transformation_performer.transform_graph(\n        instructions, quantized_model\n    )\n",
    "    self._transformation_performer.transform_graph(\n        instructions, quantized_model\n    )\n    original_outputs = [\n        list(subgraph.outputs) for subgraph in quantized_model.subgraphs\n    ]\n"), 'C02.R3', 'outputs snapshotted after the transformation (identity remap)')
add('C02.twin_helper', 'C02', (MMF, "      for tensor_map in signature_def.outputs or []:\n        tensor_map.tensorIndex = replaced_outputs.get(\n            tensor_map.tensorIndex, tensor_map.tensorIndex\n        )",
    "      for tensor_map in signature_def.outputs or []:\n        if tensor_map.tensorIndex in replaced_outputs:\n          tensor_map.tensorIndex = replaced_outputs[tensor_map.tensorIndex]"), (), 'membership test + subscript instead of dict.get', kind='twin')
add('C12.drop_block_size', 'C12', (QT, "    params_copy = copy.deepcopy(params)\n    return cls(**params_copy)", "    params_copy = copy.deepcopy(params)\n    if params_copy.get('granularity', QuantGranularity.TENSORWISE) != QuantGranularity.BLOCKWISE:\n      params_copy.pop('block_size', None)\n    return cls(**params_copy)"),
    'C12.R1', 'from_dict normalises block_size away for non-blockwise configs (seeded b3-C12; MISSED by the first version: the lattice did not vary block_size)')

# ---------------------------------------------------------------------- C19
add('C19.subgraph0', 'C19', (TP, "            tflite_model.subgraphs[transformation_inst.subgraph_id],\n", "            tflite_model.subgraphs[0],\n"), ('C19.R1', 'C19.R6'), 'every transformation applied to subgraph 0', control=True)
add('C19.map0', 'C19', (TP, "    np_op_id_map = np.array(self._original_op_id_map[subgraph_id])", "    np_op_id_map = np.array(self._original_op_id_map[0])"), 'C19.R1', 'op-id map of subgraph 0 shifted for every subgraph')
add('C19.no_reset', 'C19', (TP, "    self._original_op_id_map = []\n    self._added_op_id_map = []\n    self._create_op_id_map(tflite_model)", "    self._create_op_id_map(tflite_model)"), 'C19.R2', 'maps not reset per call')
add('C19.set_per_subgraph', 'C19', (PG, "    global_tensor_names = set()\n    for subgraph in self.flatbuffer_model.subgraphs:\n", "    for subgraph in self.flatbuffer_model.subgraphs:\n      global_tensor_names = set()\n"), 'C19.R3', 'name uniqueness per subgraph only', control=True)
add('C19.graphinfo_sub0', 'C19', (PG, "      graph_info = qtyping.GraphInfo(\n          subgraph.tensors, self.flatbuffer_model.buffers\n      )\n      # Add input/output operators to the subgraph.",
    "      graph_info = qtyping.GraphInfo(\n          self.flatbuffer_model.subgraphs[0].tensors,\n          self.flatbuffer_model.buffers,\n      )\n      # Add input/output operators to the subgraph."),
    'C19.R5', 'GraphInfo always built from the tensors of subgraph 0')
add('C19.info_subgraph_id', 'C19', (TIG, "      tensor_info = self.TensorGraphInfo(\n          tensor_id, subgraph_id, producer, consumers\n      )", "      tensor_info = self.TensorGraphInfo(\n          tensor_id, 0, producer, consumers\n      )"),
    'C19.R1', 'graph info records subgraph 0 for every tensor')
add('C19.global_output_map', 'C19', (MMF, "    for signature_def in quantized_model.signatureDefs or []:\n      subgraph_id = signature_def.subgraphIndex\n      replaced_outputs = dict(\n          zip(\n              original_outputs[subgraph_id],\n              quantized_model.subgraphs[subgraph_id].outputs,\n          )\n      )\n",
    "    replaced_outputs = {}\n    for subgraph, outputs in zip(quantized_model.subgraphs, original_outputs):\n      replaced_outputs.update(zip(outputs, subgraph.outputs))\n    for signature_def in quantized_model.signatureDefs or []:\n"),
    'C19.R7', 'tensor-id keyed table accumulated over all subgraphs (seeded a1-C02)')
add('C19.opcodes_local', 'C19', (QI, "      schema_py_generated.BuiltinOperator.QUANTIZE,\n      transformation_input.op_codes,", "      schema_py_generated.BuiltinOperator.QUANTIZE,\n      list(transformation_input.op_codes),"),
    'C19.R6', 'operator code added to a private copy of the table (index out of range in the model)')

# ---------------------------------------------------------------------- C18
MV = 'model_validator.py'
add('C18.wrong_family_index', 'C18', (MV, "              targ_tensor_name_to_details[tensor_name],\n              targ_subgraph_index,", "              targ_tensor_name_to_details[tensor_name],\n              ref_subgraph_index,"),
    'C18.R1', 'target tensor read with the reference subgraph index', control=True)
add('C18.no_pop', 'C18', (MV, "      output_tensor_results[name] = result.pop(name)", "      output_tensor_results[name] = result[name]"), 'C18.R2', 'outputs copied, not moved: reported twice')
add('C18.swapped_metric', 'C18', (MV, "              compare_fn(target_data, reference_data)", "              compare_fn(reference_data, target_data)"), 'C18.R3', 'metric arguments swapped (ratio divides by the target)')
add('C18.peek', 'C18', (MV, "    comparison_results = {}\n    for signature_input in signature_inputs:", "    comparison_results = {}\n    if next(iter(signature_inputs), None) is None:\n      raise ValueError('no test data')\n    for signature_input in signature_inputs:"),
    'C18.R8', 'peeking at the first sample of a one-shot iterable drops it from the average (seeded b3-C18; MISSED by the first version)')
add('C18.sum_not_mean', 'C18', (MV, "      agregated_results[tensor_name] = np.mean(comparison_results[tensor_name])", "      agregated_results[tensor_name] = np.sum(comparison_results[tensor_name])"), 'C18.R3', 'sum instead of mean over samples')
add('C18.mse_abs', 'C18', ('utils/validation_utils.py', "  return float(np.square(np.subtract(data1, data2)).mean())", "  return float(np.abs(np.subtract(data1, data2)).mean())"), 'C18.R7', 'MSE computed as mean absolute error')
add('C18.ratio_denominator', 'C18', ('utils/validation_utils.py', "  demoninator = abs(data2) + tolerance_threshold", "  demoninator = abs(data1) + tolerance_threshold"), 'C18.R7', 'ratio normalised by the first argument')
add('C18.no_dequant', 'C18', ('utils/tfl_interpreter_utils.py', "    subgraph_index: int = 0,\n    dequantize: bool = True,\n) -> np.ndarray:", "    subgraph_index: int = 0,\n    dequantize: bool = False,\n) -> np.ndarray:"), 'C18.R6', 'quantized tensors compared as raw integers')
add('C18.results_across_signatures', 'C18', (MV, "  for signature_key, signature_inputs in test_data.items():\n    comparison_results = {}\n", "  comparison_results = {}\n  for signature_key, signature_inputs in test_data.items():\n"), 'C18.R3', 'per-tensor sample lists shared between signatures')
add('C18.const_subgraph0', 'C18', (MV, "    for name in utils.get_constant_tensor_names(\n        self._reference_model,\n        subgraph_index,\n    ):", "    for name in utils.get_constant_tensor_names(\n        self._reference_model,\n    ):"),
    'C18.R2', 'constants taken from subgraph 0 whatever the signature')
add('C18.twin_names', 'C18', (MV, "          reference_data = utils.get_tensor_data(\n              ref_interpreter, detail, ref_subgraph_index\n          )", "          reference_data = utils.get_tensor_data(\n              ref_interpreter, ref_tensor_name_to_details[tensor_name], ref_subgraph_index\n          )"),
    (), 'reference detail looked up by name instead of using the loop value', kind='twin')
add('C09.peek_dataset', 'C09', (CAL, "    for data in calibration_dataset:\n      # Initialize tensor names", "    first = next(iter(calibration_dataset), None)\n    if first is None:\n      return\n    for data in calibration_dataset:\n      # Initialize tensor names"),
    'C09.R9', 'peeking at a one-shot calibration dataset drops its first sample')
add('C19.entry_only_io', 'C19', [(PG, "    for subgraph in self.flatbuffer_model.subgraphs:\n      graph_info = qtyping.GraphInfo(\n          subgraph.tensors, self.flatbuffer_model.buffers\n      )\n      # Add input/output operators to the subgraph.\n      subgraph.operators += (\n          tfl_flatbuffer_utils.get_subgraph_input_output_operators(subgraph)\n      )",
    "    entry = {s.subgraphIndex for s in (self.flatbuffer_model.signatureDefs or [])} or {0}\n    for subgraph_id, subgraph in enumerate(self.flatbuffer_model.subgraphs):\n      graph_info = qtyping.GraphInfo(\n          subgraph.tensors, self.flatbuffer_model.buffers\n      )\n      if subgraph_id in entry:\n        subgraph.operators += (\n            tfl_flatbuffer_utils.get_subgraph_input_output_operators(subgraph)\n        )")],
    ('C19.R8',), 'virtual IO operators only for subgraphs referenced by a signature (seeded b3-C19; first version: caught under C10.R2 only)')
add('C01.adjacent_grouping', 'C01', (TIG, "              for new_group in next_depth_groups:\n                # get an index in the existing group, any of them work since\n                # they have the same quantization\n                index = next(iter(new_group))",
    "              for new_group in next_depth_groups[-1:]:\n                # get an index in the existing group, any of them work since\n                # they have the same quantization\n                index = next(iter(new_group))"),
    'C01.R10', 'only the most recent group is considered: equal consumers separated by a different one get two inserted ops with the same tensor name (seeded b3-C01; MISSED by the first version - declared blind spot)')
add('C01.group_ignores_params', 'C01', (TIG, "  return (\n      param1.parameters == param2.parameters\n      and len(param1.transformations) > index", "  return (\n      len(param1.transformations) > index"),
    'C01.R10', 'consumers with different parameters merged into one inserted op')

# ---------------------------------------------------------------------- C04
add('C04.split_constraint', 'C04', (NMM, "      constraint=_OpQuantConstraint.SAME_AS_INPUT_SCALE,\n      inputs_to_ignore=[0],  # Split dimension does not need to be quantized.", "      inputs_to_ignore=[0],  # Split dimension does not need to be quantized."),
    'C04.R1', 'split outputs no longer share the input parameters', control=True)
add('C04.registry_swap', 'C04', (AM, "        naive_min_max_quantize.materialize_reshape,\n        naive_min_max_quantize.materialize_average_pool_2d,\n        naive_min_max_quantize.materialize_embedding_lookup,\n        naive_min_max_quantize.materialize_softmax_and_logistic,\n        naive_min_max_quantize.materialize_tanh,",
    "        naive_min_max_quantize.materialize_reshape,\n        naive_min_max_quantize.materialize_average_pool_2d,\n        naive_min_max_quantize.materialize_embedding_lookup,\n        naive_min_max_quantize.materialize_tanh,\n        naive_min_max_quantize.materialize_softmax_and_logistic,"),
    ('C04.R2', 'C04.R1'), 'softmax and tanh materialisers swapped in the registration tuple')
add('C04.tanh_scale', 'C04', (NMM, "        scale=np.array(1.0 / (1 << (num_bits - 1))),", "        scale=np.array(1.0 / (1 << num_bits)),"), 'C04.R2', 'tanh scale 1/2^bits', control=True)
add('C04.softmax_zp', 'C04', (NMM, "          scale=np.array(1.0 / 256),\n          zero_point=np.array(-128),", "          scale=np.array(1.0 / 256),\n          zero_point=np.array(0),"), 'C04.R2', 'softmax int8 zero point 0')
add('C04.dw_dim', 'C04', (FBU, "    _TFLOpName.DEPTHWISE_CONV_2D: 3,", "    _TFLOpName.DEPTHWISE_CONV_2D: 0,"), 'C04.R3', 'depthwise quantized dimension 0')
add('C04.bmm_swapped', 'C04', (MMU, "  if adj_y:\n    return rank - 2\n  return rank - 1", "  if adj_y:\n    return rank - 1\n  return rank - 2"), 'C04.R3', 'batch-matmul adj_y arms swapped')
add('C04.reduce_wrong', 'C04', (MMU, "    if rank_idx != quantized_dim:\n      reduce_dims.append(rank_idx)", "    if rank_idx > quantized_dim:\n      reduce_dims.append(rank_idx)"), ('C04.R11', 'C04.R13'), 'statistics reduced only over the axes after the quantized one')
add('C04.init_no_bmm', 'C04', (MMU, "      if op_info.op_name == _TFLOpName.BATCH_MATMUL:\n        quantized_dim = _get_bmm_weight_quantized_dim(\n            tensor_data, adj_y=op_info.op.builtinOptions.adjY\n        )\n      else:\n        quantized_dim = tfl_flatbuffer_utils.TFL_OP_TO_WEIGHT_QUANTIZED_DIM.get(\n            op_info.op_name, None\n        )",
    "      quantized_dim = tfl_flatbuffer_utils.TFL_OP_TO_WEIGHT_QUANTIZED_DIM.get(\n          op_info.op_name, None\n      )"), ('C04.R11', 'C04.R13'), 'calibration-time statistics ignore the batch-matmul rule (per-tensor stats, per-channel params)')
add('C04.bias_weight_only_scale', 'C04', (NMM, "              op_tensor_params[op_input_index].consumers[0].parameters,\n              op_tensor_params[op_weight_index].consumers[0].parameters,", "              op_tensor_params[op_weight_index].consumers[0].parameters,\n              op_tensor_params[op_weight_index].consumers[0].parameters,"),
    'C04.R4', 'bias scale uses the weight scale twice')
add('C04.tconv_indices', 'C04', (NMM, "  ignored_shape_index = 0\n  weight_index = 1\n  input_index = 2\n  bias_index = 3", "  ignored_shape_index = 0\n  weight_index = 2\n  input_index = 1\n  bias_index = 3"), 'C04.R4', 'transpose-conv weight/input indices swapped')
add('C04.no_qdim', 'C04', (QTS, "    if transformation_input.quant_params.quantized_dimension is not None:\n      flatbuffer_quantization.quantizedDimension = (\n          transformation_input.quant_params.quantized_dimension\n      )\n", ""),
    'C04.R5', 'quantized dimension never written to the flatbuffer')
add('C04.qdim_truthy', 'C04', (QTS, "    if transformation_input.quant_params.quantized_dimension is not None:", "    if transformation_input.quant_params.quantized_dimension:"), (), 'dimension skipped when it is 0: harmless, 0 is the flatbuffer default', kind='twin')
add('C04.same_input_uses_output', 'C04', (MMU, "      quant_params=input_tensor_params.consumers[0].parameters,\n  )", "      quant_params=None,\n  )"), 'C04.R6', 'same-as-input helper recomputes output parameters from the output statistics')
add('C04.zp_order', 'C04', (MMU, "      tensor_min_max[\"min\"],\n      tensor_min_max[\"max\"],\n      tensor_quant_config.num_bits,", "      tensor_min_max[\"max\"],\n      tensor_min_max[\"min\"],\n      tensor_quant_config.num_bits,"), 'C04.R13', 'min and max passed in the wrong order')
add('C04.twin_kw', 'C04', (NMM, "      constraint=_OpQuantConstraint.SAME_AS_OUTPUT_SCALE,\n  )", "      constraint=utils.OpQuantConstraint.SAME_AS_OUTPUT_SCALE,\n  )"), (), 'constraint enum referenced through the module instead of the alias', kind='twin')
add('C04.dim0_as_none', 'C04', (MMU, "  if quantized_dim is None:\n    return None\n  reduce_dims = []", "  if not quantized_dim:\n    return None\n  reduce_dims = []"), ('C04.R11', 'C04.R13'), 'quantized dimension 0 treated as per-tensor (FC/CONV per-channel statistics collapse)')

# ---------------------------------------------------------------------- C05
add('C05.nibbles_swapped', 'C05', (QTS, "    even_data = flattened_data[::2] & 0x0F\n    odd_data = np.left_shift(flattened_data[1::2], 4).astype(np.uint8)", "    even_data = np.left_shift(flattened_data[::2], 4).astype(np.uint8)\n    odd_data = flattened_data[1::2] & 0x0F"),
    'C05.R2', 'nibble halves swapped', control=True)
add('C05.no_pad', 'C05', (QTS, "    if odd_data.shape[0] == even_data.shape[0] - 1:\n      odd_data = np.pad(odd_data, (0, 1), constant_values=0)\n", ""), 'C05.R2', 'odd tail not padded')
add('C05.pack_threshold', 'C05', (QTS, "  if bitwidth <= 4:\n    even_data", "  if bitwidth < 4:\n    even_data"), 'C05.R1', '4-bit data not packed but annotated INT4')
add('C05.int4_band', 'C05', (QTS, "  if bitwidth <= 4:\n    return schema_py_generated.TensorType.INT4", "  if bitwidth <= 5:\n    return schema_py_generated.TensorType.INT4"), 'C05.R1', '5-bit params annotated INT4 while stored one value per byte')
add('C05.storage_ladder', 'C05', (UQT, "  if qtype.num_bits <= 8:\n    qtype = np.int8 if qtype.signed else np.uint8", "  if qtype.num_bits < 8:\n    qtype = np.int8 if qtype.signed else np.uint8"), 'C05.R1', '8-bit values stored as int16 but annotated INT8')
add('C05.fp16_clip', 'C05', (FCS, "      num_bits=16, quantized_data=weight_content.astype(np.float16)  # pytype: disable=attribute-error\n  )\n  op2weight_params = qtyping.OpToTensorParams(\n      subgraph_op_id=op_info.subgraph_op_index,\n      parameters=quant_params,\n      transformations=[_QuantTransformation.ADD_DEQUANTIZE],\n  )\n  op_tensor_params.append(\n      qtyping.TensorTransformationParams(\n          tensor_name=tfl_flatbuffer_utils.get_tensor_name(weight_tensor),\n          consumers=[op2weight_params],\n      )\n  )\n  # Output tensor.\n  output_quant_params = _config_no_quantize_tensor(\n      op_info, output_tensor, is_inbounding_tensor=False\n  )\n  op_tensor_params.append(output_quant_params)\n  # Bias tensor.\n  if bias_tensor is not None:\n    bias_quant_params = _config_no_quantize_tensor(\n        op_info, bias_tensor, is_inbounding_tensor=True\n    )\n    op_tensor_params.append(bias_quant_params)\n  return op_tensor_params\n\n\ndef materialize_embedding_lookup(",
    "      num_bits=16, quantized_data=np.clip(weight_content, -65504.0, 65504.0).astype(np.float16)  # pytype: disable=attribute-error\n  )\n  op2weight_params = qtyping.OpToTensorParams(\n      subgraph_op_id=op_info.subgraph_op_index,\n      parameters=quant_params,\n      transformations=[_QuantTransformation.ADD_DEQUANTIZE],\n  )\n  op_tensor_params.append(\n      qtyping.TensorTransformationParams(\n          tensor_name=tfl_flatbuffer_utils.get_tensor_name(weight_tensor),\n          consumers=[op2weight_params],\n      )\n  )\n  # Output tensor.\n  output_quant_params = _config_no_quantize_tensor(\n      op_info, output_tensor, is_inbounding_tensor=False\n  )\n  op_tensor_params.append(output_quant_params)\n  # Bias tensor.\n  if bias_tensor is not None:\n    bias_quant_params = _config_no_quantize_tensor(\n        op_info, bias_tensor, is_inbounding_tensor=True\n    )\n    op_tensor_params.append(bias_quant_params)\n  return op_tensor_params\n\n\ndef materialize_embedding_lookup("),
    'C05.R3', 'weights clipped to the fp16 range before the cast (seeded a1-C05)')
add('C05.other_params', 'C05', (MMU, "    quantized_vars = uniform_quantize_tensor.uniform_quantize(\n        tensor_content, quant_params\n    )\n  # Update with quantized values.\n  return qtyping.UniformQuantParams(\n      scale=scale,\n      zero_point=zp,\n      num_bits=tensor_quant_config.num_bits,\n      symmetric=tensor_quant_config.symmetric,",
    "    quantized_vars = uniform_quantize_tensor.uniform_quantize(\n        tensor_content, quant_params\n    )\n  # Update with quantized values.\n  return qtyping.UniformQuantParams(\n      scale=scale,\n      zero_point=zp,\n      num_bits=tensor_quant_config.num_bits,\n      symmetric=True,"),
    'C05.R8', 'data quantized with the configured symmetry but annotated symmetric=True')
add('C05.wrong_buffer', 'C05', (QTS, "      transformation_input.buffers[tensor.buffer].data = _pack_data(", "      transformation_input.buffers[transformation_input.tensor_id].data = _pack_data("), 'C05.R4', 'bytes written to the buffer whose index equals the tensor id')
add('C05.pack_other_bits', 'C05', (QTS, "          transformation_input.quant_params.num_bits,\n          np.frombuffer(", "          8,\n          np.frombuffer("), 'C05.R4', 'packing decided with a constant width')
add('C14.shallow_load_inplace_fill', 'C14', [(CAL, "    self._model_qsvs = copy.deepcopy(model_qsvs)", "    self._model_qsvs = dict(model_qsvs)"),
    (CAL, "      if tensor_name not in self._model_qsvs:\n        self._model_qsvs[tensor_name] = qsv\n      else:", "      if not self._model_qsvs.setdefault(tensor_name, {}):\n        self._model_qsvs[tensor_name].update(qsv)\n      else:")],
    'C14.R1', 'shallow copy on load + in-place fill of empty placeholders: the previous result is written (two cooperating sites; seeded b3-C14, caught blind)')
add('C09.shallow_load_inplace_fill', 'C09', [(CAL, "    self._model_qsvs = copy.deepcopy(model_qsvs)", "    self._model_qsvs = dict(model_qsvs)"),
    (CAL, "      if tensor_name not in self._model_qsvs:\n        self._model_qsvs[tensor_name] = qsv\n      else:", "      if not self._model_qsvs.setdefault(tensor_name, {}):\n        self._model_qsvs[tensor_name].update(qsv)\n      else:")],
    'C09.R1', 'same two-site change seen from C09 (previous result modified)')
add('C14.twin_shallow_load', 'C14', (CAL, "    self._model_qsvs = copy.deepcopy(model_qsvs)", "    self._model_qsvs = dict(model_qsvs)"), (), 'a shallow copy on load is enough as long as entries are replaced, never updated in place', kind='twin')
add('C05.append_promotes', 'C05', (QTS, "    even_data = flattened_data[::2] & 0x0F\n    odd_data = np.left_shift(flattened_data[1::2], 4).astype(np.uint8)\n    if odd_data.shape[0] == even_data.shape[0] - 1:\n      odd_data = np.pad(odd_data, (0, 1), constant_values=0)\n    return np.bitwise_or(even_data, odd_data)",
    "    if flattened_data.size % 2:\n      flattened_data = np.append(flattened_data, 0)\n    even_data = flattened_data[::2] & 0x0F\n    odd_data = (flattened_data[1::2] & 0x0F) << 4\n    return even_data | odd_data"),
    'C05.R2', 'odd tail padded with np.append(data, 0): uint8 promoted to int64, flatbuffer stores 8 bytes per packed byte (seeded b4-C05)')
add('C05.twin_pad_data', 'C05', (QTS, "    even_data = flattened_data[::2] & 0x0F\n    odd_data = np.left_shift(flattened_data[1::2], 4).astype(np.uint8)\n    if odd_data.shape[0] == even_data.shape[0] - 1:\n      odd_data = np.pad(odd_data, (0, 1), constant_values=0)\n    return np.bitwise_or(even_data, odd_data)",
    "    if flattened_data.size % 2:\n      flattened_data = np.pad(flattened_data, (0, 1), constant_values=0)\n    even_data = flattened_data[::2] & 0x0F\n    odd_data = np.left_shift(flattened_data[1::2], 4).astype(np.uint8)\n    return np.bitwise_or(even_data, odd_data)"),
    (), 'padding the data (dtype preserved) instead of the high-nibble array', kind='twin')
add('C04.concat_overwrites_input_stats', 'C04', (MMU, "  op_tensor_params.append(output_tensor_params)\n\n  return op_tensor_params\n\n\ndef _materialize_standard_op_no_constraint(",
    "  op_tensor_params.append(output_tensor_params)\n  output_tensor_qsv = tensor_name_to_qsv.get(output_tensor_params.tensor_name)\n  if output_tensor_qsv is not None:\n    for input_tensor in input_tensors:\n      tensor_name_to_qsv[tfl_flatbuffer_utils.get_tensor_name(input_tensor)] = (\n          output_tensor_qsv\n      )\n\n  return op_tensor_params\n\n\ndef _materialize_standard_op_no_constraint("),
    'C04.R6', 'same-as-output helper also overwrites the statistics of the op INPUTS (seeded b4-C04)')
add('C11.check_only_star', 'C11', (RM, "          if selected_recipe.algorithm_key != AlgorithmName.NO_QUANTIZE:\n            # The selected recipe must contain a supported config.",
    "          if (\n              selected_recipe.algorithm_key != AlgorithmName.NO_QUANTIZE\n              and selected_recipe.operation == _TFLOpName.ALL_SUPPORTED\n          ):\n            # The selected recipe must contain a supported config."),
    'C11.R3', 'resolve-time support check only for "*" rules: a specific-op rule that became unsupported (policy replaced) is still selected (seeded b4-C03; MISSED by the first version: the store lattice had no unsupported specific-op rule)')

# ------------------------------------------------- after blind round 4
add('C15.filter_group', 'C15', (PG, "      if len(tensors) <= 1:\n        continue\n      first_tensor = tensors[0]",
    "      tensors = [t for t in tensors if tfl_flatbuffer_utils.get_tensor_name(t) in self.model_quant_results]\n      if len(tensors) <= 1:\n        continue\n      first_tensor = tensors[0]"),
    'C15.R1', 'sharers without a recorded result are filtered out of the group (seeded b4-C15)')
add('C15.unknown_op_unrecorded', 'C15', (PG, "            op_quant_results = self._get_params_for_no_quant_op(\n                subgraph_op_id, op, subgraph.tensors\n            )\n            self._update_model_quant_results(op_quant_results)\n            continue\n          op_key",
    "            continue\n          op_key"), 'C15.R7', 'unknown operators record nothing (seeded b4-C15)')
add('C15.twin_group_rename', 'C15', (PG, "    for tensors in self.buffer_to_tensors.values():\n      if len(tensors) <= 1:\n        continue\n      first_tensor = tensors[0]",
    "    for sharers in self.buffer_to_tensors.values():\n      if len(sharers) < 2:\n        continue\n      tensors = sharers\n      first_tensor = sharers[0]"), (), 'group variable renamed, aliased', kind='twin')
add('C02.output_consumer_dropped', 'C02', ('transformation_performer.py', "        consumers.append(-1)\n        continue\n", "        continue\n"),
    'C02.R5', 'the graph-output pseudo consumer is not handed to the transformation')
add('C02.output_consumer_only_alone', 'C02', ('transformation_performer.py', "        consumers.append(-1)\n        continue\n", "        if len(instruction.consumers) == 1:\n          consumers.append(-1)\n        continue\n"),
    'C02.R5', 'the graph-output pseudo consumer survives only when it is the only consumer (seeded b4-C02)')
add('C02.twin_consumer_comprehension', 'C02', ('transformation_performer.py',
    "    consumers = []\n    for original_op_id in instruction.consumers:\n",
    "    consumers = []\n    for original_op_id in list(instruction.consumers):\n"), (), 'iterate a copy of the consumer list', kind='twin')
add('C01.added_producer_off_by_one', 'C01', ('transformation_performer.py', "          instruction.producer\n          - len(self._original_op_id_map[transformation_inst.subgraph_id])\n",
    "          instruction.producer\n          - len(self._original_op_id_map[transformation_inst.subgraph_id]) - 1\n"), 'C01.R12', 'added-op producer looked up one slot early')
add('C19.map_of_subgraph_zero', 'C19', ('transformation_performer.py', "      consumers.append(\n          self._original_op_id_map[transformation_inst.subgraph_id][\n              original_op_id\n          ]\n      )",
    "      consumers.append(self._original_op_id_map[0][original_op_id])"), 'C19.R9', 'consumer ids translated with the map of subgraph 0')
add('C01.twin_shared_added_lists', 'C01', ('transformation_performer.py', "    for subgraph in tflite_model.subgraphs:\n      self._original_op_id_map.append(list(range(len(subgraph.operators))))\n      self._added_op_id_map.append([])",
    "    for subgraph in tflite_model.subgraphs:\n      self._original_op_id_map.append(list(range(len(subgraph.operators))))\n    self._added_op_id_map = [[]] * len(tflite_model.subgraphs)"), (), 'all subgraphs share one added-op list: harmless, only the entry appended last is ever read back (chains are applied back to back)', kind='twin')

TIGF = 'transformation_instruction_generator.py'
add('C02.output_not_recorded', 'C02', (TIGF, "      if tensor_id in subgraph.outputs:\n        consumers.insert(0, -1)\n", "      if tensor_id in subgraph.outputs and not consumers:\n        consumers.insert(0, -1)\n"),
    'C02.R6', 'a graph output that also feeds an operator does not record the pseudo consumer -1')
add('C01.consumer_once', 'C01', (TIGF, "      consumers = [\n          op_id\n          for (op_id, op) in enumerate(subgraph.operators)\n          if tensor_id in op.inputs\n      ]",
    "      consumers = [\n          op_id\n          for (op_id, op) in enumerate(subgraph.operators)\n          if tensor_id in op.inputs[:2]\n      ]"),
    'C01.R13', 'only the first two operands of an operator count as consumers')
add('C19.producer_last', 'C19', (TIGF, "          producer = op_id\n          break\n", "          producer = op_id + subgraph_id\n          break\n"),
    'C19.R1', 'producer id offset by the subgraph index')
add('C19.twin_generator_rename', 'C19', (TIGF, "      tensor_info = self.TensorGraphInfo(\n          tensor_id, subgraph_id, producer, consumers\n      )\n      tensor_name = tfl_flatbuffer_utils.get_tensor_name(tensor)\n      yield tensor_name, tensor_info",
    "      info = self.TensorGraphInfo(\n          tensor_id=tensor_id, subgraph_id=subgraph_id, producer=producer, consumers=consumers\n      )\n      yield tfl_flatbuffer_utils.get_tensor_name(tensor), info"), (), 'keyword construction and direct yield', kind='twin')
add('C03.check_only_star', 'C03', (RM, "          if selected_recipe.algorithm_key != AlgorithmName.NO_QUANTIZE:\n", "          if selected_recipe.algorithm_key != AlgorithmName.NO_QUANTIZE and selected_recipe.operation == _TFLOpName.ALL_SUPPORTED:\n"),
    'C03.R10', 'unsupported config of an op-specific rule is applied (seeded b4-C03)')

MMF = 'model_modifier.py'
add('C16.f12', 'C16', (MMF, "      if buffer.data is not None and len(buffer.data) > 0:\n        buffer.data = None", "      if buffer.data is not None:\n        buffer.data = None"),
    'C16.R6', 'defect F12 returns: a zero-length constant gets a placeholder size that becomes 0 in the final pass', control=True)
add('C16.second_pass_keeps_empty', 'C16', (MMF, "      if buffer_data is None or len(buffer_data) == 0:\n        continue\n      model_bytearray += buffer_data", "      if buffer_data is None:\n        continue\n      model_bytearray += buffer_data"),
    (), 'second pass does not skip empty constants (appends nothing, pads nothing: no change)', kind='twin')
add('C16.first_pass_keeps_empty', 'C16', (MMF, "      if buffer_data is None or len(buffer_data) == 0:\n        continue\n      buffer.offset = len(dummy_bytearray)", "      if buffer_data is None:\n        continue\n      buffer.offset = len(dummy_bytearray)"),
    'C16.R6', 'a zero-length constant gets an offset in the final table only: the table grows after the offsets were measured')

# ---------------------------------------------- performer bookkeeping (label-model simulation)
add('C01.shift_after_start', 'C01', (TP, "    np_op_id_map[original_op_id:] += num_ops_added", "    np_op_id_map[original_op_id + 1:] += num_ops_added"),
    ('C01.R14', 'C01.R8'), 'the operator at the insert position is not shifted')
add('C01.first_after_strict', 'C01', (TP, "      if current_position >= op_position:\n        return original_op_id", "      if current_position > op_position:\n        return original_op_id"),
    ('C01.R14', 'C01.R8'), 'the operator sitting at the insert position is not found')
add('C01.added_index_off', 'C01', (TP, "        trans_info.op_id + trans_info.num_ops_added - 1\n", "        trans_info.op_id + trans_info.num_ops_added\n"),
    'C01.R14', 'position of the added op recorded one too far')
add('C01.chain_disjoint', 'C01', (TP, "        if consumer_index in prev_transformation.consumers:\n", "        if consumer_index >= 0 or consumer_index in prev_transformation.consumers:\n"),
    'C01.R14', 'an instruction for other consumers is chained behind the op added for the first group')
add('C01.chain_producer_off', 'C01', (TP, "              + len(self._added_op_id_map[subgraph_id])\n              - 1\n", "              + len(self._added_op_id_map[subgraph_id])\n"),
    'C01.R14', 'chained producer points one past the added op')
add('C01.shift_from_position', 'C01', (TP, "        self._first_original_op_at_or_after(\n            transformation_inst.subgraph_id, trans_info.op_id\n        ),", "        trans_info.op_id,"),
    ('C01.R14', 'C01.R8'), 'the op-id map is shifted from the insert POSITION used as an ORIGINAL id (wrong after an earlier insertion)')
add('C01.maps_not_reset', 'C01', (TP, "    self._original_op_id_map = []\n    self._added_op_id_map = []\n    self._create_op_id_map(tflite_model)", "    self._create_op_id_map(tflite_model)"),
    ('C01.R14', 'C01.R8'), 'a second transform_graph call appends to the maps of the first')
add('C01.added_map_other_subgraph', 'C01', (TP, "    self._added_op_id_map[subgraph_id].append(\n", "    self._added_op_id_map[0].append(\n"),
    ('C01.R14', 'C19.R1'), 'added ops of any subgraph recorded under subgraph 0')
add('C19.added_map_other_subgraph', 'C19', (TP, "    self._added_op_id_map[subgraph_id].append(\n", "    self._added_op_id_map[0].append(\n"),
    ('C19.R10', 'C19.R1'), 'added ops of any subgraph recorded under subgraph 0')
add('C19.shift_other_subgraph', 'C19', (TP, "    self._original_op_id_map[subgraph_id] = np_op_id_map.tolist()", "    self._original_op_id_map[0] = np_op_id_map.tolist()"),
    ('C19.R10', 'C19.R1', 'C19.R2'), 'shifted map written back to subgraph 0')
add('C01.twin_first_helper_inline', 'C01', (TP, "    op_id_map = self._original_op_id_map[subgraph_id]\n    for original_op_id, current_position in enumerate(op_id_map):\n      if current_position >= op_position:\n        return original_op_id\n    return len(op_id_map)",
    "    positions = self._original_op_id_map[subgraph_id]\n    candidates = [i for i, pos in enumerate(positions) if pos >= op_position]\n    return candidates[0] if candidates else len(positions)"),
    (), 'first-original-op helper written as a comprehension', kind='twin')

add('C13.memo_verdict', 'C13', (RM, """            try:
              algorithm_manager.check_op_quantization_config(
                  recipe.algorithm_key, target_op_name, recipe.op_config
              )
            except ValueError:
              continue  # Skip the recipe if it is not supported.""", """            memo = self.__dict__.setdefault('_verdicts', {})
            memo_key = (recipe.regex, recipe.operation, target_op_name)
            if memo_key not in memo:
              try:
                algorithm_manager.check_op_quantization_config(
                    recipe.algorithm_key, target_op_name, recipe.op_config
                )
                memo[memo_key] = True
              except ValueError:
                memo[memo_key] = False
            if not memo[memo_key]:
              continue  # Skip the recipe if it is not supported."""),
    ('C13.R6', 'C13.R7', 'C13.R8'), 'support verdict memoised per (regex, rule op, target op) (seeded b5-C13)')
add('C10.need_calibration_after_catch_all', 'C10', (RM, "    for op_quant_config in self.get_quantization_recipe():\n      if (\n          op_quant_config['op_config']['compute_precision']",
    "    rules = self.get_quantization_recipe()\n    for idx in reversed(range(len(rules))):\n      if rules[idx]['regex'] == '.*' and rules[idx]['operation'] == _TFLOpName.ALL_SUPPORTED:\n        rules = rules[idx:]\n        break\n    for op_quant_config in rules:\n      if (\n          op_quant_config['op_config']['compute_precision']"),
    'C10.R6', 'need_calibration ignores the rules before the last catch-all (seeded b5-C10)')
add('C12.twin_need_calibration_regex', 'C12', (RM, "    for op_quant_config in self.get_quantization_recipe():\n      if (\n          op_quant_config['op_config']['compute_precision']",
    "    for op_quant_config in self.get_quantization_recipe():\n      if op_quant_config['regex'] is None:\n        continue\n      if (\n          op_quant_config['op_config']['compute_precision']"),
    (), 'need_calibration reads an entry-level key (not an op_config key)', kind='twin')
add('C09.calibrate_func_per_type', 'C09', [('calibrator.py', "      for op in subgraph.operators:\n        if isinstance(op, qtyping.IOOperator):\n          op_key = op.op_key\n        else:\n          op_code = op_codes[op.opcodeIndex].builtinCode\n          if op_code not in tfl_flatbuffer_utils.TFL_OP_CODE_TO_NAME:\n            continue", "      seen_algorithms = {}\n      for op in subgraph.operators:\n        if isinstance(op, qtyping.IOOperator):\n          op_key = op.op_key\n        else:\n          op_code = op_codes[op.opcodeIndex].builtinCode\n          if op_code not in tfl_flatbuffer_utils.TFL_OP_CODE_TO_NAME:\n            continue"), ('calibrator.py', "        op_scope = self._get_op_scope(op, subgraph.tensors)\n        algorithm_name, _ = model_recipe_manager.get_quantization_configs(\n            op_key, op_scope\n        )",
    "        if op_key not in seen_algorithms:\n          op_scope = self._get_op_scope(op, subgraph.tensors)\n          seen_algorithms[op_key] = model_recipe_manager.get_quantization_configs(\n              op_key, op_scope\n          )[0]\n        algorithm_name = seen_algorithms[op_key]")],
    ('C09.R11',), 'recipe looked up once per operator TYPE (seeded b5-C09)')

add('C03.f13', 'C03', (TIG, "          if consumer_id in producer_trans_rule.consumers:\n            producer_trans_rule.consumers.remove(consumer_id)\n        transformations.append(\n            qtyping.TransformationInst(\n                qtyping.QuantTransformation.QUANTIZE_TENSOR,\n                trans_rule.tensor_id,\n                trans_rule.producer,\n                trans_rule.consumers,\n                producer_trans_rule.parameters,",
    "          producer_trans_rule.consumers.remove(consumer_id)\n        transformations.append(\n            qtyping.TransformationInst(\n                qtyping.QuantTransformation.QUANTIZE_TENSOR,\n                trans_rule.tensor_id,\n                trans_rule.producer,\n                trans_rule.consumers,\n                producer_trans_rule.parameters,"),
    'C03.R4', 'defect F13 returns: unguarded remove in the requantize branch', control=True)
add('C08.f13', 'C08', (TIG, "          if consumer_id in producer_trans_rule.consumers:\n            producer_trans_rule.consumers.remove(consumer_id)\n        transformations.append(\n            qtyping.TransformationInst(\n                qtyping.QuantTransformation.QUANTIZE_TENSOR,\n                trans_rule.tensor_id,\n                trans_rule.producer,\n                trans_rule.consumers,\n                producer_trans_rule.parameters,",
    "          producer_trans_rule.consumers.remove(consumer_id)\n        transformations.append(\n            qtyping.TransformationInst(\n                qtyping.QuantTransformation.QUANTIZE_TENSOR,\n                trans_rule.tensor_id,\n                trans_rule.producer,\n                trans_rule.consumers,\n                producer_trans_rule.parameters,"),
    'C08.R6', 'defect F13 returns: concat([x, x, z]) rejected under the static-range recipes', control=True)
add('C04.tanh_symmetry_from_zero_point', 'C04', ('algorithms/utils/min_max_quantize_utils.py', "  if symmetric:\n    float_min = -float_max\n  return (float_min, float_max)", "  if not np.any(tensor_params.zero_point):\n    float_min = -float_max\n  return (float_min, float_max)"),
    'C04.R10', 'symmetry inferred from a zero zero point: TANH int8 asymmetric gets a range that does not give back 1/128 (seeded b5-C08)')
add('C12.hidden_priority', 'C12', (RM, "          result_config = selected_recipe.op_config\n          result_key = selected_recipe.algorithm_key\n",
    "          if id(selected_recipe) >= getattr(self, '_best', 0):\n            self._best = id(selected_recipe)\n            result_config = selected_recipe.op_config\n            result_key = selected_recipe.algorithm_key\n"),
    ('C12.R7', 'C11.R1', 'C11.R3'), 'resolution depends on state that is not exported', allow_error=True)
add('C12.export_reversed', 'C12', (RM, "    for _, scope_config in self._scope_configs.items():\n      for quant_config in scope_config:\n        config = dict()",
    "    for _, scope_config in reversed(list(self._scope_configs.items())):\n      for quant_config in scope_config:\n        config = dict()"),
    'C12.R7', 'scopes exported in reverse order: a reloaded recipe resolves overlapping scopes the other way round')
add('C19.producer_model_wide', 'C19', (TIGF, "      producer = -1\n      for op_id, op in enumerate(subgraph.operators):\n        if tensor_id in op.outputs:\n          producer = op_id\n          break",
    "      producer = -1\n      for other in self.flatbuffer_model.subgraphs:\n        for op_id, op in enumerate(other.operators):\n          if tensor_id in op.outputs and producer == -1:\n            producer = op_id"),
    'C19.R1', 'producer looked up across all subgraphs by the local tensor index (seeded b6-C19)')

add('C14.keys_minus_set', 'C14', ('model_modifier.py', "    original_outputs = [\n        list(subgraph.outputs) for subgraph in quantized_model.subgraphs\n    ]",
    "    skipped = {name for name, insts in instructions.items() if not insts.instructions}\n    instructions = {name: instructions[name] for name in instructions.keys() - skipped}\n    original_outputs = [\n        list(subgraph.outputs) for subgraph in quantized_model.subgraphs\n    ]"),
    'C14.R4', 'plan rebuilt by iterating `keys() - set`: transformations applied in string-hash order (seeded b6-C14)', control=True)
add('C14.twin_keys_filter_in_order', 'C14', ('model_modifier.py', "    original_outputs = [\n        list(subgraph.outputs) for subgraph in quantized_model.subgraphs\n    ]",
    "    skipped = {name for name, insts in instructions.items() if not insts.instructions}\n    instructions = {name: insts for name, insts in instructions.items() if name not in skipped}\n    original_outputs = [\n        list(subgraph.outputs) for subgraph in quantized_model.subgraphs\n    ]"),
    (), 'the same filter written over items() in dict order with a membership test', kind='twin')
UQT = 'algorithms/uniform_quantize/uniform_quantize_tensor.py'
add('C17.cast_before_clip_table', 'C17', (UQT, "  ret = _round_and_clip(ret, qtype, narrow_range)\n  ret = assign_quantized_type(ret, qtype)\n  return ret\n\n\ndef uniform_dequantize(",
    "  ret = np.rint(ret).astype(np.int32)\n  ret = _round_and_clip(ret, qtype, narrow_range)\n  ret = assign_quantized_type(ret, qtype)\n  return ret\n\n\ndef uniform_dequantize("),
    ('C17.R11', 'C17.R1'), 'rounded value cast to an int32 accumulator before the clamp (seeded b6-C17)')
add('C17.narrow_dropped', 'C17', (UQT, "  narrow_range = quantization_params.symmetric\n  required_dtype = np.signedinteger if qtype.signed else np.unsignedinteger\n  if not np.issubdtype(zero_points.dtype, required_dtype):\n    raise ValueError(\n        f\"zero_points need to be {required_dtype}.\"\n        f\" But the actual type is {zero_points.dtype}.\"\n    )\n  ret = np.multiply(tensor_data, inverse_scales) + zero_points",
     "  narrow_range = False\n  required_dtype = np.signedinteger if qtype.signed else np.unsignedinteger\n  if not np.issubdtype(zero_points.dtype, required_dtype):\n    raise ValueError(\n        f\"zero_points need to be {required_dtype}.\"\n        f\" But the actual type is {zero_points.dtype}.\"\n    )\n  ret = np.multiply(tensor_data, inverse_scales) + zero_points"),
    ('C17.R11', 'C17.R7'), 'symmetric quantization uses the full range (-128 reachable)')
add('C17.sym_zero_point_offset', 'C17', (UQT, "      zp = np.zeros_like(scale, dtype=np.int32)\n", "      zp = np.ones_like(scale, dtype=np.int32)\n"),
    ('C17.R12', 'C17.R2'), 'symmetric zero point is 1')
add('C17.asym_no_zero_extension', 'C17', (UQT, "    bound_max = np.maximum(max_value, np.zeros_like(max_value))\n", "    bound_max = max_value\n"),
    ('C17.R12', 'C17.R2'), 'all-negative ranges are not extended to include zero: zero point leaves the integer range')

MMQ = 'algorithms/utils/min_max_quantize_utils.py'
F14_OLD = """  elif (
      is_constant
      and isinstance(quant_params, qtyping.UniformQuantParams)
      and quant_params.quantized_data is None
  ):
"""
add('C05.f14', 'C05', (MMQ, F14_OLD, "  elif False:\n"), 'C05.R10', 'defect F14 returns: a constant operand keeps imposed parameters without data', control=True)
add('C03.f14', 'C03', (MMQ, F14_OLD, "  elif False:\n"), 'C03.R13', 'defect F14 returns: a constant operand keeps imposed parameters without data')
add('C04.imposed_recomputed', 'C04', (MMQ, "  if quant_params is None and tensor_quant_config is not None:\n    if tensor_name not in tensor_name_to_qsv:", "  if (quant_params is None or is_constant) and tensor_quant_config is not None:\n    if tensor_name not in tensor_name_to_qsv:"),
    ('C04.R12', 'C04.R6'), 'a constant operand ignores the parameters a scale constraint imposes and derives its own')
add('C04.channel_view_2d', 'C04', (MMQ, """    reduce_dims = _get_reduce_dims(quantized_dim, tensor.shape)
    return {
        "min": np.min(tensor_data, axis=reduce_dims, keepdims=True),
        "max": np.max(tensor_data, axis=reduce_dims, keepdims=True),
    }""", """    if quantized_dim is None:
      return {
          "min": np.min(tensor_data, keepdims=True),
          "max": np.max(tensor_data, keepdims=True),
      }
    n_ch = tensor_data.shape[quantized_dim]
    view = np.reshape(tensor_data, (n_ch, -1)) if quantized_dim == 0 else np.reshape(tensor_data, (-1, n_ch))
    shape = [1] * tensor_data.ndim
    shape[quantized_dim] = n_ch
    return {
        "min": np.reshape(np.min(view, axis=1 if quantized_dim == 0 else 0), shape),
        "max": np.reshape(np.max(view, axis=1 if quantized_dim == 0 else 0), shape),
    }"""), 'C04.R11', 'per-channel statistics over a 2-D view: wrong for a middle channel axis (batch-matmul adj_y) (seeded b7-C05)')
add('C04.twin_moveaxis', 'C04', (MMQ, """    reduce_dims = _get_reduce_dims(quantized_dim, tensor.shape)
    return {
        "min": np.min(tensor_data, axis=reduce_dims, keepdims=True),
        "max": np.max(tensor_data, axis=reduce_dims, keepdims=True),
    }""", """    if quantized_dim is None or quantized_dim >= tensor_data.ndim:
      return {
          "min": np.min(tensor_data, keepdims=True),
          "max": np.max(tensor_data, keepdims=True),
      }
    n_ch = tensor_data.shape[quantized_dim]
    view = np.reshape(np.moveaxis(tensor_data, quantized_dim, 0), (n_ch, -1))
    shape = [1] * tensor_data.ndim
    shape[quantized_dim] = n_ch
    return {
        "min": np.reshape(np.min(view, axis=1), shape),
        "max": np.reshape(np.max(view, axis=1), shape),
    }"""), (), 'the same reduction written correctly over a moved axis (a 1-d bias of a depthwise conv has no axis 3: reduced as a whole, as before)', kind='twin')
IU = 'utils/tfl_interpreter_utils.py'
add('C10.signature_position', 'C10', (IU, "  signature_runner = tflite_interpreter.get_signature_runner(signature_key)\n  return signature_runner._subgraph_index  # pylint:disable=protected-access", "  keys = list(tflite_interpreter.get_signature_list())\n  return keys.index(signature_key) if signature_key is not None else 0"),
    'C10.R9', 'subgraph index taken from the position of the signature key (seeded b8-C10 / b8-C09)')
add('C09.signature_position', 'C09', (IU, "  signature_runner = tflite_interpreter.get_signature_runner(signature_key)\n  return signature_runner._subgraph_index  # pylint:disable=protected-access", "  keys = list(tflite_interpreter.get_signature_list())\n  return keys.index(signature_key) if signature_key is not None else 0"),
    'C09.R12', 'subgraph index taken from the position of the signature key (seeded b8-C09)')
add('C11.load_collapses_pairs', 'C11', (RM, "    for config in quantization_recipe:\n      self.add_quantization_config(", "    latest = {}\n    for config in quantization_recipe:\n      latest[(config['regex'], config['operation'])] = config\n    for config in latest.values():\n      self.add_quantization_config("),
    'C11.R6', 'loading keeps only the last entry per (regex, operator) but at the position of the first (seeded b8-C11)')
add('C11.twin_load_enumerate', 'C11', (RM, "    for config in quantization_recipe:\n      self.add_quantization_config(", "    for _, config in enumerate(list(quantization_recipe)):\n      self.add_quantization_config("),
    (), 'loading iterates a copy of the list', kind='twin')
add('C10.content_of_tracked_only', 'C10', [(CAL, "          tfl_interpreter_utils.get_tensor_name_to_content_map(\n              self._tfl_interpreter, subgraph_index\n          )", "          {k: v for k, v in tfl_interpreter_utils.get_tensor_name_to_content_map(\n              self._tfl_interpreter, subgraph_index\n          ).items() if k in self._model_qsvs}"),
     ('algorithms/uniform_quantize/naive_min_max_quantize.py', "    tensor_name = tfl_flatbuffer_utils.get_tensor_name(tensor)\n    tensor_content = tensor_content_map[tensor_name]", "    tensor_name = tfl_flatbuffer_utils.get_tensor_name(tensor)\n    if tensor_name not in tensor_content_map:\n      return\n    tensor_content = tensor_content_map[tensor_name]")],
    'C10.R8', 'only tensors already registered at initialisation are read back: graph inputs / outputs next to unsupported ops get no statistics (seeded b8-C08)')
add('C08.content_of_tracked_only', 'C08', [(CAL, "          tfl_interpreter_utils.get_tensor_name_to_content_map(\n              self._tfl_interpreter, subgraph_index\n          )", "          {k: v for k, v in tfl_interpreter_utils.get_tensor_name_to_content_map(\n              self._tfl_interpreter, subgraph_index\n          ).items() if k in self._model_qsvs}"),
     ('algorithms/uniform_quantize/naive_min_max_quantize.py', "    tensor_name = tfl_flatbuffer_utils.get_tensor_name(tensor)\n    tensor_content = tensor_content_map[tensor_name]", "    tensor_name = tfl_flatbuffer_utils.get_tensor_name(tensor)\n    if tensor_name not in tensor_content_map:\n      return\n    tensor_content = tensor_content_map[tensor_name]")],
    'C08.R7', 'static-range default recipes fail on a graph whose input touches only an unsupported op (seeded b8-C08)')

add('C01.replacement_shift_late', 'C01', (TP, "        self._first_original_op_at_or_after(\n            transformation_inst.subgraph_id, trans_info.op_id\n        ),", "        self._first_original_op_at_or_after(\n            transformation_inst.subgraph_id,\n            trans_info.op_id + (1 if instruction.transformation in self._op_replacement_transformations else 0),\n        ),"),
    'C01.R14', 'after an op replacement the id map is shifted from one position later: the replaced operator maps to the first op of its pattern (seeded b8-C01)')
TU = 'transformations/transformation_utils.py'
add('C14.global_name_counter', 'C14', [(TU, "import dataclasses\n", "import dataclasses\nimport itertools\n_SUFFIXES = itertools.count(1)\n"),
    (TU, "  new_tensor.name = tensor_name\n  new_tensor.buffer = 0\n", "  new_tensor.name = tensor_name if all(t.name != tensor_name for t in subgraph.tensors) else tensor_name + (b'_%d' % next(_SUFFIXES))\n  new_tensor.buffer = 0\n")],
    'C14.R3', 'a module-level counter is advanced while naming new tensors: the bytes depend on earlier quantize() calls (seeded b9-C14)')
add('C19.delete_op_code', 'C19', (TU, "  model_op_codes.append(schema_py_generated.OperatorCodeT())\n  model_op_codes[-1].builtinCode = op_code\n  return len(model_op_codes) - 1", "  while model_op_codes and model_op_codes[-1].builtinCode is None:\n    del model_op_codes[-1]\n  model_op_codes.append(schema_py_generated.OperatorCodeT())\n  model_op_codes[-1].builtinCode = op_code\n  return len(model_op_codes) - 1"),
    'C19.R12', 'entries are deleted from the model-wide operator-code table (seeded b9-C19)')
add('C10.scope_from_inputs_when_no_output', 'C10', (PG, "    scope = ''\n    # Op scope is determined by output tensors.\n    for output_tensor_idx in op.outputs:", "    scope = ''\n    # Op scope is determined by output tensors.\n    for output_tensor_idx in (op.outputs if len(op.outputs) else op.inputs):"),
    ('C10.R1', 'C10.R7'), 'an operator without outputs (the virtual OUTPUT operator) is scoped by its inputs in one phase (seeded b9-C02)')
add('C02.scope_from_inputs_when_no_output', 'C02', [(PG, "    scope = ''\n    # Op scope is determined by output tensors.\n    for output_tensor_idx in op.outputs:", "    scope = ''\n    # Op scope is determined by output tensors.\n    for output_tensor_idx in (op.outputs if len(op.outputs) else op.inputs):"),
    (CAL, "    scope = \"\"\n    for output_tensor_idx in op.outputs:", "    scope = \"\"\n    for output_tensor_idx in (op.outputs if len(op.outputs) else op.inputs):")],
    'C02.R9', 'the virtual OUTPUT operator is scoped by the graph output names: a regex naming an output tensor quantizes the model output (seeded b9-C02)')
add('C16.class_level_constant_map', 'C16', [(MMF, "class ModelModifier:\n  \"\"\"Model Modifier class that produce the final quantized TFlite model.\"\"\"\n", "class ModelModifier:\n  \"\"\"Model Modifier class that produce the final quantized TFlite model.\"\"\"\n\n  _constant_map = []\n"),
    (MMF, "\n    self._constant_map = []\n", "\n")], 'C16.R4', 'the constant map becomes a class-level list shared by all ModelModifier objects (seeded b10-C16)')
add('C14.class_level_constant_map', 'C14', [(MMF, "class ModelModifier:\n  \"\"\"Model Modifier class that produce the final quantized TFlite model.\"\"\"\n", "class ModelModifier:\n  \"\"\"Model Modifier class that produce the final quantized TFlite model.\"\"\"\n\n  _constant_map = []\n"),
    (MMF, "\n    self._constant_map = []\n", "\n")], 'C14.R7', 'a list created in the class body is appended to through instances (seeded b10-C16)')
add('C14.twin_class_level_default_rebound', 'C14', (MMF, "class ModelModifier:\n  \"\"\"Model Modifier class that produce the final quantized TFlite model.\"\"\"\n", "class ModelModifier:\n  \"\"\"Model Modifier class that produce the final quantized TFlite model.\"\"\"\n\n  _constant_map = []  # rebound per instance in __init__\n"),
    (), 'a class-level default that __init__ rebinds per instance', kind='twin')
add('C15.names_unique_per_subgraph', 'C15', (PG, "    global_tensor_names = set()\n    for subgraph in self.flatbuffer_model.subgraphs:\n", "    for subgraph in self.flatbuffer_model.subgraphs:\n      global_tensor_names = set()\n"),
    'C15.R9', 'tensor names only checked within one subgraph: sharers with one name in two subgraphs collapse into one plan entry (seeded b10-C15)')
add('C13.policy_match_ignores_activation_granularity', 'C13', (MMQ, "  elif op_quant_config not in config_check_policy[op_name]:\n", "  elif not any(\n      c.weight_tensor_config == op_quant_config.weight_tensor_config\n      and c.compute_precision == op_quant_config.compute_precision\n      and c.explicit_dequantize == op_quant_config.explicit_dequantize\n      and (c.activation_tensor_config is None) == (op_quant_config.activation_tensor_config is None)\n      and (c.activation_tensor_config is None or (c.activation_tensor_config.num_bits, c.activation_tensor_config.symmetric) == (op_quant_config.activation_tensor_config.num_bits, op_quant_config.activation_tensor_config.symmetric))\n      for c in config_check_policy[op_name]\n  ):\n"),
    'C13.R1', 'policy entries matched field by field without the activation granularity / dtype (seeded b10-C13)')
add('C03.materialise_error_swallowed', 'C03', (PG, "          op_quant_results = materialize_func(\n              op_info,\n              graph_info,\n              model_qsvs,\n          )", "          try:\n            op_quant_results = materialize_func(\n                op_info,\n                graph_info,\n                model_qsvs,\n            )\n          except ValueError:\n            op_quant_results = self._get_params_for_no_quant_op(\n                subgraph_op_id, op, subgraph.tensors\n            )"),
    ('C03.R15', 'C03.R14'), 'an error raised while materialising an operator silently leaves it float (seeded b10-C03)')
add('C10.twin_logging_handler', 'C10', (PG, "    self._post_process_results()\n    return self.model_quant_results", "    try:\n      n_entries = len(self.model_quant_results)\n    except TypeError:\n      n_entries = 0\n    del n_entries\n    self._post_process_results()\n    return self.model_quant_results"),
    (), 'a handler around code that cannot refuse anything', kind='twin')
ES = 'transformations/emulated_subchannel.py'
add('C01.fixed_name_constant', 'C01', (ES, "      weight_tensor.name + b'_reduce_axes',\n", "      b'emulated_subchannel_reduce_axes',\n"), 'C01.R17', 'a helper constant gets a fixed name: repeated for every emulated operator / subgraph (seeded b11-C01)')
add('C01.suffix_reused', 'C01', (ES, "      activation_output.name + b'_mul_input',\n", "      activation_output.name + b'_bmm_input',\n"), 'C01.R17', 'two tensors derived from one source get the same suffix')
add('C01.twin_suffix_variable', 'C01', (ES, "      weight_tensor.name + b'_scale',\n", "      weight_tensor.name + b'_scales',\n"), (), 'another unique suffix', kind='twin')
add('C09.ema_keeps_dtype', 'C09', ('utils/calibration_utils.py', "  return smoothing_factor * w + (1.0 - smoothing_factor) * update\n", "  updated = smoothing_factor * w + (1.0 - smoothing_factor) * update\n  if isinstance(w, np.ndarray):\n    updated = updated.astype(w.dtype, copy=False)\n  return updated\n"),
    ('C09.R11', 'C09.R2'), 'the moving average is cast back to the dtype of the old statistic: integer-typed runtime tensors stay at their first sample (seeded b11-C09)')

# blockwise replacement through the whole pipeline (C01.R18 / C19.R14)
add('C01.es_ops_added_off', 'C01', (ES, "      original_fc_op_idx, ops_added - 1, activation_output_id\n", "      original_fc_op_idx, ops_added, activation_output_id\n"), ('C01.R18', 'C01.R14'),
    'the replacement reports one operator too many: the op-id map of every later operator is off by one')
add('C01.es_delete_wrong_op', 'C01', (ES, "  del transformation_input.subgraph.operators[original_fc_op_idx + ops_added]\n", "  del transformation_input.subgraph.operators[original_fc_op_idx + ops_added - 1]\n"), 'C01.R18',
    'the replacement deletes its own last operator instead of the FULLY_CONNECTED')
add('C01.es_bmm_shape', 'C01', (ES, "      1,\n      weight_tensor.shape[2],\n  ]\n  intermediate_tensor_shape", "      1,\n      weight_tensor.shape[3],\n  ]\n  intermediate_tensor_shape"), 'C01.R18',
    'the first RESHAPE of the replacement changes the element count')
add('C01.es_reshape2_order', 'C01', (ES, "  transformation_input.subgraph.operators.insert(\n      original_fc_op_idx + 4, reshape_op2\n  )", "  transformation_input.subgraph.operators.insert(\n      original_fc_op_idx + 3, reshape_op2\n  )"), 'C01.R18',
    'the last RESHAPE is inserted before the SUM whose result it reads')
add('C01.es_relu_reads_output', 'C01', (ES, "    relu_op.inputs = [relu_input_id]\n", "    relu_op.inputs = [activation_output_id]\n"), 'C01.R18',
    'the RELU of the replacement reads its own output')
add('C01.es_scale_wrong_type', 'C01', (ES, "      transformation_input.quant_params.scale,\n      schema_py_generated.TensorType.FLOAT32,", "      transformation_input.quant_params.scale,\n      schema_py_generated.TensorType.INT32,"), 'C01.R18',
    'the scale constant of the replacement is typed INT32')
add('C01.twin_es_relu_name', 'C01', (ES, "    activation_output.name += b'_relu'\n", ""), (), 'the output tensor keeps its name when a RELU is appended: names stay unique', kind='twin')

# which tensors the validator skips (C18.R9 decides on dtypes; seeded b12-C18)
add('C18.skip_non_number', 'C18', (MV, "        if detail['dtype'] == np.object_:\n", "        if not np.issubdtype(detail['dtype'], np.number):\n"), 'C18.R9',
    'the validator skips everything that is not a numpy number: boolean tensors are reported nowhere (seeded b12-C18)')
add('C18.skip_integers', 'C18', (MV, "        if detail['dtype'] == np.object_:\n", "        if not np.issubdtype(detail['dtype'], np.floating):\n"), 'C18.R9',
    'the validator compares float tensors only: quantized constants and indices are reported nowhere')
add('C18.twin_skip_helper', 'C18', (MV, "        if detail['dtype'] == np.object_:\n", "        if np.issubdtype(detail['dtype'], np.object_):\n"), (),
    'the same skip written with issubdtype', kind='twin')
# shapes of inserted tensors (C02.R7 / C02.R9; seeded b12-C02)
TU = 'transformations/transformation_utils.py'
add('C02.new_tensor_static_one', 'C02', (TU, "  new_tensor = schema_py_generated.TensorT()\n  new_tensor.shape = shape\n  new_tensor.type = tensor_type\n  new_tensor.name = tensor_name\n  new_tensor.buffer = 0",
    "  new_tensor = schema_py_generated.TensorT()\n  new_tensor.shape = [1] + list(shape[1:]) if shape is not None and len(shape) else shape\n  new_tensor.type = tensor_type\n  new_tensor.name = tensor_name\n  new_tensor.buffer = 0"),
    ('C02.R7', 'C02.R9', 'C01.R3'), 'inserted tensors get batch 1 whatever the source tensor says (seeded b12-C02)')
add('C02.twin_copy_signature', 'C02', ('transformations/quant_insert.py', "  new_tensor_id = transformation_utils.add_new_activation_tensor(\n      tensor.name + b'_quantized',\n      tensor.shape,\n      schema_py_generated.TensorType.FLOAT32,\n      transformation_input.subgraph,\n  )\n",
    "  new_tensor_id = transformation_utils.add_new_activation_tensor(\n      tensor.name + b'_quantized',\n      tensor.shape,\n      schema_py_generated.TensorType.FLOAT32,\n      transformation_input.subgraph,\n  )\n  transformation_input.subgraph.tensors[new_tensor_id].shapeSignature = tensor.shapeSignature\n"),
    (), 'the new tensor also carries the shape signature of its source: shapes unchanged', kind='twin')

# the op-id maps as numpy arrays (seeded b12-C19: one padded 2-d array + searchsorted)
TP = 'transformation_performer.py'
_MAPS_OLD = (
    "    for subgraph in tflite_model.subgraphs:\n      self._original_op_id_map.append(list(range(len(subgraph.operators))))\n      self._added_op_id_map.append([])\n",
    "    np_op_id_map = np.array(self._original_op_id_map[subgraph_id])\n    np_op_id_map[original_op_id:] += num_ops_added\n    self._original_op_id_map[subgraph_id] = np_op_id_map.tolist()\n",
    "    op_id_map = self._original_op_id_map[subgraph_id]\n    for original_op_id, current_position in enumerate(op_id_map):\n      if current_position >= op_position:\n        return original_op_id\n    return len(op_id_map)\n",
)
add('C19.padded_map_searchsorted', 'C19', [
    (TP, _MAPS_OLD[0], "    num_ops = [len(subgraph.operators) for subgraph in tflite_model.subgraphs]\n    self._original_op_id_map = np.full((len(num_ops), max(num_ops, default=0)), -1, dtype=np.int64)\n    for subgraph_id, subgraph_num_ops in enumerate(num_ops):\n      self._original_op_id_map[subgraph_id, :subgraph_num_ops] = np.arange(subgraph_num_ops)\n      self._added_op_id_map.append([])\n"),
    (TP, _MAPS_OLD[1], "    self._original_op_id_map[subgraph_id, original_op_id:] += num_ops_added\n"),
    (TP, _MAPS_OLD[2], "    return int(np.searchsorted(self._original_op_id_map[subgraph_id], op_position))\n"),
], ('C19.R11', 'C19.R13'), 'one 2-d op-id map padded with -1 and a binary search on the padded row: subgraphs shorter than the longest one are rewritten wrongly (seeded b12-C19)')
add('C19.twin_array_maps', 'C19', [
    (TP, _MAPS_OLD[0], "    for subgraph in tflite_model.subgraphs:\n      self._original_op_id_map.append(np.arange(len(subgraph.operators)))\n      self._added_op_id_map.append([])\n"),
    (TP, _MAPS_OLD[1], "    self._original_op_id_map[subgraph_id][original_op_id:] += num_ops_added\n"),
    (TP, _MAPS_OLD[2], "    return int(np.searchsorted(self._original_op_id_map[subgraph_id], op_position))\n"),
], (), 'one sorted array per subgraph and a binary search: the same maps', kind='twin')

# which configuration governs a constant operand (C03.R6 table; seeded b12-C03)
MMUF = 'algorithms/utils/min_max_quantize_utils.py'
add('C03.missing_stats_weight_config', 'C03', (MMUF, "            graph_info,\n            op_info,\n        )\n      else:\n        raise ValueError(\n            f\"Tensor {tensor_name} not found in tensor_name_to_qsv. Check\"",
    "            graph_info,\n            op_info,\n        )\n        tensor_quant_config = op_info.op_quant_config.weight_tensor_config\n      else:\n        raise ValueError(\n            f\"Tensor {tensor_name} not found in tensor_name_to_qsv. Check\""),
    'C03.R6', 'a constant whose statistics are computed on the spot is quantized with the weight configuration, whatever the operator (seeded b12-C03)')
add('C03.twin_quantized_dim_get', 'C03', (MMUF, "      quantized_dim = tfl_flatbuffer_utils.TFL_OP_TO_WEIGHT_QUANTIZED_DIM[\n          op_info.op_name\n      ]\n",
    "      quantized_dim = tfl_flatbuffer_utils.TFL_OP_TO_WEIGHT_QUANTIZED_DIM.get(\n          op_info.op_name, None\n      )\n"), (), 'a tolerant table lookup for the quantized dimension: nothing else changes', kind='twin')

# interpreter state between calibration samples (C09.R11 stateful stand-in; seeded b13-C09)
CALF = 'calibrator.py'
add('C09.reset_once_per_call', 'C09', (CALF, "      # Reset interpreter after one round of calibration.\n      self._tfl_interpreter.reset_all_variables()\n",
    "    # Reset interpreter after one round of calibration.\n    self._tfl_interpreter.reset_all_variables()\n"), 'C09.R11',
    'the interpreter variables are reset once per calibrate() call instead of once per sample: a stateful model carries state from sample to sample (seeded b13-C09)')
add('C09.twin_reset_before_sample', 'C09', [
    (CALF, "      # Reset interpreter after one round of calibration.\n      self._tfl_interpreter.reset_all_variables()\n", ""),
    (CALF, "    for data in calibration_dataset:\n      # Initialize tensor names that are updated in this round of calibration.\n      updated_tensor_names = set()\n",
     "    for data in calibration_dataset:\n      self._tfl_interpreter.reset_all_variables()\n      # Initialize tensor names that are updated in this round of calibration.\n      updated_tensor_names = set()\n"),
], (), 'the variables are reset before every sample instead of after it: every sample still starts from the initial state', kind='twin')

# policy entries as regular expressions over op names (C13.R1; seeded b13-C13)
DPF = 'default_policy.py'
_DP_OLD = "    for op in json_policy_content[\"ops_per_config\"][json_policy_config]:\n      op_name = _TFLOpName(op)\n      quant_configs = copy.deepcopy(unrolled_configs)\n      if op in policy.keys():\n        quant_configs += policy[op_name]\n      policy[op_name] = quant_configs\n"
_DP_NEW = "    for op_entry in json_policy_content[\"ops_per_config\"][json_policy_config]:\n      for op_name in [o for o in _TFLOpName if o != _TFLOpName.ALL_SUPPORTED and re.%s(op_entry, o.value)]:\n        quant_configs = copy.deepcopy(unrolled_configs)\n        if op_name in policy:\n          quant_configs += policy[op_name]\n        policy[op_name] = quant_configs\n"
add('C13.policy_entry_prefix_regex', 'C13', [(DPF, "import json\n", "import json\nimport re\n"), (DPF, _DP_OLD, _DP_NEW % 'match')], 'C13.R1',
    'policy entries are matched as regular expressions with re.match (a prefix match): "CONV_2D" also selects CONV_2D_TRANSPOSE (seeded b13-C13)')
add('C13.twin_policy_entry_full_regex', 'C13', [(DPF, "import json\n", "import json\nimport re\n"), (DPF, _DP_OLD, _DP_NEW % 'fullmatch')], (),
    'policy entries are matched as regular expressions with re.fullmatch: plain names select themselves only', kind='twin')

# round 18
add('C18.const_probe_subgraph0', 'C18', (IU, "      tensor_data = get_tensor_data(\n          tfl_interpreter, tensor_detail, subgraph_index\n      )\n      if tensor_data.size >= min_constant_size:",
                                         "      tensor_data = get_tensor_data(\n          tfl_interpreter, tensor_detail, dequantize=False\n      )\n      if tensor_data.size >= min_constant_size:"),
    'C18.R12', 'the constant probe reads every tensor index in subgraph 0 (seeded b18-C18; MISSED before R12)')
add('C18.details_subgraph0', 'C18', (IU, "  tensor_name_to_detail = {}\n  for tensor_detail in tflite_interpreter.get_tensor_details(subgraph_index):",
                                      "  tensor_name_to_detail = {}\n  for tensor_detail in tflite_interpreter.get_tensor_details():"),
    'C18.R12', 'the details map lists subgraph 0 whatever subgraph is asked for')
add('C12.load_reads_op_config_always', 'C12', (RM, "          _OpQuantizationConfig.from_dict(config['op_config'])\n          if config['algorithm_key'] != AlgorithmName.NO_QUANTIZE\n          else None,",
                                               "          _OpQuantizationConfig.from_dict(config['op_config']),"),
    'C12.R8', 'the loader reads op_config of a no_quantize entry, which a shipped hand-written recipe omits (seeded b18-C12; MISSED before R8)')
add('C18.const_probe_keyword_twin', 'C18', (IU, "      tensor_data = get_tensor_data(\n          tfl_interpreter, tensor_detail, subgraph_index\n      )\n      if tensor_data.size >= min_constant_size:",
                                            "      tensor_data = get_tensor_data(\n          tfl_interpreter, tensor_detail, subgraph_index=subgraph_index, dequantize=False\n      )\n      if tensor_data.size >= min_constant_size:"),
    (), 'subgraph by keyword and no dequantization (only the element count is used): same names', kind='twin')
