"""E8 - tables extracted from the repository on every run (never imported)."""
from __future__ import annotations

import ast
import itertools
from typing import Any, Optional

from sa import absint
from sa import consteval
from sa import index
from sa.consteval import EnumVal, Obj, Ref

QT = 'qtyping'


def interp(ctx, **kw) -> absint.Interp:
  return absint.Interp(ctx.repo, ctx.ev, **kw)


def enum(ctx, fq: str) -> list[EnumVal]:
  return ctx.ev.enum_members(ctx.repo.cls(fq))


def enum_member(ctx, fq: str, name: str) -> EnumVal:
  ci = ctx.repo.cls(fq)
  if name not in ci.enum_members:
    raise index.AnalysisError(f'enum member {fq}.{name} not found')
  return ctx.ev.enum_val(ci, name)


def op_names(ctx) -> list[EnumVal]:
  return enum(ctx, f'{QT}:TFLOperationName')


def algorithm_names(ctx) -> list[EnumVal]:
  return enum(ctx, 'algorithm_manager:AlgorithmName')


def module_const(ctx, short: str, name: str):
  m = ctx.repo.mod(short)
  try:
    return ctx.ev.eval(m.const(name), m, {})
  except consteval.NotConstant as e:
    raise index.AnalysisError(
        f'{m.rel}: constant {name} is no longer foldable: {e}'
    ) from e


# ---------------------------------------------------------------- registry
def manager_instance(ctx) -> tuple[Obj, dict]:
  """The AlgorithmManagerApi object as algorithm_manager.py builds it.

  Obtained by interpreting the module-level statements of
  algorithm_manager.py (constructor, register_* calls, the zip loops).
  """

  def build():
    m = ctx.repo.mod('algorithm_manager')
    it = interp(ctx)
    env: dict[str, Any] = {}
    zips = []
    for st in m.tree.body:
      if isinstance(st, (ast.Import, ast.ImportFrom, ast.ClassDef,
                         ast.FunctionDef)):
        continue
      if isinstance(st, ast.Expr) and isinstance(st.value, ast.Constant):
        continue
      if isinstance(st, ast.For) and isinstance(st.iter, ast.Call) and (
          ast.unparse(st.iter.func) == 'zip'
      ):
        lens = []
        for a in st.iter.args:
          if isinstance(a, (ast.Tuple, ast.List)):
            lens.append(len(a.elts))
          else:
            lens.append(None)
        zips.append((f'{m.rel}:{st.lineno}', lens))
      try:
        it.exec_stmt(st, m, env, 0, None)
      except absint._Raise as r:  # pylint: disable=protected-access
        raise index.AnalysisError(
            f'{m.rel}:{st.lineno}: module-level statement raises {r.exc} '
            f'{r.msg} under interpretation'
        )
    inst = env.get('_alg_manager_instance')
    if not isinstance(inst, Obj):
      for v in env.values():
        if isinstance(v, Obj) and v.cls.endswith(':AlgorithmManagerApi'):
          inst = v
    if not isinstance(inst, Obj):
      raise index.AnalysisError(
          'algorithm_manager.py no longer builds an AlgorithmManagerApi '
          'instance at module level'
      )
    return inst, {'zips': zips, 'env': env}

  return ctx.cached('manager_instance', build)


def registry(ctx) -> dict[EnumVal, dict[EnumVal, dict[str, Ref]]]:
  """{algorithm: {op: {'init','calibrate','materialize' -> function ref}}}."""
  inst, _ = manager_instance(ctx)
  reg = inst.fields.get('_algorithm_registry')
  if not isinstance(reg, dict):
    raise index.AnalysisError('AlgorithmManagerApi._algorithm_registry missing')
  out = {}
  for alg, info in reg.items():
    ops = {}
    qops = info.fields.get('quantized_ops') if isinstance(info, Obj) else None
    if not isinstance(qops, dict):
      raise index.AnalysisError('registry entry shape changed')
    for op, oi in qops.items():
      ops[op] = {
          'init': oi.fields.get('init_qsv_func'),
          'calibrate': oi.fields.get('calibration_func'),
          'materialize': oi.fields.get('materialize_func'),
      }
    out[alg] = ops
  return out


def check_funcs(ctx) -> dict[EnumVal, Ref]:
  inst, _ = manager_instance(ctx)
  return dict(inst.fields.get('_config_check_registry') or {})


def policies(ctx) -> dict[EnumVal, Any]:
  inst, _ = manager_instance(ctx)
  return dict(inst.fields.get('_config_check_policy_registry') or {})


def check_outcomes(ctx, alg, op, cfg) -> list[absint.Outcome]:
  """Outcomes of AlgorithmManagerApi.check_op_quantization_config(alg, op, cfg)."""
  inst, _ = manager_instance(ctx)
  f = ctx.repo.func('algorithm_manager_api:AlgorithmManagerApi.check_op_quantization_config')
  it = ctx.cached('check_interp', lambda: interp(ctx))
  return it.outcomes(f, [inst, alg, op, cfg], copy_args=False)


def accepts(ctx, alg, op, cfg) -> tuple[bool, str]:
  outs = check_outcomes(ctx, alg, op, cfg)
  kinds = {o.kind for o in outs}
  if kinds == {'return'}:
    return True, ''
  if kinds == {'raise'}:
    return False, '/'.join(sorted({o.exc for o in outs}))
  raise index.AnalysisError(
      f'check_op_quantization_config({alg}, {op}, ...) is not decided by the '
      f'config alone: {[o.short() for o in outs]}'
  )


# ------------------------------------------------------------------ configs
def tensor_config(ctx, **fields) -> Obj:
  return construct(ctx, f'{QT}:TensorQuantizationConfig', **fields)


def construct(ctx, fq: str, **fields):
  """Construct a dataclass object through the interpreter (runs __post_init__).

  Returns the Obj, or the name of the exception the constructor raises.
  """
  it = ctx.cached('construct_interp', lambda: interp(ctx))
  it._decisions, it._cursor = [], 0  # pylint: disable=protected-access
  try:
    return it.construct(fq, [], dict(fields), None, 0)
  except absint._Raise as r:  # pylint: disable=protected-access
    return r.exc


def call(ctx, fq: str, args: list, kwargs=None) -> list[absint.Outcome]:
  it = ctx.cached('call_interp', lambda: interp(ctx))
  return it.outcomes(ctx.repo.func(fq), args, kwargs or {})


def single(ctx, fq: str, args: list, kwargs=None) -> absint.Outcome:
  outs = call(ctx, fq, args, kwargs)
  if len(outs) != 1:
    raise index.AnalysisError(
        f'{fq} is not decided by its finite-domain inputs: '
        f'{[o.short() for o in outs][:4]}'
    )
  return outs[0]


# ------------------------------------------------------------- dataclasses
def dataclass_fields(ctx, fq: str) -> list[index.Field]:
  ci = ctx.repo.cls(fq)
  if not ci.is_dataclass:
    raise index.AnalysisError(f'{fq} is no longer a dataclass')
  return ci.fields


def annotation_class(ctx, module: index.Module, ann: ast.expr
                     ) -> Optional[index.ClassInfo]:
  s = ctx.repo.annotation_type(module, ann)
  if s is not None and s.kind == 'instance':
    return s.obj
  return None


def is_optional(ann: Optional[ast.expr]) -> bool:
  if ann is None:
    return False
  txt = ast.unparse(ann)
  return txt.startswith('Optional[') or 'None' in txt
