"""E4 - interprocedural may-alias / may-mutate analysis with access paths.

Abstract value of an expression: a set of Ref(root, rpath, vpath) meaning "the
object reached from this value along `vpath` is the object reached from `root`
along `rpath`". Roots are parameters of the function being analysed
('p:<name>', including 'p:self') and module globals ('g:<module>.<name>').
Labels are attribute names or '*' (any subscript / element). A value with no
Ref is fresh. Paths are k-limited (K labels); a truncated path ends in '…'
and matches anything.

Per-function summary (fixpoint over the resolved call graph):
  mut : {(root, path) -> witness}   objects that may be mutated in place
  ret : {Ref}                       what the return value may alias
  esc : {(root, path) -> {Ref}}     stores of aliases into reachable objects
External calls are assumed not to mutate their arguments and to return fresh
objects, except the modelled ones (shallow copies, numpy views, the
flatbuffer parser whose buffers view the input bytes, container mutators).
"""
from __future__ import annotations

import ast
import dataclasses
from typing import Optional

from sa import callgraph
from sa import index

K = 6
TRUNC = '…'

MUTATORS = {
    'append', 'extend', 'insert', 'remove', 'pop', 'clear', 'update',
    'setdefault', 'add', 'discard', 'sort', 'reverse', 'popitem', 'fill',
    'resize', 'put', 'itemset', 'setflags', 'difference_update',
    'intersection_update', 'symmetric_difference_update', 'appendleft',
}
STORING_MUTATORS = {'append', 'extend', 'insert', 'add', 'update', 'setdefault'}
SHALLOW_COPY_FUNCS = {'dict', 'list', 'set', 'tuple', 'sorted', 'reversed',
                      'frozenset', 'copy.copy', 'collections.OrderedDict',
                      'bytearray'}
SHALLOW_COPY_METHODS = {'copy'}
ELEMENT_METHODS = {'get', 'pop', 'items', 'values', 'popitem', 'setdefault'}
VIEW_FUNCS = {'np.reshape', 'np.transpose', 'np.squeeze', 'np.expand_dims',
              'np.frombuffer', 'np.asarray', 'np.ravel', 'np.atleast_1d',
              'np.broadcast_to', 'memoryview', 'cast', 'iter', 'enumerate',
              'zip', 'np.swapaxes', 'np.moveaxis'}
VIEW_METHODS = {'reshape', 'view', 'ravel', 'squeeze', 'transpose', 'swapaxes',
                'keys'}
VIEW_ATTRS = {'T', 'flat', 'real', 'imag'}
ELEMENT_FUNCS = {'next', 'min', 'max'}
PARSER_FUNCS = {'flatbuffer_utils.read_model_from_bytearray',
                'tfl_flatbuffer_utils.read_model'}
FRESH_FUNCS = {'copy.deepcopy', 'bytes', 'len', 'str', 'int', 'float', 'bool',
               'isinstance', 'range', 'np.array', 'np.zeros_like', 'np.copy',
               'json.loads', 'json.load', 'json.dumps', 'repr', 'abs', 'sum'}
IMMUTABLE_ANN = {'int', 'float', 'str', 'bool', 'bytes', 'None'}


@dataclasses.dataclass(frozen=True)
class Ref:
  root: str
  rpath: tuple = ()
  vpath: tuple = ()

  def __repr__(self):
    r = self.root + ''.join(_fmt(l) for l in self.rpath)
    if self.vpath:
      return f'<value{"".join(_fmt(l) for l in self.vpath)} = {r}>'
    return f'<{r}>'


def _fmt(label):
  return '[*]' if label == '*' else ('…' if label == TRUNC else f'.{label}')


def fmt_path(root, path):
  return root.split(':', 1)[-1] + ''.join(_fmt(l) for l in path)


def _limit(path: tuple) -> tuple:
  if len(path) > K:
    return tuple(path[:K]) + (TRUNC,)
  return tuple(path)


def _lab_eq(a, b):
  return a == b or a == TRUNC or b == TRUNC


def prefix_match(short: tuple, long_: tuple) -> Optional[tuple]:
  """If `short` is a (label-compatible) prefix of `long_`, the remainder."""
  for i, lab in enumerate(short):
    if lab == TRUNC:
      return (TRUNC,)
    if i >= len(long_):
      return None
    if long_[i] == TRUNC:
      return (TRUNC,)
    if not _lab_eq(lab, long_[i]):
      return None
  return tuple(long_[len(short):])


def read(refs: frozenset, label: str) -> frozenset:
  """Refs of value.label given the refs of value."""
  out = set()
  for r in refs:
    if r.vpath:
      if r.vpath[0] == TRUNC:
        out.add(r)
      elif _lab_eq(r.vpath[0], label):
        out.add(Ref(r.root, r.rpath, r.vpath[1:]))
    else:
      out.add(Ref(r.root, _limit(r.rpath + (label,)), ()))
  return frozenset(out)


def wrap(refs: frozenset, label: str) -> frozenset:
  """Refs of a fresh container holding value at `label`."""
  return frozenset(Ref(r.root, r.rpath, _limit((label,) + r.vpath)) for r in refs)


def shallow(refs: frozenset) -> frozenset:
  out = set()
  for r in refs:
    if r.vpath:
      out.add(r)
    else:
      out.add(Ref(r.root, _limit(r.rpath + ('*',)), ('*',)))
  return frozenset(out)


@dataclasses.dataclass
class Witness:
  where: str
  text: str
  via: tuple = ()

  def steps(self) -> list[str]:
    return [f'{w}' for w in self.via] + [f'{self.where}: {self.text}']


class Summary:

  def __init__(self):
    self.mut: dict[tuple, Witness] = {}
    self.ret: set[Ref] = set()
    self.esc: dict[tuple, set[Ref]] = {}
    self.self_writes: dict[str, Witness] = {}  # attribute rebinding on self
    self.global_writes: dict[str, Witness] = {}
    self.ext_alias_args: list[tuple[str, str]] = []

  def size(self):
    return (len(self.mut), len(self.ret), sum(len(v) for v in self.esc.values()),
            len(self.self_writes), len(self.global_writes))


class Effects:

  def __init__(self, ctx, k: int = K):
    global K
    K = k
    self.ctx = ctx
    self.repo: index.Repo = ctx.repo
    self.cg = callgraph.get(ctx)
    self.summaries: dict[str, Summary] = {
        f.fq: Summary() for f in self.repo.all_functions()
    }
    self.rounds = 0
    self._solve()

  def _solve(self):
    funcs = list(self.repo.all_functions())
    for rnd in range(12):
      self.rounds = rnd + 1
      changed = False
      for f in funcs:
        before = self.summaries[f.fq].size()
        FuncAnalysis(self, f).run()
        if self.summaries[f.fq].size() != before:
          changed = True
      if not changed:
        break

  def summary(self, fq: str) -> Summary:
    return self.summaries[fq]


class FuncAnalysis:

  def __init__(self, eff: Effects, f: index.FuncInfo):
    self.eff = eff
    self.f = f
    self.m = f.module
    self.sum = eff.summaries[f.fq]
    self.sites = {id(s.node): s for s in eff.cg.sites.get(f.fq, [])}
    self.env: dict[str, frozenset] = {}
    self.immutable: set[str] = set()
    self.globals_declared: set[str] = set()

  # ----------------------------------------------------------------- driver
  def run(self):
    f = self.f
    for p in f.params:
      name = p.lstrip('*')
      self.env[name] = frozenset([Ref('p:' + name)])
      ann = f.param_annotation(name)
      if ann is not None and ast.unparse(ann) in IMMUTABLE_ANN:
        self.immutable.add(name)
    outer = f.parent
    while outer is not None:
      # closure variables of the enclosing function: treat its params as roots
      for p in outer.params:
        name = p.lstrip('*')
        self.env.setdefault(name, frozenset([Ref('p:' + name)]))
      outer = outer.parent
    self.block(f.node.body)

  def block(self, body):
    for st in body:
      self.stmt(st)

  def merge(self, a: dict, b: dict) -> dict:
    out = dict(a)
    for k, v in b.items():
      out[k] = out.get(k, frozenset()) | v
    return out

  def stmt(self, st):
    if isinstance(st, ast.Assign):
      v = self.expr(st.value)
      for t in st.targets:
        self.assign(t, v, st)
    elif isinstance(st, ast.AnnAssign):
      if st.value is not None:
        self.assign(st.target, self.expr(st.value), st)
    elif isinstance(st, ast.AugAssign):
      v = self.expr(st.value)
      t = st.target
      if isinstance(t, ast.Name):
        cur = self.env.get(t.id, frozenset())
        # `x += <number/str>` rebinds an immutable; only container operands
        # (lists, sets, arrays) are updated in place
        if t.id not in self.immutable and not _scalar_like(st.value):
          self.mutate(cur, (), st, f'{ast.unparse(st)[:60]} (in-place operator)')
          self.env[t.id] = cur | wrap(v, '*')
        elif _scalar_like(st.value):
          self.env[t.id] = frozenset()
      else:
        obj = self.expr(t)
        self.mutate(obj, (), st, f'{ast.unparse(st)[:60]} (in-place operator)')
        base = self.expr(t.value)
        self.mutate(base, (), st, ast.unparse(st)[:60])
        self.store_alias(t.value, base, self.label_of(t), wrap(v, '*') | obj)
    elif isinstance(st, ast.Expr):
      self.expr(st.value)
    elif isinstance(st, ast.Return):
      if st.value is not None:
        for r in self.expr(st.value):
          self.sum.ret.add(r)
    elif isinstance(st, ast.If):
      self.expr(st.test)
      e0 = dict(self.env)
      self.block(st.body)
      e1 = self.env
      self.env = dict(e0)
      self.block(st.orelse)
      self.env = self.merge(e1, self.env)
    elif isinstance(st, (ast.For, ast.AsyncFor)):
      it = self.expr(st.iter)
      e0 = dict(self.env)
      for _ in range(2):
        self.assign(st.target, read(it, '*'), st, element_of_iter=True)
        self.block(st.body)
        self.env = self.merge(e0, self.env)
      self.block(st.orelse)
    elif isinstance(st, ast.While):
      e0 = dict(self.env)
      for _ in range(2):
        self.expr(st.test)
        self.block(st.body)
        self.env = self.merge(e0, self.env)
      self.block(st.orelse)
    elif isinstance(st, (ast.With, ast.AsyncWith)):
      for item in st.items:
        v = self.expr(item.context_expr)
        if item.optional_vars is not None:
          self.assign(item.optional_vars, frozenset(), st)
      self.block(st.body)
    elif isinstance(st, ast.Try):
      e0 = dict(self.env)
      self.block(st.body)
      acc = self.env
      for h in st.handlers:
        self.env = self.merge(e0, acc)
        self.block(h.body)
        acc = self.merge(acc, self.env)
      self.env = acc
      self.block(st.orelse)
      self.block(st.finalbody)
    elif isinstance(st, ast.Delete):
      for t in st.targets:
        if isinstance(t, (ast.Subscript, ast.Attribute)):
          self.mutate(self.expr(t.value), (), st, ast.unparse(st)[:60])
        elif isinstance(t, ast.Name):
          self.env.pop(t.id, None)
    elif isinstance(st, ast.Global):
      self.globals_declared.update(st.names)
    elif isinstance(st, ast.Raise):
      if st.exc is not None:
        self.expr(st.exc)
    elif isinstance(st, ast.Assert):
      self.expr(st.test)
    elif isinstance(st, (ast.FunctionDef, ast.ClassDef, ast.Pass, ast.Break,
                         ast.Continue, ast.Import, ast.ImportFrom, ast.Nonlocal)):
      return
    else:
      for sub in ast.iter_child_nodes(st):
        if isinstance(sub, ast.expr):
          self.expr(sub)

  # ------------------------------------------------------------ assignments
  def label_of(self, target) -> str:
    if isinstance(target, ast.Attribute):
      return target.attr
    return '*'

  def assign(self, target, v: frozenset, st, element_of_iter=False):
    if isinstance(target, ast.Name):
      if target.id in self.globals_declared:
        self.sum.global_writes.setdefault(
            f'{self.m.short}.{target.id}', Witness(self.f.loc(st), ast.unparse(st)[:70]))
      self.env[target.id] = v
    elif isinstance(target, (ast.Tuple, ast.List)):
      for t in target.elts:
        tt = t.value if isinstance(t, ast.Starred) else t
        # elements of the assigned value (tuple unpacking): value or its items
        self.assign(tt, v | read(v, '*'), st)
    elif isinstance(target, (ast.Subscript, ast.Attribute)):
      base_expr = target.value
      base = self.expr(base_expr)
      if isinstance(target, ast.Subscript):
        self.expr(target.slice)
      self.mutate(base, (), st, ast.unparse(st)[:70])
      if isinstance(target, ast.Attribute) and isinstance(base_expr, ast.Name) and base_expr.id == 'self':
        self.sum.self_writes.setdefault(
            target.attr, Witness(self.f.loc(st), ast.unparse(st)[:70]))
      self.store_alias(base_expr, base, self.label_of(target), v)

  def store_alias(self, base_expr, base: frozenset, label: str, v: frozenset):
    """base.label now holds v: update the local view and record escapes."""
    if not v:
      return
    # escapes into roots reachable from base
    for b in base:
      if b.vpath == ():
        key = (b.root, _limit(b.rpath + (label,)))
        self.sum.esc.setdefault(key, set()).update(v)
    # local variable view
    root_var = base_expr
    labels = [label]
    while isinstance(root_var, (ast.Attribute, ast.Subscript)):
      labels.append(root_var.attr if isinstance(root_var, ast.Attribute) else '*')
      root_var = root_var.value
    if isinstance(root_var, ast.Name):
      w = v
      for lab in labels:
        w = wrap(w, lab)
      self.env[root_var.id] = self.env.get(root_var.id, frozenset()) | w

  def mutate(self, refs: frozenset, path: tuple, node, text: str, via=()):
    for r in refs:
      rem = prefix_match(r.vpath, path) if r.vpath else path
      if r.vpath and rem is None:
        continue  # the mutated object is in the fresh part / another branch
      if r.vpath and len(path) < len(r.vpath) and TRUNC not in r.vpath:
        continue
      key = (r.root, _limit(r.rpath + tuple(rem or ())))
      if key not in self.sum.mut:
        self.sum.mut[key] = Witness(self.f.loc(node), text, tuple(via))

  # ------------------------------------------------------------- expressions
  def expr(self, e) -> frozenset:
    if e is None:
      return frozenset()
    if isinstance(e, ast.Name):
      if e.id in self.env:
        return self.env[e.id]
      s = self.eff.repo.resolve_name(self.m, e.id)
      if s.kind in ('const', 'instance') and e.id in self.m.assigns:
        return frozenset([Ref(f'g:{self.m.short}.{e.id}')])
      return frozenset()
    if isinstance(e, ast.Attribute):
      if e.attr in VIEW_ATTRS:
        return self.expr(e.value)
      base = self.expr(e.value)
      if not base and isinstance(e.value, (ast.Name, ast.Attribute)):
        s = self.eff.repo.resolve_expr(self.m, e)
        if s.kind in ('const', 'instance') and isinstance(s.extra, index.Module):
          name = e.attr
          if name in s.extra.assigns:
            return frozenset([Ref(f'g:{s.extra.short}.{name}')])
      return read(base, e.attr)
    if isinstance(e, ast.Subscript):
      base = self.expr(e.value)
      self.expr(e.slice) if not isinstance(e.slice, ast.Slice) else None
      if isinstance(e.slice, ast.Slice):
        return shallow(base)
      return read(base, '*')
    if isinstance(e, ast.Call):
      return self.call(e)
    if isinstance(e, (ast.Tuple, ast.List, ast.Set)):
      out = frozenset()
      for x in e.elts:
        xv = self.expr(x.value if isinstance(x, ast.Starred) else x)
        out |= wrap(xv, '*') if not isinstance(x, ast.Starred) else xv
      return out
    if isinstance(e, ast.Dict):
      out = frozenset()
      for k, v in zip(e.keys, e.values):
        if k is None:
          out |= shallow(self.expr(v))
        else:
          self.expr(k)
          out |= wrap(self.expr(v), '*')
      return out
    if isinstance(e, ast.IfExp):
      self.expr(e.test)
      return self.expr(e.body) | self.expr(e.orelse)
    if isinstance(e, ast.BoolOp):
      out = frozenset()
      for x in e.values:
        out |= self.expr(x)
      return out
    if isinstance(e, (ast.ListComp, ast.SetComp, ast.GeneratorExp, ast.DictComp)):
      saved = dict(self.env)
      for g in e.generators:
        it = self.expr(g.iter)
        self.assign(g.target, read(it, '*'), e)
        for c in g.ifs:
          self.expr(c)
      if isinstance(e, ast.DictComp):
        self.expr(e.key)
        out = wrap(self.expr(e.value), '*')
      else:
        out = wrap(self.expr(e.elt), '*')
      self.env = saved
      return out
    if isinstance(e, ast.Lambda):
      return frozenset()
    if isinstance(e, ast.Starred):
      return self.expr(e.value)
    if isinstance(e, ast.NamedExpr):
      v = self.expr(e.value)
      self.assign(e.target, v, e)
      return v
    for sub in ast.iter_child_nodes(e):
      if isinstance(sub, ast.expr):
        self.expr(sub)
    return frozenset()

  # ------------------------------------------------------------------ calls
  def call(self, c: ast.Call) -> frozenset:
    fname = ast.unparse(c.func)
    argvals = [self.expr(a.value if isinstance(a, ast.Starred) else a) for a in c.args]
    kwvals = {k.arg: self.expr(k.value) for k in c.keywords}
    if 'out' in kwvals:
      self.mutate(kwvals['out'], (), c, f'{fname}(..., out=...)')
    site = self.sites.get(id(c))
    recv = frozenset()
    if isinstance(c.func, ast.Attribute):
      recv = self.expr(c.func.value)
    # ---- repository callees
    if site is not None and site.callees:
      out = frozenset()
      for callee in site.callees:
        out |= self.apply(site, callee, c, recv, argvals, kwvals)
      if site.kind == 'constructor' and site.ctor_of is not None:
        ci = site.ctor_of
        if ci.is_dataclass and '__init__' not in ci.methods:
          out = frozenset()
          names = [f.name for f in ci.fields]
          for n, v in zip(names, argvals):
            out |= wrap(v, n)
          for k, v in kwvals.items():
            out |= wrap(v, k)
      return out
    if site is not None and site.kind == 'constructor' and site.ctor_of is not None:
      ci = site.ctor_of
      out = frozenset()
      names = [f.name for f in ci.fields]
      for n, v in zip(names, argvals):
        out |= wrap(v, n)
      for k, v in kwvals.items():
        out |= wrap(v, k or '*')
      return out
    # ---- modelled externals
    short = fname
    for pre in ('numpy.',):
      if short.startswith(pre):
        short = 'np.' + short[len(pre):]
    if short == 'next' and argvals:
      # advancing an iterator / counter changes it: a module-level one is ambient state
      self.mutate(argvals[0], (), c, 'next(...)')
      return read(argvals[0], '*')
    if short in FRESH_FUNCS:
      return frozenset()
    if short in PARSER_FUNCS or short.endswith('.read_model_from_bytearray'):
      out = set()
      for r in (argvals[0] if argvals else frozenset()):
        if not r.vpath:
          out.add(Ref(r.root, r.rpath, ('buffers', '*', 'data')))
      return frozenset(out)
    if short in SHALLOW_COPY_FUNCS:
      return shallow(argvals[0]) if argvals else frozenset()
    if short in VIEW_FUNCS:
      out = frozenset()
      for v in argvals[:1] if short not in ('zip',) else argvals:
        out |= v
      if short in ('enumerate', 'zip'):
        out = wrap(read(out, '*'), '*') | out
      return out
    if short in ELEMENT_FUNCS:
      return read(argvals[0], '*') | argvals[0] if argvals else frozenset()
    if isinstance(c.func, ast.Attribute):
      attr = c.func.attr
      if attr in MUTATORS:
        self.mutate(recv, (), c, f'{fname}(...)')
        if attr in STORING_MUTATORS:
          stored = frozenset()
          # only VALUES become elements; keys / positions do not
          vals = argvals
          if attr in ('setdefault', 'insert'):
            vals = argvals[1:]
          for v in vals:
            stored |= v
          if attr in ('extend', 'update'):
            stored = read(stored, '*') | stored
          self.store_alias(c.func.value, recv, '*', stored)
        if attr in ('pop', 'setdefault', 'popitem'):
          return read(recv, '*')
        return frozenset()
      if attr in SHALLOW_COPY_METHODS:
        return shallow(recv)
      if attr in VIEW_METHODS:
        return recv
      if attr in ELEMENT_METHODS:
        return read(recv, '*') | (recv if attr in ('items', 'values') else frozenset())
      if attr in ('astype', 'tobytes', 'tolist', 'flatten', 'decode', 'encode',
                  'lower', 'upper', 'format', 'item', 'mean', 'strip', 'split',
                  'join', 'startswith', 'endswith', 'read', 'write'):
        return frozenset()
    # unknown external: record caller-owned aliases handed over
    for v in argvals + list(kwvals.values()) + [recv]:
      for r in v:
        if r.root.startswith('p:') and not r.vpath:
          self.sum.ext_alias_args.append((self.f.loc(c), fname[:50]))
          break
    return frozenset()

  def apply(self, site, callee: index.FuncInfo, c: ast.Call, recv, argvals, kwvals):
    """Applies the summary of `callee` at call site `c`."""
    s = self.eff.summaries[callee.fq]
    params = callee.pos_params
    binding: dict[str, frozenset] = {}
    fresh_receiver = False
    if site.kind == 'constructor':
      binding[params[0]] = frozenset() if params else frozenset()
      fresh_receiver = True
      rest = params[1:]
    elif callee.cls is not None and callee.is_method and not callee.is_classmethod and (site.receiver_self or site.kind == 'resolved-by-name'):
      if params:
        binding[params[0]] = recv
      rest = params[1:]
    elif callee.is_classmethod:
      rest = params[1:]
    else:
      rest = params
    for p, v in zip(rest, argvals):
      binding[p] = v
    extra = argvals[len(rest):]
    va = callee.node.args.vararg
    if va is not None and extra:
      acc = frozenset()
      for v in extra:
        acc |= wrap(v, '*')
      binding[va.arg] = acc
    for k, v in kwvals.items():
      if k is None:
        continue
      binding[k] = binding.get(k, frozenset()) | v
    via_step = f'{self.f.loc(c)}: call {callee.fq}'

    def translate(ref_in_callee: Ref) -> frozenset:
      """Caller-side refs for an alias expressed on callee roots."""
      if ref_in_callee.root.startswith('g:'):
        return frozenset([ref_in_callee])
      pname = ref_in_callee.root[2:]
      out = set()
      for a in binding.get(pname, frozenset()):
        # callee: value.vpath2 == param.rpath2 ; caller: arg.vpath1 == R.rpath1
        rem = prefix_match(a.vpath, ref_in_callee.rpath)
        if rem is not None:
          out.add(Ref(a.root, _limit(a.rpath + tuple(rem)), ref_in_callee.vpath))
        else:
          rem2 = prefix_match(ref_in_callee.rpath, a.vpath)
          if rem2 is not None:
            out.add(Ref(a.root, a.rpath, _limit(ref_in_callee.vpath + tuple(rem2))))
      return frozenset(out)

    # mutations
    for (root, path), w in list(s.mut.items()):
      if root.startswith('g:'):
        self.sum.mut.setdefault((root, path), Witness(w.where, w.text, (via_step,) + w.via))
        continue
      pname = root[2:]
      self.mutate(binding.get(pname, frozenset()), path, c, w.text,
                  via=(via_step,) + w.via + (f'{w.where}',))
      # fix up witness: mutate() stores node loc of the call; replace by callee's
    # escapes
    for (root, path), vals in list(s.esc.items()):
      tv = frozenset()
      for r in vals:
        tv |= translate(r)
      if not tv:
        continue
      if root.startswith('g:'):
        self.sum.esc.setdefault((root, path), set()).update(tv)
        continue
      pname = root[2:]
      dst = binding.get(pname, frozenset())
      for d in dst:
        if d.vpath == ():
          self.sum.esc.setdefault((d.root, _limit(d.rpath + path)), set()).update(tv)
      # local variable view of the argument object
      arg_expr = None
      if params and pname == params[0] and not fresh_receiver and isinstance(c.func, ast.Attribute) and (site.receiver_self or site.kind == 'resolved-by-name'):
        arg_expr = c.func.value
      else:
        idx = rest.index(pname) if pname in rest else -1
        if 0 <= idx < len(c.args):
          arg_expr = c.args[idx]
        for k in c.keywords:
          if k.arg == pname:
            arg_expr = k.value
      if isinstance(arg_expr, ast.Name):
        w = tv
        for lab in reversed(path):
          w = wrap(w, lab)
        self.env[arg_expr.id] = self.env.get(arg_expr.id, frozenset()) | w
    for k, w in s.global_writes.items():
      self.sum.global_writes.setdefault(k, Witness(w.where, w.text, (via_step,) + w.via))
    # return value
    out = frozenset()
    if site.kind == 'constructor':
      # the new object: fields that __init__ stored (escapes into self)
      if params:
        for (root, path), vals in s.esc.items():
          if root == 'p:' + params[0]:
            tv = frozenset()
            for r in vals:
              tv |= translate(r)
            w = tv
            for lab in reversed(path):
              w = wrap(w, lab)
            out |= w
      return out
    for r in s.ret:
      out |= translate(r)
    return out


def _scalar_like(e) -> bool:
  if isinstance(e, ast.Constant):
    return isinstance(e.value, (int, float, str, bytes, bool))
  if isinstance(e, ast.JoinedStr):
    return True
  if isinstance(e, ast.Attribute) and e.attr in ('ndim', 'size', 'num_bits', 'itemsize', 'nbytes'):
    return True
  if isinstance(e, ast.Call) and ast.unparse(e.func) in ('len', 'int', 'float', 'str', 'abs', 'round', 'min', 'max', 'sum'):
    return True
  if isinstance(e, ast.BinOp):
    return _scalar_like(e.left) and _scalar_like(e.right)
  if isinstance(e, ast.UnaryOp):
    return _scalar_like(e.operand)
  return False


def get(ctx) -> Effects:
  return ctx.cached('effects', lambda: Effects(ctx))
