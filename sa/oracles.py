"""Oracles that are NOT taken from the repository (TFLite quantization spec).

One line of provenance each; see DESIGN.md section 3.
"""

# O1 per-channel weight dimension (tensorflow.org/lite/performance/quantization_spec)
WEIGHT_QUANTIZED_DIM = {
    'FULLY_CONNECTED': 0, 'CONV_2D': 0, 'DEPTHWISE_CONV_2D': 3,
    'CONV_2D_TRANSPOSE': 0, 'EMBEDDING_LOOKUP': 0,
}
# BATCH_MATMUL: rank-2 if adj_y else rank-1 (kernel batch_matmul.cc)
BMM_DIM = {True: 'rank-2', False: 'rank-1'}

# O2 scale constraints of the quantization spec
SAME_AS_INPUT = {'RESHAPE', 'TRANSPOSE', 'SPLIT', 'STRIDED_SLICE', 'AVERAGE_POOL_2D'}
SAME_AS_OUTPUT = {'CONCATENATION'}
FIXED_RANGE = {'SOFTMAX', 'LOGISTIC', 'TANH'}

# O3 fixed output ranges hard-coded in the kernels (activations.cc / tfl_ops.td)
FIXED_PARAMS = {
    ('SOFTMAX', 8): (1.0 / 256, -128), ('SOFTMAX', 16): (1.0 / 32768, 0),
    ('LOGISTIC', 8): (1.0 / 256, -128), ('LOGISTIC', 16): (1.0 / 32768, 0),
    ('TANH', 8): (1.0 / 128, 0), ('TANH', 16): (1.0 / 32768, 0),
}

# O4 operand layout (schema / kernels): index of input, weight, bias; non-float operands
OPERANDS = {
    'FULLY_CONNECTED': {'input': 0, 'weight': 1, 'bias': 2},
    'CONV_2D': {'input': 0, 'weight': 1, 'bias': 2},
    'DEPTHWISE_CONV_2D': {'input': 0, 'weight': 1, 'bias': 2},
    'CONV_2D_TRANSPOSE': {'input': 2, 'weight': 1, 'bias': 3, 'shape': 0},
    'EMBEDDING_LOOKUP': {'ids': 0, 'weight': 1},
}
INDEX_OPERANDS = {
    'RESHAPE': [1], 'TRANSPOSE': [1], 'MEAN': [1], 'STRIDED_SLICE': [1, 2, 3],
    'SPLIT': [0], 'EMBEDDING_LOOKUP': [0],
}
# ops whose constant operand is a weight (gets the weight config)
WEIGHT_OPS = {'FULLY_CONNECTED', 'CONV_2D', 'DEPTHWISE_CONV_2D', 'CONV_2D_TRANSPOSE',
              'EMBEDDING_LOOKUP', 'BATCH_MATMUL'}

# O5 bias: zero point 0, scale = input scale x weight scale, 32 bit (64 for 16-bit activations)
BIAS_BITS = {8: 32, 16: 64}

# O6 TensorType codes of the TFLite schema (checked against the installed schema)
TENSOR_TYPE = {'FLOAT32': 0, 'FLOAT16': 1, 'INT32': 2, 'INT64': 4, 'INT16': 7,
               'INT8': 9, 'INT4': 17}
TYPE_BITS = {'INT4': 4, 'INT8': 8, 'INT16': 16, 'INT32': 32, 'INT64': 64,
             'FLOAT16': 16, 'FLOAT32': 32}

# O8 EMA smoothing of the property statement (C09)
SMOOTHING = 0.95

# README coverage table: ops the shipped recipes must handle
SUPPORTED_OPS = [
    'FULLY_CONNECTED', 'BATCH_MATMUL', 'DEPTHWISE_CONV_2D', 'CONV_2D',
    'CONV_2D_TRANSPOSE', 'AVERAGE_POOL_2D', 'RESHAPE', 'EMBEDDING_LOOKUP',
    'SOFTMAX', 'TANH', 'TRANSPOSE', 'GELU', 'ADD', 'SUB', 'MUL', 'MEAN', 'RSQRT',
    'CONCATENATION', 'STRIDED_SLICE', 'SPLIT', 'LOGISTIC',
]
