"""A small exact model of numpy arrays for the path interpreter.

Only what the repository's shape / reduction code uses: row-major data with a
shape, reshape (with -1), transpose / moveaxis / swapaxes, min / max / sum /
abs along axes with keepdims, elementwise arithmetic with numpy broadcasting,
indexing with integers. Values are Python numbers (ints / Fractions), so every
result is exact. Anything else is reported as `NotModelled` and makes the
interpreter yield an opaque value (never a guess).
"""
from __future__ import annotations

import itertools
import operator
from typing import Any, Callable, Optional, Sequence


class NotModelled(Exception):
  pass


def _prod(xs) -> int:
  n = 1
  for x in xs:
    n *= x
  return n


class NdArr:
  """Row-major n-dimensional array of exact numbers."""

  __slots__ = ('shape', 'data', 'kind', 'view')

  def __init__(self, shape: Sequence[int], data: Sequence[Any], kind: Optional[str] = None, view: bool = False):
    self.shape = tuple(int(s) for s in shape)
    self.data = list(data)
    # True for the result of indexing / slicing: numpy would hand out a VIEW of the base array. The copy held here is good for
    # reading; a store into it is refused (NotModelled), because it would have to change the base as well.
    self.view = view
    # element kind when it is known: 'i' (an integer dtype) or 'f' (a float dtype); None = not tracked
    self.kind = kind
    if _prod(self.shape) != len(self.data):
      raise NotModelled(f'shape {self.shape} does not hold {len(self.data)} items')

  # ------------------------------------------------------------ construction
  @staticmethod
  def from_nested(x) -> 'NdArr':
    if isinstance(x, NdArr):
      return NdArr(x.shape, x.data)
    if not isinstance(x, (list, tuple)):
      return NdArr((), [x])
    items = [NdArr.from_nested(e) for e in x]
    if not items:
      return NdArr((0,), [])
    sh = items[0].shape
    if any(i.shape != sh for i in items):
      raise NotModelled('ragged nested list')
    data = []
    for i in items:
      data += i.data
    return NdArr((len(items),) + sh, data)

  def tolist(self):
    def rec(off, dims):
      if not dims:
        return self.data[off]
      step = _prod(dims[1:])
      return [rec(off + k * step, dims[1:]) for k in range(dims[0])]
    return rec(0, self.shape)

  # ------------------------------------------------------------------ basics
  @property
  def ndim(self) -> int:
    return len(self.shape)

  @property
  def size(self) -> int:
    return len(self.data)

  def __len__(self):
    if not self.shape:
      raise TypeError('len() of unsized object')
    return self.shape[0]

  def __iter__(self):
    if not self.shape:
      raise TypeError('iteration over a 0-d array')
    return iter([self.index(i) for i in range(self.shape[0])])

  def __bool__(self):
    if len(self.data) != 1:
      raise ValueError('The truth value of an array with more than one element is ambiguous')
    return bool(self.data[0])

  def __repr__(self):
    return f'NdArr{self.shape}{self.data if len(self.data) <= 12 else self.data[:12] + ["..."]}'

  def __eq__(self, other):
    return isinstance(other, NdArr) and self.shape == other.shape and self.data == other.data

  def __hash__(self):
    return hash((self.shape, tuple(self.data)))

  def _strides(self):
    st, acc = [], 1
    for s in reversed(self.shape):
      st.append(acc)
      acc *= s
    return list(reversed(st))

  def at(self, idx: Sequence[int]):
    return self.data[sum(i * s for i, s in zip(idx, self._strides()))]

  def index(self, k):
    if not isinstance(k, int) or isinstance(k, bool):
      raise NotModelled('index kind')
    if not self.shape:
      raise NotModelled('index of 0-d array')
    n = self.shape[0]
    if k < 0:
      k += n
    if not 0 <= k < n:
      raise IndexError('index out of bounds')
    step = _prod(self.shape[1:])
    sub = self.data[k * step:(k + 1) * step]
    return sub[0] if len(self.shape) == 1 else NdArr(self.shape[1:], sub)

  # ------------------------------------------------- general indexing / stores
  def _select(self, key):
    """key: int | slice | tuple of them -> (flat positions, result shape)."""
    if not isinstance(key, tuple):
      key = (key,)
    if len(key) > len(self.shape):
      raise IndexError('too many indices for array')
    key = key + (slice(None),) * (len(self.shape) - len(key))
    axes, out_shape = [], []
    for k, n in zip(key, self.shape):
      if isinstance(k, bool) or not isinstance(k, (int, slice)):
        raise NotModelled('index kind')
      if isinstance(k, int):
        if k < 0:
          k += n
        if not 0 <= k < n:
          raise IndexError('index out of bounds')
        axes.append([k])
      else:
        if any(x is not None and (isinstance(x, bool) or not isinstance(x, int)) for x in (k.start, k.stop, k.step)):
          raise NotModelled('slice bounds')
        r = list(range(*k.indices(n)))
        axes.append(r)
        out_shape.append(len(r))
    st = self._strides()
    pos = [sum(i * s_ for i, s_ in zip(idx, st)) for idx in itertools.product(*axes)]
    return pos, tuple(out_shape)

  def getitem(self, key):
    pos, shape = self._select(key)
    if not shape:
      return self.data[pos[0]]
    return NdArr(shape, [self.data[p] for p in pos], self.kind, view=True)

  def setitem(self, key, value):
    if self.view:
      raise NotModelled('store through a view of another array')
    pos, shape = self._select(key)
    if isinstance(value, (list, tuple)):
      value = NdArr.from_nested(value)
    if isinstance(value, NdArr):
      if value.shape != shape:
        # numpy broadcasts the value; only the exact and the scalar-like cases are modelled
        if len(value.data) == 1:
          vals = [value.data[0]] * len(pos)
        elif _prod(value.shape) == len(pos) and tuple(x for x in value.shape if x != 1) == tuple(x for x in shape if x != 1):
          vals = list(value.data)
        else:
          raise ValueError(f'could not broadcast input array from shape {value.shape} into shape {shape}')
      else:
        vals = list(value.data)
    else:
      vals = [value] * len(pos)
    if self.kind == 'i':
      vals = [int(v) if isinstance(v, float) else v for v in vals]   # an integer array truncates what is stored into it
    for p, v in zip(pos, vals):
      self.data[p] = v

  # --------------------------------------------------------------- reshaping
  def reshape(self, shape) -> 'NdArr':
    if isinstance(shape, int):
      shape = (shape,)
    shape = [int(s) for s in shape]
    if shape.count(-1) > 1:
      raise ValueError('can only specify one unknown dimension')
    if -1 in shape:
      rest = _prod(s for s in shape if s != -1)
      if rest == 0 or len(self.data) % rest:
        raise ValueError('cannot reshape')
      shape[shape.index(-1)] = len(self.data) // rest
    if _prod(shape) != len(self.data):
      raise ValueError(f'cannot reshape array of size {len(self.data)} into shape {tuple(shape)}')
    return NdArr(shape, self.data)

  def transpose(self, axes=None) -> 'NdArr':
    n = self.ndim
    axes = list(reversed(range(n))) if axes is None else [a + n if a < 0 else a for a in axes]
    if sorted(axes) != list(range(n)):
      raise ValueError('axes do not match array')
    new_shape = [self.shape[a] for a in axes]
    out = []
    for idx in itertools.product(*[range(s) for s in new_shape]):
      src = [0] * n
      for pos, a in enumerate(axes):
        src[a] = idx[pos]
      out.append(self.at(src))
    return NdArr(new_shape, out)

  def moveaxis(self, src: int, dst: int) -> 'NdArr':
    n = self.ndim
    src, dst = src % n, dst % n
    order = [a for a in range(n) if a != src]
    order.insert(dst, src)
    return self.transpose(order)

  def swapaxes(self, a: int, b: int) -> 'NdArr':
    order = list(range(self.ndim))
    order[a], order[b] = order[b], order[a]
    return self.transpose(order)

  def expand_dims(self, axis) -> 'NdArr':
    axes = [axis] if isinstance(axis, int) else list(axis)
    n = self.ndim + len(axes)
    axes = sorted(a + n if a < 0 else a for a in axes)
    if len(set(axes)) != len(axes) or any(not 0 <= a < n for a in axes):
      raise ValueError('repeated or out-of-range axis')
    it = iter(self.shape)
    sh = [1 if k in axes else next(it) for k in range(n)]
    return NdArr(sh, self.data)

  def squeeze(self, axis=None) -> 'NdArr':
    if axis is None:
      return NdArr([s for s in self.shape if s != 1], self.data)
    axes = {a % self.ndim for a in ([axis] if isinstance(axis, int) else axis)}
    if any(self.shape[a] != 1 for a in axes):
      raise ValueError('cannot squeeze')
    return NdArr([s for i, s in enumerate(self.shape) if i not in axes], self.data)

  # -------------------------------------------------------------- reductions
  def reduce(self, f: Callable, axis=None, keepdims=False):
    n = self.ndim
    if axis is None:
      axes = set(range(n))
    else:
      axes = {a + n if a < 0 else a for a in ([axis] if isinstance(axis, int) else list(axis))}
      if any(not 0 <= a < n for a in axes):
        raise ValueError('axis out of bounds')
    keep = [a for a in range(n) if a not in axes]
    out_shape = [self.shape[a] for a in keep]
    groups: dict[tuple, list] = {}
    for idx in itertools.product(*[range(s) for s in self.shape]):
      groups.setdefault(tuple(idx[a] for a in keep), []).append(self.at(idx))
    if not self.data:
      raise ValueError('zero-size array to reduction operation')
    vals = []
    for key in itertools.product(*[range(s) for s in out_shape]):
      g = groups[key]
      acc = g[0]
      for x in g[1:]:
        acc = f(acc, x)
      vals.append(acc)
    if keepdims:
      return NdArr([1 if a in axes else self.shape[a] for a in range(n)], vals, self.kind)
    if not out_shape:
      return vals[0]
    return NdArr(out_shape, vals, self.kind)

  # ------------------------------------------------------------- elementwise
  def map(self, f: Callable) -> 'NdArr':
    return NdArr(self.shape, [f(x) for x in self.data], self.kind)

  @staticmethod
  def broadcast(f: Callable, a, b):
    a0, b0 = a, b
    a = a if isinstance(a, NdArr) else NdArr((), [a])
    b = b if isinstance(b, NdArr) else NdArr((), [b])
    n = max(a.ndim, b.ndim)
    sa = (1,) * (n - a.ndim) + a.shape
    sb = (1,) * (n - b.ndim) + b.shape
    out_shape = []
    for x, y in zip(sa, sb):
      if x != y and 1 not in (x, y):
        raise ValueError(f'operands could not be broadcast together with shapes {a.shape} {b.shape}')
      out_shape.append(max(x, y) if 0 not in (x, y) else 0)
    ra, rb = NdArr(sa, a.data), NdArr(sb, b.data)
    out = []
    for idx in itertools.product(*[range(s) for s in out_shape]):
      ia = [0 if sa[k] == 1 else idx[k] for k in range(n)]
      ib = [0 if sb[k] == 1 else idx[k] for k in range(n)]
      out.append(f(ra.at(ia), rb.at(ib)))
    if not out_shape:
      return out[0]
    def k(x, raw):
      if isinstance(raw, NdArr):
        return raw.kind
      return 'f' if isinstance(raw, float) else ('i' if isinstance(raw, int) else None)
    ka, kb = k(a, a0), k(b, b0)
    kind = 'f' if 'f' in (ka, kb) else ('i' if ka == kb == 'i' else None)
    if any(isinstance(v, float) for v in out):
      kind = 'f'
    return NdArr(out_shape, out, kind)


BIN = {'add': operator.add, 'subtract': operator.sub, 'multiply': operator.mul, 'true_divide': operator.truediv, 'divide': operator.truediv,
       'maximum': lambda a, b: a if a >= b else b, 'minimum': lambda a, b: a if a <= b else b}


def _int_kind(dtype) -> Optional[str]:
  n = (getattr(dtype, 'name', None) or '').split('.')[-1]
  if n.startswith(('int', 'uint')) or n == 'dtype.i':
    return 'i'
  if n.startswith('float') or n == 'dtype.f':
    return 'f'
  return None


def np_create(name: str, args: list, kwargs: dict) -> Any:
  """np.full / zeros / ones / arange / searchsorted on plain numbers and lists."""
  def shape_of(x):
    if isinstance(x, int) and not isinstance(x, bool):
      return (x,)
    if isinstance(x, (list, tuple)) and all(isinstance(v, int) and not isinstance(v, bool) for v in x):
      return tuple(x)
    raise NotModelled('shape')
  dtype = kwargs.get('dtype')
  if name in ('full', 'zeros', 'ones'):
    extra = set(kwargs) - {'dtype', 'shape', 'fill_value'}
    if extra or not (args or 'shape' in kwargs):
      raise NotModelled(name)
    shp = shape_of(kwargs.get('shape', args[0] if args else None))
    if name == 'full':
      fill = kwargs.get('fill_value', args[1] if len(args) > 1 else None)
      if len(args) > 2:
        dtype = args[2]
    else:
      fill = 0 if name == 'zeros' else 1
      if len(args) > 1:
        dtype = args[1]
    if isinstance(fill, bool) or not isinstance(fill, (int, float)) and type(fill).__name__ != 'Fraction':
      raise NotModelled('fill value')
    kind = _int_kind(dtype) if dtype is not None else (None if name == 'full' else 'f')
    if kind is None and name == 'full':
      kind = 'i' if isinstance(fill, int) else 'f'
    if kind is None:
      raise NotModelled('dtype')
    if kind == 'i' and not isinstance(fill, int):
      fill = int(fill)
    return NdArr(shp, [fill] * _prod(shp), kind)
  if name == 'arange':
    if set(kwargs) - {'dtype'} or not 1 <= len(args) <= 3 or any(isinstance(a, bool) or not isinstance(a, int) for a in args):
      raise NotModelled('arange')
    r = list(range(*args))
    return NdArr((len(r),), r, 'i')
  if name == 'searchsorted':
    if set(kwargs) - {'side'} or len(args) != 2:
      raise NotModelled('searchsorted')
    a, v = args
    seq = list(a.data) if isinstance(a, NdArr) and a.ndim == 1 else (list(a) if isinstance(a, list) else None)
    if seq is None or isinstance(v, (list, NdArr)):
      raise NotModelled('searchsorted operands')
    right = kwargs.get('side', 'left') == 'right'
    lo, hi = 0, len(seq)   # numpy's binary search, also on input that is not sorted
    while lo < hi:
      mid = lo + ((hi - lo) >> 1)
      if (seq[mid] <= v) if right else (seq[mid] < v):
        lo = mid + 1
      else:
        hi = mid
    return lo
  raise NotModelled(name)


def np_call(name: str, args: list, kwargs: dict) -> Any:
  """numpy function `np.<name>` on arguments of which at least one is an NdArr."""
  if name == 'searchsorted':
    return np_create(name, args, kwargs)
  a0 = args[0] if args else None
  if name in ('min', 'amin', 'max', 'amax', 'sum'):
    f = {'min': BIN['minimum'], 'amin': BIN['minimum'], 'max': BIN['maximum'], 'amax': BIN['maximum'], 'sum': operator.add}[name]
    axis = kwargs.get('axis', args[1] if len(args) > 1 else None)
    return a0.reduce(f, axis, bool(kwargs.get('keepdims', False)))
  if name in ('left_shift', 'right_shift', 'bitwise_or', 'bitwise_and', 'bitwise_xor') and len(args) == 2:
    f = {'left_shift': operator.lshift, 'right_shift': operator.rshift, 'bitwise_or': operator.or_, 'bitwise_and': operator.and_, 'bitwise_xor': operator.xor}[name]
    r = NdArr.broadcast(f, args[0], args[1])
    if isinstance(r, NdArr):
      r.kind = 'i'
    return r
  if name == 'pad' and len(args) == 2 and set(kwargs) <= {'constant_values', 'mode'} and kwargs.get('mode', 'constant') == 'constant':
    fill = kwargs.get('constant_values', 0)
    widths = args[1]
    if isinstance(widths, int):
      widths = [(widths, widths)] * a0.ndim
    elif isinstance(widths, (list, tuple)) and len(widths) == 2 and all(isinstance(w, int) for w in widths):
      widths = [tuple(widths)] * a0.ndim
    widths = [tuple(w) for w in widths]
    if len(widths) != a0.ndim or not isinstance(fill, (int, float)) or any(len(w) != 2 or min(w) < 0 for w in widths):
      raise NotModelled('pad widths')
    new_shape = tuple(s_ + w[0] + w[1] for s_, w in zip(a0.shape, widths))
    out = NdArr(new_shape, [fill] * _prod(new_shape), a0.kind)
    for idx in itertools.product(*[range(s_) for s_ in a0.shape]):
      out.data[sum((i + w[0]) * st for i, w, st in zip(idx, widths, out._strides()))] = a0.at(idx)  # pylint: disable=protected-access
    return out
  if name == 'square' and len(args) == 1:
    return a0.map(lambda x: x * x)
  if name == 'mean' and len(args) == 1 and not kwargs:
    import fractions  # pylint: disable=g-import-not-at-top
    if not a0.data:
      raise NotModelled('mean of an empty array')
    tot = sum(a0.data)
    return tot / len(a0.data) if isinstance(tot, float) else fractions.Fraction(tot) / len(a0.data)
  if name == 'median' and len(args) == 1 and not kwargs:
    import fractions  # pylint: disable=g-import-not-at-top
    xs = sorted(a0.data)
    if not xs:
      raise NotModelled('median of an empty array')
    mid = len(xs) // 2
    if len(xs) % 2:
      return xs[mid]
    tot = xs[mid - 1] + xs[mid]
    return tot / 2 if isinstance(tot, float) else fractions.Fraction(tot) / 2
  if name in ('all', 'any') and len(args) == 1 and not (set(kwargs) - {'axis'}) and kwargs.get('axis') is None:
    return (all if name == 'all' else any)(bool(x) for x in a0.data)
  if name in ('abs', 'absolute'):
    return a0.map(abs)
  if name in ('rint', 'round', 'around'):
    return a0.map(lambda x: x if isinstance(x, int) else round(x))
  if name == 'reshape':
    return a0.reshape(kwargs.get('newshape', kwargs.get('shape', args[1] if len(args) > 1 else None)))
  if name == 'transpose':
    return a0.transpose(kwargs.get('axes', args[1] if len(args) > 1 else None))
  if name == 'moveaxis':
    return a0.moveaxis(args[1], args[2])
  if name == 'swapaxes':
    return a0.swapaxes(args[1], args[2])
  if name == 'expand_dims':
    return a0.expand_dims(kwargs.get('axis', args[1] if len(args) > 1 else None))
  if name == 'squeeze':
    return a0.squeeze(kwargs.get('axis', args[1] if len(args) > 1 else None))
  if name in BIN and len(args) == 2:
    return NdArr.broadcast(BIN[name], args[0], args[1])
  if name in ('array', 'asarray', 'copy', 'ascontiguousarray', 'float32', 'float64'):
    return NdArr(a0.shape, a0.data)
  if name == 'zeros_like':
    return a0.map(lambda x: 0)
  if name == 'ones_like':
    return a0.map(lambda x: 1)
  if name == 'shape':
    return a0.shape
  if name == 'ndim':
    return a0.ndim
  if name == 'clip' and len(args) == 3:
    lo, hi = args[1], args[2]
    return NdArr.broadcast(BIN['minimum'], NdArr.broadcast(BIN['maximum'], a0, lo), hi)
  raise NotModelled(f'np.{name} on arrays')


def method(arr: NdArr, attr: str, args: list, kwargs: dict) -> Any:
  if attr in ('mean', 'sum', 'min', 'max') and not args and not kwargs:
    return np_call(attr, [arr], {})
  if attr == 'tobytes' and not args and not kwargs:
    # one byte per element, two's complement: only for arrays known to hold 8-bit integers
    if arr.kind != 'i' or any(not isinstance(x, int) or not -128 <= x <= 255 for x in arr.data):
      raise NotModelled('tobytes of a non-8-bit array')
    return bytes(x & 0xFF for x in arr.data)
  if attr == 'reshape':
    return arr.reshape(args[0] if len(args) == 1 else tuple(args))
  if attr == 'transpose':
    return arr.transpose(None if not args else (args[0] if len(args) == 1 and not isinstance(args[0], int) else tuple(args)))
  if attr in ('flatten', 'ravel'):
    return arr.reshape((-1,))
  if attr == 'astype' and args:
    tname = (getattr(args[0], 'name', None) or '').split('.')[-1]
    bits = {'int8': 8, 'int16': 16, 'int32': 32, 'int64': 64, 'uint8': 8, 'uint16': 16, 'uint32': 32, 'uint64': 64}.get(tname)
    if bits is not None:
      lo, hi = (0, (1 << bits) - 1) if tname.startswith('u') else (-(1 << (bits - 1)), (1 << (bits - 1)) - 1)
      if tname.startswith('u') and arr.kind == 'i' and all(isinstance(x, int) for x in arr.data):
        # integer -> unsigned integer is defined in numpy: the value modulo 2^bits (bit manipulation relies on it)
        return NdArr(arr.shape, [x & ((1 << bits) - 1) for x in arr.data], 'i')
      for x in arr.data:
        if not lo <= x <= hi:
          raise OverflowError(f'{x} cast to {tname} wraps around')
      return NdArr(arr.shape, [int(x) for x in arr.data], 'i')
    full = getattr(args[0], 'name', None) or ''
    if full == 'dtype.i':
      return NdArr(arr.shape, [int(x) for x in arr.data], 'i')   # float -> integer dtype truncates
    if full == 'dtype.f' or tname in ('float16', 'float32', 'float64'):
      return NdArr(arr.shape, arr.data, 'f')
    return NdArr(arr.shape, arr.data, arr.kind)
  if attr in ('astype', 'copy'):
    return NdArr(arr.shape, arr.data)
  if attr == 'tolist':
    return arr.tolist()
  if attr in ('min', 'max', 'sum'):
    return np_call(attr, [arr] + list(args), kwargs)
  if attr == 'squeeze':
    return arr.squeeze(*args, **kwargs)
  if attr == 'item' and arr.size == 1:
    return arr.data[0]
  raise NotModelled(f'ndarray.{attr}')
