"""E2 - resolved call graph (annotation-driven; registry and dict dispatch)."""
from __future__ import annotations

import ast
import dataclasses
from typing import Optional

from sa import index
from sa import tables
from sa.consteval import Ref


@dataclasses.dataclass
class CallSite:
  caller: index.FuncInfo
  node: ast.Call
  callees: list[index.FuncInfo]
  kind: str  # resolved | external | unresolved | constructor
  name: str
  receiver_self: bool = False  # callee is a method invoked on an object
  ctor_of: Optional[index.ClassInfo] = None


class TypeEnv:
  """Local variable -> Sym for one function (flow-insensitive, single defs)."""

  def __init__(self, repo: index.Repo, func: index.FuncInfo, cg: 'CallGraph'):
    self.repo = repo
    self.func = func
    self.vars: dict[str, index.Sym] = {}
    self.fnvals: dict[str, list[index.FuncInfo]] = {}
    m = func.module
    if func.cls is not None and func.is_method and func.pos_params:
      first = func.pos_params[0]
      if func.is_classmethod:
        self.vars[first] = index.Sym('class', func.cls)
      else:
        self.vars[first] = index.Sym('instance', func.cls)
    outer = func.parent
    while outer is not None:
      oe = cg.type_env(outer)
      for k, v in oe.vars.items():
        self.vars.setdefault(k, v)
      for k, v in oe.fnvals.items():
        self.fnvals.setdefault(k, v)
      outer = outer.parent
    for p in func.params:
      name = p.lstrip('*')
      ann = func.param_annotation(name)
      if ann is not None and name not in self.vars:
        s = repo.annotation_type(m, ann)
        if s is not None:
          self.vars[name] = s
      d = func.param_default(name)
      if d is not None and isinstance(d, (ast.Name, ast.Attribute)):
        s = repo.resolve_expr(m, d)
        if s.kind == 'func':
          self.fnvals[name] = [s.obj]
    # nested functions
    for qn, fi in m.functions.items():
      if fi.parent is func:
        self.fnvals[fi.name] = [fi]
    assigned: dict[str, list[ast.expr]] = {}
    for n in _walk_own(func.node):
      if isinstance(n, ast.Assign) and len(n.targets) == 1 and isinstance(n.targets[0], ast.Name):
        assigned.setdefault(n.targets[0].id, []).append(n.value)
      elif isinstance(n, ast.AnnAssign) and isinstance(n.target, ast.Name):
        s = repo.annotation_type(m, n.annotation)
        if s is not None:
          self.vars[n.target.id] = s
        if n.value is not None:
          assigned.setdefault(n.target.id, []).append(n.value)
    for _ in range(2):
      for name, vals in assigned.items():
        if name in self.vars or len(vals) != 1:
          continue
        s = self.type_of(vals[0], cg)
        if s is not None:
          self.vars[name] = s
        fv = cg.function_values(func, vals[0], self)
        if fv:
          self.fnvals[name] = fv

  def type_of(self, expr: ast.expr, cg: 'CallGraph') -> Optional[index.Sym]:
    repo, m = self.repo, self.func.module
    if isinstance(expr, ast.Name):
      if expr.id in self.vars:
        return self.vars[expr.id]
      s = repo.resolve_name(m, expr.id)
      if s.kind in ('module', 'class', 'instance'):
        return s
      return None
    if isinstance(expr, ast.Attribute):
      base = self.type_of(expr.value, cg)
      if base is None:
        return None
      s = repo.resolve_attr(base, expr.attr)
      if s.kind in ('module', 'class', 'instance'):
        return s
      return None
    if isinstance(expr, ast.Call):
      f = expr.func
      if isinstance(f, (ast.Name, ast.Attribute)):
        base = None
        if isinstance(f, ast.Name):
          s = self.vars.get(f.id) or repo.resolve_name(m, f.id)
        else:
          base = self.type_of(f.value, cg)
          s = repo.resolve_attr(base, f.attr) if base is not None else None
        if s is None:
          return None
        if s.kind == 'class':
          return index.Sym('instance', s.obj)
        if s.kind in ('func', 'bound'):
          fi: index.FuncInfo = s.obj
          if fi.node.returns is not None:
            return repo.annotation_type(fi.module, fi.node.returns)
      return None
    return None


def _walk_own(node):
  stack = list(ast.iter_child_nodes(node))
  while stack:
    n = stack.pop()
    yield n
    if isinstance(n, (ast.FunctionDef, ast.AsyncFunctionDef, ast.ClassDef, ast.Lambda)):
      continue
    stack.extend(ast.iter_child_nodes(n))


EXTERNAL_ROOTS = {
    'np', 'numpy', 'copy', 're', 'json', 'logging', 'os', 'math', 'collections',
    'dataclasses', 'enum', 'functools', 'flatbuffer_utils', 'schema_py_generated',
    'gfile', 'tfl', 'immutabledict', 'typing', 'cast', '_os_path', '_inspect',
    '_sys', 'itertools',
}
BUILTINS = {
    'len', 'range', 'enumerate', 'zip', 'list', 'dict', 'set', 'tuple', 'min',
    'max', 'sum', 'abs', 'isinstance', 'int', 'float', 'str', 'bool', 'bytes',
    'bytearray', 'sorted', 'reversed', 'iter', 'next', 'print', 'type',
    'frozenset', 'any', 'all', 'map', 'filter', 'repr', 'hash', 'id', 'round',
    'getattr', 'setattr', 'hasattr', 'super', 'open', 'ValueError',
    'RuntimeError', 'TypeError', 'KeyError', 'FileExistsError', 'IOError',
    'NotImplementedError', 'cast', 'vars', 'divmod',
}


class CallGraph:

  def __init__(self, ctx):
    self.ctx = ctx
    self.repo: index.Repo = ctx.repo
    self._envs: dict[str, TypeEnv] = {}
    self.sites: dict[str, list[CallSite]] = {}
    self.callers: dict[str, list[CallSite]] = {}
    self._registry_funcs = None
    self._building: set[str] = set()
    for f in self.repo.all_functions():
      self.sites[f.fq] = self._sites_of(f)
    self._resolve_late()
    for fq, sites in self.sites.items():
      for s in sites:
        for c in s.callees:
          self.callers.setdefault(c.fq, []).append(s)

  CONTAINER_METHODS = {
      'append', 'extend', 'insert', 'remove', 'pop', 'clear', 'update', 'add',
      'discard', 'items', 'keys', 'values', 'get', 'setdefault', 'copy', 'sort',
      'reverse', 'index', 'count', 'join', 'split', 'strip', 'lower', 'upper',
      'format', 'encode', 'decode', 'read', 'write', 'flatten', 'astype',
      'tobytes', 'tolist', 'reshape', 'item', 'mean', 'startswith', 'endswith',
  }

  def _resolve_late(self):
    """Second pass: calls through function-typed parameters (values passed
    at the call sites of the enclosing function) and methods on untyped
    receivers whose name is unique to repository classes."""
    by_method: dict[str, list[index.FuncInfo]] = {}
    for f in self.repo.all_functions():
      if f.cls is not None and f.parent is None:
        by_method.setdefault(f.name, []).append(f)
    for _ in range(3):
      changed = False
      for fq, sites in self.sites.items():
        f = self.repo.func(fq)
        for s in sites:
          if s.callees:
            continue
          fexpr = s.node.func
          if s.kind == 'unresolved' and isinstance(fexpr, ast.Name) and fexpr.id in [p.lstrip('*') for p in f.params]:
            vals = self.param_function_values(f, fexpr.id)
            if vals:
              s.callees = vals
              s.kind = 'resolved'
              changed = True
          elif s.kind == 'external-method' and isinstance(fexpr, ast.Attribute):
            if fexpr.attr in by_method and fexpr.attr not in self.CONTAINER_METHODS and not fexpr.attr.startswith('__'):
              s.callees = list(by_method[fexpr.attr])
              s.kind = 'resolved-by-name'
              s.receiver_self = True
              changed = True
      if not changed:
        break

  def param_function_values(self, f: index.FuncInfo, param: str) -> list[index.FuncInfo]:
    out: list[index.FuncInfo] = []
    env = self.type_env(f)
    if param in env.fnvals:
      out += env.fnvals[param]
    pos = f.pos_params
    for gq, sites in self.sites.items():
      g = self.repo.func(gq)
      for s in sites:
        if f not in s.callees:
          continue
        arg = None
        for kw in s.node.keywords:
          if kw.arg == param:
            arg = kw.value
        if arg is None and param in pos:
          i = pos.index(param)
          if s.receiver_self or (f.cls is not None and f.is_method and s.kind != 'constructor' and isinstance(s.node.func, ast.Attribute)):
            i -= 1
          if 0 <= i < len(s.node.args):
            arg = s.node.args[i]
        if arg is not None:
          for v in self.function_values(g, arg, self.type_env(g)):
            if v not in out:
              out.append(v)
    return out

  def type_env(self, f: index.FuncInfo) -> TypeEnv:
    if f.fq not in self._envs:
      if f.fq in self._building:
        return TypeEnv.__new__(TypeEnv)  # pragma: no cover
      self._building.add(f.fq)
      self._envs[f.fq] = TypeEnv(self.repo, f, self)
      self._building.discard(f.fq)
    return self._envs[f.fq]

  # ------------------------------------------------------- function values
  def registry_funcs(self, slot: str) -> list[index.FuncInfo]:
    if self._registry_funcs is None:
      reg = tables.registry(self.ctx)
      out = {'init': [], 'calibrate': [], 'materialize': []}
      for ops in reg.values():
        for entry in ops.values():
          for k, ref in entry.items():
            if isinstance(ref, Ref) and ref.kind == 'func':
              fi = self.repo.func(ref.fq)
              if fi not in out[k]:
                out[k].append(fi)
      self._registry_funcs = out
    return self._registry_funcs[slot]

  def function_values(self, func: index.FuncInfo, expr: ast.expr,
                      env: Optional[TypeEnv]) -> list[index.FuncInfo]:
    """Functions an expression may evaluate to (for calls through values)."""
    m = func.module
    if isinstance(expr, ast.Name):
      if env is not None and expr.id in env.fnvals:
        return env.fnvals[expr.id]
      s = self.repo.resolve_name(m, expr.id)
      if s.kind in ('func', 'bound'):
        return [s.obj]
      return []
    if isinstance(expr, ast.Attribute):
      s = self._resolve_callee_sym(func, expr, env)
      if s is not None and s.kind in ('func', 'bound'):
        return [s.obj]
      return []
    if isinstance(expr, ast.Call):
      s = self._resolve_callee_sym(func, expr.func, env)
      if s is not None and s.kind in ('func', 'bound'):
        fi: index.FuncInfo = s.obj
        if fi.fq == 'algorithm_manager_api:AlgorithmManagerApi.get_quantization_func':
          mode = ast.unparse(expr.args[2]) if len(expr.args) > 2 else ''
          if mode.endswith('CALIBRATE'):
            return self.registry_funcs('calibrate')
          if mode.endswith('MATERIALIZE'):
            return self.registry_funcs('materialize')
          return self.registry_funcs('calibrate') + self.registry_funcs('materialize')
        if fi.fq == 'algorithm_manager_api:AlgorithmManagerApi.get_init_qsv_func':
          return self.registry_funcs('init')
        # functions returned by name
        outs = []
        for n in _walk_own(fi.node):
          if isinstance(n, ast.Return) and isinstance(n.value, (ast.Name, ast.Attribute)):
            rs = self.repo.resolve_expr(fi.module, n.value)
            if rs.kind == 'func':
              outs.append(rs.obj)
        return outs
      return []
    if isinstance(expr, ast.Subscript):
      # dict-literal dispatch stored on self in __init__
      base = expr.value
      if isinstance(base, ast.Attribute) and isinstance(base.value, ast.Name) and base.value.id == 'self' and func.cls is not None:
        ent = func.cls.init_attrs.get(base.attr)
        if ent and isinstance(ent[1], ast.Dict):
          outs = []
          for v in ent[1].values:
            rs = self.repo.resolve_expr(func.cls.module, v)
            if rs.kind == 'func':
              outs.append(rs.obj)
          return outs
    return []

  def dict_dispatch(self, cls: index.ClassInfo, attr: str) -> dict[str, index.FuncInfo]:
    ent = cls.init_attrs.get(attr)
    out = {}
    if ent and isinstance(ent[1], ast.Dict):
      for k, v in zip(ent[1].keys, ent[1].values):
        rs = self.repo.resolve_expr(cls.module, v)
        if rs.kind == 'func':
          out[ast.unparse(k).split('.')[-1]] = rs.obj
    return out

  # -------------------------------------------------------------- resolution
  def _resolve_callee_sym(self, func, fexpr, env) -> Optional[index.Sym]:
    repo, m = self.repo, func.module
    if isinstance(fexpr, ast.Name):
      if env is not None and fexpr.id in env.vars:
        return env.vars[fexpr.id]
      return repo.resolve_name(m, fexpr.id)
    if isinstance(fexpr, ast.Attribute):
      base = env.type_of(fexpr.value, self) if env is not None else None
      if base is None:
        base_s = repo.resolve_expr(m, fexpr.value) if isinstance(fexpr.value, (ast.Name, ast.Attribute)) else None
        if base_s is None or (base_s.kind == 'external'):
          return index.Sym('external', ast.unparse(fexpr))
        base = base_s
      return repo.resolve_attr(base, fexpr.attr)
    return None

  def _sites_of(self, f: index.FuncInfo) -> list[CallSite]:
    env = self.type_env(f)
    out = []
    for n in _walk_own(f.node):
      if not isinstance(n, ast.Call):
        continue
      name = ast.unparse(n.func)[:80]
      fexpr = n.func
      callees: list[index.FuncInfo] = []
      kind = 'unresolved'
      ctor = None
      recv = False
      if isinstance(fexpr, ast.Name) and fexpr.id in env.fnvals:
        callees = env.fnvals[fexpr.id]
        kind = 'resolved'
      elif isinstance(fexpr, (ast.Call, ast.Subscript)):
        callees = self.function_values(f, fexpr, env)
        kind = 'resolved' if callees else 'unresolved'
      else:
        s = self._resolve_callee_sym(f, fexpr, env)
        if s is None:
          kind = 'unresolved'
        elif s.kind == 'func':
          callees = [s.obj]
          kind = 'resolved'
          recv = isinstance(fexpr, ast.Attribute) and s.obj.cls is not None and s.obj.is_method and not s.obj.is_classmethod and not self._is_class_expr(f, fexpr.value, env)
        elif s.kind == 'bound':
          callees = [s.obj]
          kind = 'resolved'
          recv = True
        elif s.kind == 'class':
          ctor = s.obj
          kind = 'constructor'
          for mn in ('__init__', '__post_init__'):
            if mn in ctor.methods:
              callees.append(ctor.methods[mn])
        elif s.kind == 'external':
          root = str(s.obj).split('.')[0].split('(')[0]
          if isinstance(fexpr, ast.Name) and fexpr.id in BUILTINS:
            kind = 'external'
          elif root in EXTERNAL_ROOTS or str(s.obj).split('.')[0] in EXTERNAL_ROOTS:
            kind = 'external'
          elif isinstance(fexpr, ast.Name):
            kind = 'external' if fexpr.id in BUILTINS else 'unresolved'
          else:
            kind = 'external-method'
        else:
          kind = 'unresolved'
      out.append(CallSite(f, n, callees, kind, name, recv, ctor))
    out.sort(key=lambda s: (s.node.lineno, s.node.col_offset))
    return out

  def _is_class_expr(self, f, expr, env) -> bool:
    t = env.type_of(expr, self)
    return t is not None and t.kind in ('class', 'module')

  # ------------------------------------------------------------ reachability
  def reachable(self, roots: list[str]) -> dict[str, list[str]]:
    """fq -> call chain (list of fq) from one of the roots."""
    chains: dict[str, list[str]] = {}
    queue = []
    for r in roots:
      chains[r] = [r]
      queue.append(r)
    while queue:
      x = queue.pop(0)
      for s in self.sites.get(x, []):
        for c in s.callees:
          if c.fq not in chains:
            chains[c.fq] = chains[x] + [c.fq]
            queue.append(c.fq)
      # nested functions are reachable with their parent
      fx = self.repo.func(x)
      for fi in fx.module.functions.values():
        if fi.parent is fx and fi.fq not in chains:
          chains[fi.fq] = chains[x] + [fi.fq]
          queue.append(fi.fq)
    return chains

  def stats(self) -> dict[str, int]:
    out = {'resolved': 0, 'constructor': 0, 'external': 0, 'external-method': 0, 'unresolved': 0}
    for sites in self.sites.values():
      for s in sites:
        out[s.kind] = out.get(s.kind, 0) + 1
    return out


def get(ctx) -> CallGraph:
  return ctx.cached('callgraph', lambda: CallGraph(ctx))
