"""Construction rules that are ADVISORY.

A construction rule recognises how the repository spells something (which
statement stores which field, which loop guards which call). Round 14 gave
sub-agents the opposite task of the earlier rounds - refactor the anchored files
without changing behaviour (helpers extracted, loops merged, dict.get,
dataclasses.replace, comprehensions; suite passes, quantized models identical
on 3 700 model x recipe pairs) - and the rules below reported on those trees
although the property holds. Every clause they stand for is also decided on
values by a table or simulation (named on the right), which stayed silent on
the refactored trees and still reports every seeded change and catalogue
variant. So these rules no longer decide: a failed obligation is printed as a
`NOTE` (with the same diagnosis) and recorded in the evidence, but it is neither
a VIOLATION nor an analysis error. `<id>c` names the construction part of a
rule whose value part keeps deciding under `<id>`.
"""

ADVISORY = {
    'C01.R3': 'shape of the inserted operator / tensor -> graph rewrite simulation C01.R15, pipeline C01.R16',
    'C01.R6': 'sentinel -1 guard spelling -> C01.R12 / R14 / R15 run the -1 consumer through the real code',
    'C02.R2': 'rewiring store spelling -> graph rewrite simulation C02.R7',
    'C02.R3': 'output rewiring guard spelling -> C02.R7 (graph outputs covered / not covered), C02.R8 signature table',
    'C03.R3': 'no-quantize branch spelling -> plan simulation C03.R12, pipeline C03.R14',
    'C03.R6c': 'bias constness spelling -> operator sweep C03.R16 (bias INT32 under static range only)',
    'C03.R9': 'rewire-all-occurrences spelling -> graph rewrite simulation C03.R11 (repeated operands)',
    'C04.R2c': 'where the fixed parameters are attached -> C04.R10 fixed-range statistics round trip',
    'C04.R4': 'bias operand spelling -> C04.R13 end-to-end constant parameters, C17.R8 bias law',
    'C04.R5': 'field-by-field copy into the flatbuffer -> pipeline simulation (types and parameters go together), C05.R10',
    'C05.R4': 'buffer write spelling -> C05.R10 / R11 (constant carries its quantized data)',
    'C05.R8': 'path shape of _get_tensor_quant_params -> C05.R11 numeric table',
    'C08.R2': 'support check once per rule (spelling) -> resolution tables C11.R2 / R3, C13.R6 value part',
    'C11.R4': 'same as C08.R2',
    'C13.R6': 'same as C08.R2',
    'C09.R3': 'once-per-sample set spelling -> calibration simulation C09.R11',
    'C09.R10': 'selection-loop protocol spelling -> selection simulation C10.R7 / R8',
    'C10.R2': 'selection-loop protocol spelling -> selection simulation C10.R7 / R8, operator sweep (op codes >= 127)',
    'C10.R1c': 'scope builder call spelling -> scope table C10.R1, selection simulation C10.R7',
    'C15.R3': 'idempotent overwrite spelling -> sharing simulation C15.R8, tied constants C15.R10',
    'C19.R6': 'shared-table access spelling -> C19.R12 append-only tables, C19.R13 independence',
    'C04.R3': 'batch-matmul dimension spelling -> C04.R11 true per-channel statistics (adj_y both ways)',
    'C04.R7': 'zp / scale formulas as text -> parameter laws C17.R12, scalar tables C17.R11, C04.R13',
    'C17.R2': 'zp / scale formulas as text -> parameter laws C17.R12, scalar tables C17.R11',
    'C17.R1': 'round-before-cast spelling -> scalar quantize table C17.R11 (exact ties, saturation)',
    'C05.R5': 'round-before-cast spelling -> C05.R11 numeric table, C17.R11',
    'C17.R7': 'round / clip / cast chain as text -> C17.R11 scalar table (a cast that wraps is an OverflowError outcome)',
    'C05.R7': 'round / clip / cast chain as text -> C05.R11 numeric table',
    'C17.R9': 'rank fix-up spelling -> C05.R11 / C04.R13 per-channel numeric tables',
    'C05.R6': 'rank fix-up spelling -> C05.R11 per-channel numeric table',
    'C08.R5': 'empty-consumer guard spelling -> vertical-optimisation table C08.R6 = C03.R4, pipeline C08.R8',
    'C15.R4': 'classification spelling -> sharing simulation C15.R8, tied constants C15.R10',
    'C15.R5': 'compatibility comparison spelling -> compatibility decision table C15.R5 (value part), C15.R8',
    'C16.R3': 'placeholder statements -> layout table C16.R6',
    'C16.R4': 'constant-map loop spelling -> layout table C16.R6 (total == recorded bytes)',
    'C16.R5': 'threshold comparison spelling -> C16.R5 value part',
    'C18.R2': 'pop-partition statements -> validation simulation C18.R9 (every tensor in exactly one group)',
    'C18.R6': 'dequantize flag spelling -> C18.R9',
    'C18.R7': 'metric formulas as text -> C18.R9 (metric order), metric functions themselves are out of the interpreter\'s reach',
    'C19.R1': 'instruction field spelling -> graph-info tables C19.R1 (value part), C19.R13',
    'C17.R8': 'only when the bias function is not recognisable -> bias law on values C04.R14 / R15',
    'C04.R4b': 'same as C17.R8',
    'C18.R1': 'only when compare_model is not recognisable -> validation simulation C18.R9',
    'C18.R3': 'same as C18.R1',
    'C09.R4': 'min / max key spelling -> calibration simulation C09.R11',
    'C03.R2': 'dtype filter halves as text -> operand selection table (C03.R2 value part), operator sweep (int32 operands untouched)',
    'C19.R5': 'GraphInfo construction spelling -> C19.R13 independence through the whole pipeline',
    'C10.R3': 'subgraph index spelling -> signature -> subgraph table C10.R9',
    'C09.R2': 'fold keys as text -> calibration simulation C09.R11 (moving average, exact)',
    'C15.R1': 'group scan spelling -> sharing simulation C15.R8, tied constants C15.R10',
    'C01.R9': 'same as C15.R1',
    'C01.R2': 'position of the validity check as text -> C01.R16 pipeline (types and parameters go together), C15.R8',
}


# Only the obligations that were SEEN to report on a behaviour-preserving refactoring are advisory; the other
# obligations of the same rule keep deciding. Keyed by rule id -> prefixes of the diagnosis text ('*' = every
# obligation of the rule, used where the whole rule is one spelling test).
_SEL = ['the op key must be', 'operators with unknown op codes must be skipped', '~: an operator can pass through the loop', '~: the operator loop must query the recipe exactly once',
        'the resolved algorithm must be compared']
ADVISORY_OBLIGATIONS = {
    'C01.R3': ['the inserted operator must read exactly', 'the new tensor must copy the shape', 'the operator must be inserted into the instruction'],
    'C01.R6': ['`'],
    'C02.R2': ['*'],
    'C02.R3': ['subgraph.outputs is rewired although', 'only the output entry equal to the source tensor', 'graph outputs must be copied before the transformation', 'the output must be redirected to the new tensor'],
    'C03.R3': ['cannot find the unknown-op', 'inputs must be filed as consumers', 'no-quant params must cover', 'the unknown-op-code and the NO_QUANTIZE branch', 'the only operand skipped by the no-quant path', 'no-quant params no longer carry [NO_QUANTIZE]'],
    'C03.R6c': ['bias is treated as a constant under', 'bias params must be built with'],
    'C03.R9': ['*'],
    'C04.R2c': ['*'],
    'C04.R4': ['bias scale must be derived from the parameters of'],
    'C04.R5': ['None.', 'flatbuffer_quantization.', 'the dimension may only be skipped', 'the dtype of the instruction', 'the parameters object must be attached', 'the quantized dimension is not written', 'the UniformQuantParams branch was not found'],
    'C05.R4': ['buffer 0 (the shared empty buffer)', 'flatbuffer field ', 'the buffer must only be written when',
               # round 18 (r18-C05: the byte conversion moved into a helper `_to_flat_bytes`); the value is decided by C05.R13
               'the stored bytes must be the precomputed'],
    'C05.R8': ['expected blockwise / plain paths', 'the result must be a UniformQuantParams', 'the returned params must carry', 'the content that is quantized must be'],
    'C08.R2': ['resolution must call the support check exactly once'],
    'C11.R4': ['resolution must call the support check exactly once'],
    'C13.R6': ['resolution must call the support check exactly once'],
    'C09.R3': ['the names returned by _update_qsvs'],
    'C09.R10': _SEL,
    'C10.R2': _SEL,
    'C10.R1c': ['*'],
    'C15.R3': ['buffer 0 (the shared empty buffer)', 'flatbuffer field ', 'the buffer must only be written when',
               # round 18 (r18-C05: the byte conversion moved into a helper `_to_flat_bytes`); the value is decided by C05.R13
               'the stored bytes must be the precomputed'],
    'C19.R6': ['tensor/operator lists of another object', 'the new tensor must be added to', 'transformations must receive the model-wide'],
    # second set of refactorings (r15: C05, C12, C16, C17, C18, C19 files)
    'C04.R3': ['batch-matmul quantized dimension for adj_y'],
    'C04.R7': ['*'],
    'C17.R2': ['*'],
    'C17.R1': ['~is cast without rounding'],
    'C05.R5': ['~is cast without rounding'],
    'C17.R7': ['*'],
    'C05.R7': ['*'],
    'C17.R9': ['scale and zero point must both be expanded', 'the axes to expand are no longer'],
    'C05.R6': ['scale and zero point must both be expanded', 'the axes to expand are no longer'],
    'C08.R5': ['the producer rule is kept although all its consumers were taken over', 'the last producer rule must be popped from the producer list'],
    'C15.R4': ['ADD_DEQUANTIZE quantizes the tensor but', 'NO_QUANTIZE must count as unquantized', 'QUANTIZE_TENSOR quantizes the tensor but'],
    'C15.R5': ['producer pair, both consumer lists internally'],
    'C16.R3': ['*'],
    'C16.R4': ['the total constant size must be accumulated', 'the constant of a buffer must be looked up with the enumerating index'],
    'C16.R5': ['sizes above the threshold must take the large-model path'],
    'C18.R2': ['*'],
    'C18.R6': ['dequantization must apply exactly to quantized tensors'],
    'C18.R7': ['*'],
    'C19.R1': ['tensor id and producer of an instruction must come from', 'the instructions of a tensor must carry the subgraph id recorded'],
    # no advisory obligation, but "cannot recognise the function" (an AnalysisError / a lost subject of these rules) is a note
    'C17.R8': [], 'C04.R4b': [], 'C18.R1': [], 'C18.R3': [], 'C09.R4': [],
    # third set of refactorings (r16: C04, C09, C13, C15 files)
    'C03.R2': ['the input and output halves of the dtype filter differ'],
    'C19.R5': ['GraphInfo must pair the loop subgraph'],
    'C10.R3': ['calibrate() no longer derives the subgraph index from the signature'],
    'C09.R2': ['the min statistic is not updated', 'the max statistic is not updated'],
    'C15.R1': ['the predicate must compare the recorded results of the first sharer', 'only groups with a single entry may be skipped'],
    'C01.R9': ['the predicate must compare the recorded results of the first sharer', 'only groups with a single entry may be skipped'],
    # fourth set (r17: C02, C08, C11, C14 files)
    'C01.R2': ['the check runs before the final instruction list is attached'],
}


def is_advisory(rule: str, message: str) -> bool:
  pats = ADVISORY_OBLIGATIONS.get(rule)
  if pats is None:
    return False
  m = message.lstrip()
  return any(p == '*' or m.startswith(p) or (p.startswith('~') and p[1:] in m) for p in pats)
