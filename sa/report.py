"""Reporting protocol: rule bookkeeping, known findings, evidence, exit codes."""
from __future__ import annotations

import ast
import dataclasses
import json
import os
import re
import time
from typing import Any, Optional

from sa import advisory
from sa import consteval
from sa import index

VERIF = os.path.dirname(os.path.dirname(os.path.abspath(__file__)))
KNOWN_FINDINGS = os.path.join(VERIF, 'known_findings.txt')


def norm_stmt(node_or_text) -> str:
  """Normalised text of a construct: unparse, collapse whitespace."""
  if isinstance(node_or_text, ast.AST):
    try:
      txt = ast.unparse(node_or_text)
    except Exception:  # pylint: disable=broad-except
      txt = ast.dump(node_or_text)
  else:
    txt = str(node_or_text)
  txt = re.sub(r'\s+', ' ', txt).strip()
  return txt[:160]


@dataclasses.dataclass
class Violation:
  prop: str
  rule: str
  where: str  # file:line
  scope: str  # module:function or file
  construct: str  # normalised construct text
  message: str
  path: Optional[list[str]] = None

  @property
  def key(self) -> str:
    return f'{self.scope}::{self.construct}'

  def to_json(self) -> dict[str, Any]:
    return dataclasses.asdict(self) | {'key': self.key}


@dataclasses.dataclass
class RuleStat:
  title: str = ''
  instances: int = 0
  floor: int = 0
  obligations: int = 0
  discharged: int = 0
  unresolved: int = 0
  advisory_failed: int = 0
  samples: list = dataclasses.field(default_factory=list)
  exhaustive: bool = False


_OUTCOME = re.compile(r"""['"](return|raise)\b""")


def _undecided(message: str) -> bool:
  """Does a failed obligation say "the run was not decided" rather than "the result is wrong"? A run that ends in ONE
  raise is decided (a refusal); several outcomes, an opaque result or no outcome at all are not."""
  if 'undecided in ' in message:
    return True
  if 'not decided' not in message:
    return False
  kinds = _OUTCOME.findall(message)
  if len(kinds) == 1 and kinds[0] == 'raise':
    # one raise is a decided refusal - unless it is the kind of error a harness produces when a private function it
    # drives with hand-made arguments changed its parameters (a refactoring): that says nothing about the property
    return bool(re.search(r"raise (AttributeError|TypeError|NameError)\b", message))
  return True


class Ctx:
  """Per-run context handed to every rule."""

  def __init__(self, prop: str, repo: index.Repo, tier: str = 'quick',
               seed: int = 0, quiet: bool = False):
    self.prop = prop
    self.repo = repo
    self.ev = consteval.Evaluator(repo)
    self.tier = tier
    self.seed = seed
    self.quiet = quiet
    self.rules: dict[str, RuleStat] = {}
    self.violations: list[Violation] = []
    self.assumptions: list[str] = []
    self.notes: list[str] = []
    self.extra: dict[str, Any] = {}
    self._cache: dict[str, Any] = {}

  # ------------------------------------------------------------------ rules
  def rule(self, rule: str, title: str = '', floor: int = 0) -> RuleStat:
    rs = self.rules.setdefault(rule, RuleStat())
    if title:
      rs.title = title
    if floor:
      rs.floor = floor
    return rs

  def instance(self, rule: str, n: int = 1):
    self.rule(rule).instances += n

  def check(self, rule: str, ok: bool, where, scope, construct, message,
            path=None) -> bool:
    """One obligation of `rule`; records a violation when it does not hold."""
    rs = self.rule(rule)
    rs.obligations += 1
    if ok:
      rs.discharged += 1
      return True
    if advisory.is_advisory(rule, str(message)):
      # a construction obligation that no longer decides (sa/advisory.py): the diagnosis is shown as a NOTE
      rs.obligations -= 1
      rs.advisory_failed += 1
      sc = scope.fq if isinstance(scope, index.FuncInfo) else getattr(scope, 'short', scope)
      wh = scope.loc(where) if isinstance(scope, index.FuncInfo) and not isinstance(where, str) else where
      notes = getattr(self, 'notes', None)
      if notes is None:
        notes = self.notes = []
      if sum(1 for n_ in notes if n_.startswith(f'NOTE property={self.prop} rule={rule} ')) < 3:
        notes.append(f'NOTE property={self.prop} rule={rule} {wh if isinstance(wh, str) else ""} [{sc}] {str(message)[:220]} (construction rule, advisory: {advisory.ADVISORY[rule][:80]})')
      return False
    if _undecided(str(message)) or 'Opaque(' in str(message) or 'Opaque(' in (construct if isinstance(construct, str) else ''):
      # The interpreter could not follow the code to ONE outcome (a construct it does not model): that is "cannot
      # decide", not "the property is broken". It is reported as an analysis error of this rule (exit 2 unless another
      # rule reports a violation), never as a VIOLATION - a correct rewrite in an unmodelled style must not raise an alarm.
      rs.obligations -= 1
      rs.unresolved += 1
      if isinstance(scope, index.FuncInfo):
        where = scope.loc(where) if not isinstance(where, str) else where
        scope = scope.fq
      text = f'{rule} [{scope}] {norm_stmt(construct)[:120]}: {str(message)[:300]}'
      errs = getattr(self, 'analysis_errors', None)
      if errs is None:
        errs = self.analysis_errors = []
      if not any(e.startswith(f'{rule} [') for e in errs):   # one line per rule is enough
        errs.append(text)
      return False
    self.violate(rule, where, scope, construct, message, path, count=False)
    return False

  def violate(self, rule, where, scope, construct, message, path=None,
              count=True):
    if count:
      self.rule(rule).obligations += 1
    if isinstance(scope, index.FuncInfo):
      if not isinstance(where, str):
        where = scope.loc(where)
      scope = scope.fq
    elif isinstance(scope, index.Module):
      if not isinstance(where, str):
        where = f'{scope.rel}:{getattr(where, "lineno", 0)}'
      scope = scope.short
    v = Violation(self.prop, rule, str(where), str(scope), norm_stmt(construct),
                  message, path)
    for old in self.violations:
      if old.rule == v.rule and old.key == v.key and old.message == v.message:
        return
    self.violations.append(v)

  def sample(self, rule: str, obj, limit: int = 3):
    rs = self.rule(rule)
    if len(rs.samples) < limit:
      rs.samples.append(obj)

  def unresolved(self, rule: str, n: int = 1):
    self.rule(rule).unresolved += n

  def assume(self, text: str):
    if text not in self.assumptions:
      self.assumptions.append(text)

  def note(self, text: str):
    self.notes.append(text)

  def cached(self, key: str, factory):
    if key not in self._cache:
      self._cache[key] = factory()
    return self._cache[key]

  def check_floors(self):
    for name, rs in self.rules.items():
      if name in advisory.ADVISORY_OBLIGATIONS:
        continue   # its construction obligations are advisory; a lost subject is not an analysis error
      if rs.instances < rs.floor:
        raise index.AnalysisError(
            f'{name}: found {rs.instances} rule subjects, fewer than the '
            f'{rs.floor} confirmed by hand - the rule would pass vacuously'
        )


# ------------------------------------------------------------ known findings
def load_known_findings(path: str = KNOWN_FINDINGS):
  known = []
  fixed = []
  if not os.path.exists(path):
    return known, fixed
  with open(path, 'r', encoding='utf-8') as f:
    for line in f:
      line = line.strip()
      if not line or line.startswith('#'):
        continue
      if line.startswith('known:'):
        m = re.match(
            r'known:\s+property=(\S+)\s+rule=(\S+)\s+key=(.*?)\s+--\s+(.*)$', line
        )
        if not m:
          raise index.AnalysisError(f'malformed known-finding line: {line}')
        known.append(
            {'prop': m.group(1), 'rule': m.group(2), 'key': m.group(3),
             'what': m.group(4)}
        )
      elif line.startswith('fixed:'):
        fixed.append(line)
      else:
        raise index.AnalysisError(f'malformed known-findings line: {line}')
  return known, fixed


def finish(ctx: Ctx, t0: float, evidence_dir: Optional[str] = None,
           write: bool = True, explanation: str = '') -> int:
  """Prints the verdict, writes evidence and replay files, returns exit code."""
  try:
    ctx.check_floors()
  except index.AnalysisError as e:
    if not ctx.violations:
      raise
    # a rule lost its subjects AND other rules report: the violations stand
    print(f'ANALYSIS-ERROR property={ctx.prop} (floor, other rules report below): {e}')
  known, _ = load_known_findings()
  known_hits = []
  fresh = []
  for v in ctx.violations:
    hit = None
    for k in known:
      if k['prop'] == v.prop and k['rule'] == v.rule and k['key'] == v.key:
        hit = k
        break
    if hit:
      known_hits.append((v, hit))
    else:
      fresh.append(v)
  out_dir = os.path.join(VERIF, 'out', ctx.prop)
  lines = []
  for v, k in known_hits:
    lines.append(
        f'KNOWN-FINDING: property={v.prop} {v.rule} {v.key} -- {k["what"]}'
    )
  if fresh and write:
    os.makedirs(out_dir, exist_ok=True)
  shown: dict[tuple, int] = {}
  for i, v in enumerate(fresh):
    gk = (v.rule, v.scope, v.message[:60])
    shown[gk] = shown.get(gk, 0) + 1
    if shown[gk] > 3:
      if shown[gk] == 4:
        lines.append(f'{v.where} {v.rule} [{v.scope}] ... further rows with the same diagnosis are only counted')
      continue
    lines.append(f'{v.where} {v.rule} [{v.scope}] {v.message}')
    lines.append(f'    construct: {v.construct}')
    if v.path:
      for step in v.path:
        lines.append(f'    via: {step}')
    replay = os.path.join(out_dir, f'{i}.json')
    if write:
      with open(replay, 'w', encoding='utf-8') as f:
        json.dump(v.to_json() | {'repo_digest': ctx.repo.digest()}, f, indent=1)
    lines.append(f'VIOLATION property={v.prop} replay={replay}')
  if not ctx.quiet:
    for name, rs in sorted(ctx.rules.items()):
      print(
          f'  {name:<8} {rs.title[:70]:<70} subjects={rs.instances:<4} '
          f'obligations={rs.discharged}/{rs.obligations}'
          + (f' unresolved={rs.unresolved}' if rs.unresolved else '')
          + (' advisory' if name in advisory.ADVISORY else '')
          + (f' advisory-notes={rs.advisory_failed}' if rs.advisory_failed else '')
          + (' exhaustive' if rs.exhaustive else '')
      )
    for l in getattr(ctx, 'notes', []):
      print(l)
    for l in lines:
      print(l)
  obligations = sum(r.obligations for r in ctx.rules.values())
  discharged = sum(r.discharged for r in ctx.rules.values())
  if write:
    evidence_dir = evidence_dir or os.path.join(VERIF, 'evidence')
    os.makedirs(evidence_dir, exist_ok=True)
    samples = []
    for name, rs in sorted(ctx.rules.items()):
      for s in rs.samples:
        samples.append({'rule': name, 'instance': s})
    if not samples:
      samples = [{'rule': n, 'instance': rs.title} for n, rs in ctx.rules.items()][:3]
    cov = {
        'explanation': explanation or 'static analysis of the source tree',
        'obligations': obligations,
        'discharged': discharged,
        'checker_cmd': f'/venv/bin/python -m sa.check {ctx.prop} --tier {ctx.tier}',
        'trusted_base': [
            'CPython ast parser', 'the sa/ engines', 'oracle tables in sa/oracles.py',
        ],
        'rules': {
            n: {
                'title': rs.title, 'subjects': rs.instances, 'floor': rs.floor,
                'obligations': rs.obligations, 'discharged': rs.discharged,
                'unresolved': rs.unresolved, 'exhaustive': rs.exhaustive,
                'advisory_obligations': advisory.ADVISORY_OBLIGATIONS.get(n), 'advisory_notes': rs.advisory_failed,
            }
            for n, rs in sorted(ctx.rules.items())
        },
        'exhaustive': bool(ctx.rules) and any(r.exhaustive for r in ctx.rules.values()),
        'samples': _jsonable(samples),
        'analysed': ctx.repo.stats() | {'repo_digest': ctx.repo.digest()},
        'known_findings_seen': [v.key for v, _ in known_hits],
        'notes': ctx.notes,
    }
    cov.update(_jsonable(ctx.extra))
    ev = {
        'property_id': ctx.prop,
        'tier': ctx.tier,
        'seed': ctx.seed,
        'level': 'other',
        'coverage': cov,
        'assumptions': ctx.assumptions,
        'wall_s': round(time.time() - t0, 3),
        'violations': len(fresh),
    }
    with open(os.path.join(evidence_dir, f'{ctx.prop}.json'), 'w',
              encoding='utf-8') as f:
      json.dump(ev, f, indent=1, sort_keys=True)
  if not ctx.quiet:
    print(
        f'{ctx.prop} [{ctx.tier}] rules={len(ctx.rules)} obligations='
        f'{discharged}/{obligations} violations={len(fresh)} known='
        f'{len(known_hits)} wall={time.time() - t0:.2f}s'
    )
  return 1 if fresh else 0


def _jsonable(o):
  if isinstance(o, dict):
    return {str(k): _jsonable(v) for k, v in o.items()}
  if isinstance(o, (list, tuple, set, frozenset)):
    items = list(o)
    if isinstance(o, (set, frozenset)):
      items = sorted(items, key=repr)
    return [_jsonable(v) for v in items]
  if isinstance(o, (str, int, float, bool)) or o is None:
    return o
  return repr(o)
