"""E5 - constant evaluation of `ast` expressions against the repository index.

Folds literals, arithmetic, module constants, enum members, frozenset/dict/list
constructors, immutabledict, np.array (transparent), json.loads of string
constants, zip of literal tuples (with a length-agreement obligation) and
dataclass constructor calls (to an `Obj`). Anything else raises NotConstant.
Nothing is imported from the repository; schema enum values are read from the
installed ai_edge_litert/schema_py_generated.py text.
"""
from __future__ import annotations

import ast
import dataclasses
import json
import operator
import re
from typing import Any, Optional

from sa import index


class NotConstant(Exception):
  pass


@dataclasses.dataclass(frozen=True, eq=False)
class EnumVal:
  cls: str  # fq of the enum class
  name: str
  value: Any
  is_str: bool

  def __eq__(self, other):
    if isinstance(other, EnumVal):
      if self.is_str and other.is_str:
        return self.value == other.value
      return self.cls == other.cls and self.name == other.name
    if self.is_str and isinstance(other, str):
      return self.value == other
    return NotImplemented

  def __ne__(self, other):
    r = self.__eq__(other)
    return r if r is NotImplemented else not r

  def __hash__(self):
    return hash(self.value) if self.is_str else hash((self.cls, self.name))

  def __repr__(self):
    return f'{self.cls.split(":")[-1]}.{self.name}'


@dataclasses.dataclass(frozen=True, eq=False)
class Ext:
  """A named external constant/object (np.int8, BuiltinOperator.QUANTIZE...).

  One with a value is a schema constant: a plain int in the real program, so it
  equals that int (and any other schema constant of the same value); one
  without a value is equal to the same name only."""
  name: str
  value: Any = None

  def __eq__(self, other):
    if isinstance(other, Ext):
      if self.value is not None and other.value is not None:
        return self.value == other.value
      return self.name == other.name and self.value == other.value
    if self.value is not None and isinstance(other, int) and not isinstance(other, bool):
      return self.value == other
    return NotImplemented

  def __hash__(self):
    return hash(self.value) if self.value is not None else hash(self.name)

  def __repr__(self):
    return f'<{self.name}>' if self.value is None else f'<{self.name}={self.value}>'


@dataclasses.dataclass(frozen=True)
class Ref:
  """Reference to a repository function or class."""
  kind: str
  fq: str

  def __repr__(self):
    return f'&{self.fq}'


class Obj:
  """A folded dataclass instance."""

  def __init__(self, cls: str, fields: dict[str, Any], nocmp=frozenset()):
    self.cls = cls
    self.fields = fields
    self.nocmp = frozenset(nocmp)   # dataclass fields declared with compare=False
    self._fz = None

  def touch(self):
    self._fz = None

  def frozen(self):
    if self._fz is None:
      self._fz = (self.cls, _freeze({k: v for k, v in self.fields.items() if k not in self.nocmp} if self.nocmp else self.fields))
    return self._fz

  def __eq__(self, other):
    if not isinstance(other, Obj):
      return False
    if self.nocmp != other.nocmp:
      skip = self.nocmp | other.nocmp
      return self.cls == other.cls and _freeze({k: v for k, v in self.fields.items() if k not in skip}) == _freeze({k: v for k, v in other.fields.items() if k not in skip})
    return self.frozen() == other.frozen()

  def __hash__(self):
    return hash(self.frozen())

  def __deepcopy__(self, memo):
    import copy  # pylint: disable=g-import-not-at-top
    return Obj(self.cls, copy.deepcopy(self.fields, memo), self.nocmp)

  def __repr__(self):
    inner = ', '.join(f'{k}={v!r}' for k, v in self.fields.items())
    return f'{self.cls.split(":")[-1]}({inner})'


def _freeze(v):
  if isinstance(v, Obj):
    return v.frozen()
  if isinstance(v, dict):
    return tuple(sorted(((str(k), _freeze(x)) for k, x in v.items()),
                        key=lambda kv: kv[0]))
  if isinstance(v, (list, tuple)):
    return tuple(_freeze(x) for x in v)
  if isinstance(v, (set, frozenset)):
    return frozenset(_freeze(x) for x in v)
  return v


_SCHEMA_CACHE: dict[str, dict[str, int]] = {}
_SCHEMA_OBJ_CACHE: dict[str, Optional[dict[str, Any]]] = {}


def schema_object_defaults(class_name: str) -> Optional[dict[str, Any]]:
  """Field -> default of a generated object-API class (TensorT, OperatorT ...),
  read from the parameter list of its __init__ in the installed schema text.
  None when the class does not exist."""
  if class_name in _SCHEMA_OBJ_CACHE:
    return _SCHEMA_OBJ_CACHE[class_name]
  path = index.find_site_packages_file('ai_edge_litert/schema_py_generated.py')
  out = None
  if path is not None and re.fullmatch(r'[A-Za-z0-9_]+T', class_name):
    with open(path, 'r', encoding='utf-8') as f:
      text = f.read()
    m = re.search(rf'^class {class_name}\(object\):\n(?:\s*#[^\n]*\n|\s*\n)*\s+def __init__\(\s*self,(.*?)\):', text, re.M | re.S)
    if m:
      out = {}
      for part in m.group(1).split(','):
        if '=' in part:
          k, v = part.split('=', 1)
          try:
            out[k.strip()] = ast.literal_eval(v.strip())
          except (ValueError, SyntaxError):
            out[k.strip()] = None
  _SCHEMA_OBJ_CACHE[class_name] = out
  return out


def schema_enum(class_name: str) -> dict[str, int]:
  """Members of a generated flatbuffer enum class, parsed from its text."""
  if class_name in _SCHEMA_CACHE:
    return _SCHEMA_CACHE[class_name]
  path = index.find_site_packages_file('ai_edge_litert/schema_py_generated.py')
  if path is None:
    raise index.AnalysisError('ai_edge_litert/schema_py_generated.py not found')
  out: dict[str, int] = {}
  inside = False
  with open(path, 'r', encoding='utf-8') as f:
    for line in f:
      if not inside:
        if re.match(rf'class {class_name}\(object\):', line):
          inside = True
        continue
      m = re.match(r'\s+([A-Za-z_0-9]+) = (-?\d+)\s*$', line)
      if m:
        out[m.group(1)] = int(m.group(2))
      elif line.strip() and not line.startswith(' '):
        break
  if not out:
    raise index.AnalysisError(f'schema enum {class_name} not found in {path}')
  _SCHEMA_CACHE[class_name] = out
  return out


def _same_object(a, b) -> bool:
  """`a is b` on folded values: values are rebuilt by the interpreter, so equal
  values of one kind count as the same object - except across kinds that can
  never be one object in Python (a plain str and an enum member, even a
  str-enum whose value equals the string)."""
  if a is b:
    return True
  if (a is None) != (b is None):
    return False
  if isinstance(a, EnumVal) != isinstance(b, EnumVal):
    return False
  return a == b


_BINOPS = {
    ast.Add: operator.add, ast.Sub: operator.sub, ast.Mult: operator.mul,
    ast.Div: operator.truediv, ast.FloorDiv: operator.floordiv,
    ast.Mod: operator.mod, ast.Pow: operator.pow, ast.LShift: operator.lshift,
    ast.RShift: operator.rshift, ast.BitAnd: operator.and_,
    ast.BitOr: operator.or_, ast.BitXor: operator.xor,
}
_CMPOPS = {
    ast.Eq: operator.eq, ast.NotEq: operator.ne, ast.Lt: operator.lt,
    ast.LtE: operator.le, ast.Gt: operator.gt, ast.GtE: operator.ge,
    ast.Is: lambda a, b: _same_object(a, b),
    ast.IsNot: lambda a, b: not _same_object(a, b),
    ast.In: lambda a, b: a in b, ast.NotIn: lambda a, b: a not in b,
}


class Evaluator:

  def __init__(self, repo: index.Repo):
    self.repo = repo
    self.zip_obligations: list[tuple[str, int, int]] = []

  def enum_val(self, ci: index.ClassInfo, name: str) -> EnumVal:
    raw = ci.enum_members[name]
    try:
      v = self.eval(raw, ci.module, {})
    except NotConstant:
      v = name
    is_str = any(b.split('.')[-1] == 'str' for b in ci.bases)
    return EnumVal(ci.fq, name, v, is_str)

  def enum_members(self, ci: index.ClassInfo) -> list[EnumVal]:
    return [self.enum_val(ci, n) for n in ci.enum_members]

  def from_sym(self, s: index.Sym, _depth=0):
    if s.kind == 'enum_member':
      return self.enum_val(s.obj, s.extra)
    if s.kind == 'const':
      return self.eval(s.obj, s.extra, {}, _depth + 1)
    if s.kind == 'func':
      return Ref('func', s.obj.fq)
    if s.kind == 'bound':
      return Ref('func', s.obj.fq)
    if s.kind == 'class':
      return Ref('class', s.obj.fq)
    if s.kind == 'external':
      return self._external(str(s.obj))
    raise NotConstant(repr(s))

  def _external(self, dotted: str):
    parts = dotted.split('.')
    if 'schema_py_generated' in parts:
      i = parts.index('schema_py_generated')
      rest = parts[i + 1:]
      if len(rest) == 2:
        members = schema_enum(rest[0])
        if rest[1] in members:
          return Ext('.'.join(rest), members[rest[1]])
        raise index.AnalysisError(f'schema constant {dotted} does not exist')
      return Ext('.'.join(rest))
    if parts[0] in ('np', 'numpy'):
      return Ext('np.' + '.'.join(parts[1:]))
    return Ext(dotted)

  def eval(self, node: ast.expr, module: index.Module, env: dict[str, Any],
           _depth=0):
    if _depth > 40:
      raise NotConstant('recursion')
    ev = lambda n: self.eval(n, module, env, _depth + 1)
    if isinstance(node, ast.Constant):
      return node.value
    if isinstance(node, ast.Tuple):
      return tuple(ev(e) for e in node.elts)
    if isinstance(node, ast.List):
      return [ev(e) for e in node.elts]
    if isinstance(node, ast.Set):
      return set(ev(e) for e in node.elts)
    if isinstance(node, ast.Dict):
      out = {}
      for k, v in zip(node.keys, node.values):
        if k is None:
          out.update(ev(v))
        else:
          out[ev(k)] = ev(v)
      return out
    if isinstance(node, ast.UnaryOp):
      v = ev(node.operand)
      if isinstance(node.op, ast.USub):
        return -v
      if isinstance(node.op, ast.UAdd):
        return +v
      if isinstance(node.op, ast.Not):
        return not v
      if isinstance(node.op, ast.Invert):
        return ~v
    if isinstance(node, ast.BinOp):
      op = _BINOPS.get(type(node.op))
      if op is None:
        raise NotConstant(ast.unparse(node))
      a, b = ev(node.left), ev(node.right)
      try:
        return op(a, b)
      except Exception as e:  # pylint: disable=broad-except
        raise NotConstant(f'{ast.unparse(node)}: {e}') from e
    if isinstance(node, ast.BoolOp):
      vals = None
      for e in node.values:
        vals = ev(e)
        if isinstance(node.op, ast.And) and not vals:
          return vals
        if isinstance(node.op, ast.Or) and vals:
          return vals
      return vals
    if isinstance(node, ast.Compare):
      left = ev(node.left)
      for op, right_n in zip(node.ops, node.comparators):
        right = ev(right_n)
        f = _CMPOPS[type(op)]
        if not f(left, right):
          return False
        left = right
      return True
    if isinstance(node, ast.IfExp):
      return ev(node.body) if ev(node.test) else ev(node.orelse)
    if isinstance(node, ast.Name):
      if node.id in env:
        return env[node.id]
      if node.id in ('True', 'False', 'None'):
        return {'True': True, 'False': False, 'None': None}[node.id]
      s = self.repo.resolve_name(module, node.id)
      if s.kind == 'external' and s.obj == node.id:
        raise NotConstant(f'unbound name {node.id}')
      return self.from_sym(s, _depth)
    if isinstance(node, ast.Attribute):
      # value.attr on folded values first
      try:
        base = ev(node.value)
      except NotConstant:
        base = None
      if isinstance(base, EnumVal):
        if node.attr == 'value':
          return base.value
        if node.attr == 'name':
          return base.name
      if isinstance(base, Obj) and node.attr in base.fields:
        return base.fields[node.attr]
      if isinstance(base, dict) and node.attr in ('keys', 'values', 'items'):
        raise NotConstant('method ref')
      s = self.repo.resolve_expr(module, node)
      if s.kind == 'external' and str(s.obj).startswith('?'):
        raise NotConstant(ast.unparse(node))
      return self.from_sym(s, _depth)
    if isinstance(node, ast.Subscript):
      base = ev(node.value)
      if isinstance(node.slice, ast.Slice):
        lo = ev(node.slice.lower) if node.slice.lower else None
        hi = ev(node.slice.upper) if node.slice.upper else None
        st = ev(node.slice.step) if node.slice.step else None
        return base[lo:hi:st]
      key = ev(node.slice)
      try:
        return base[key]
      except Exception as e:  # pylint: disable=broad-except
        raise NotConstant(f'{ast.unparse(node)}: {e}') from e
    if isinstance(node, ast.Call):
      return self._call(node, module, env, _depth)
    if isinstance(node, (ast.ListComp, ast.GeneratorExp, ast.SetComp)):
      out = []
      self._comp(node.generators, 0, module, dict(env), node.elt, out, _depth)
      if isinstance(node, ast.SetComp):
        return set(out)
      return out
    if isinstance(node, ast.DictComp):
      out = []
      pair = ast.Tuple(elts=[node.key, node.value], ctx=ast.Load())
      self._comp(node.generators, 0, module, dict(env), pair, out, _depth)
      return dict(out)
    if isinstance(node, ast.JoinedStr):
      parts = []
      for v in node.values:
        if isinstance(v, ast.Constant):
          parts.append(str(v.value))
        else:
          parts.append(str(ev(v.value)))
      return ''.join(parts)
    raise NotConstant(ast.unparse(node)[:60])

  def _comp(self, gens, i, module, env, elt, out, depth):
    if i == len(gens):
      out.append(self.eval(elt, module, env, depth + 1))
      return
    g = gens[i]
    for item in self.eval(g.iter, module, env, depth + 1):
      env2 = dict(env)
      bind_target(g.target, item, env2)
      if all(self.eval(c, module, env2, depth + 1) for c in g.ifs):
        self._comp(gens, i + 1, module, env2, elt, out, depth)

  def _call(self, node: ast.Call, module, env, depth):
    ev = lambda n: self.eval(n, module, env, depth + 1)
    fname = ast.unparse(node.func)
    args = node.args
    kw = {k.arg: k.value for k in node.keywords if k.arg}
    simple = {
        'frozenset': frozenset, 'set': set, 'tuple': tuple, 'list': list,
        'len': len, 'float': float, 'int': int, 'bool': bool, 'str': str,
        'sorted': sorted, 'min': min, 'max': max, 'abs': abs, 'sum': sum,
    }
    if fname in simple and not kw:
      vals = [ev(a) for a in args]
      try:
        return simple[fname](*vals)
      except Exception as e:  # pylint: disable=broad-except
        raise NotConstant(f'{fname}: {e}') from e
    if fname == 'dict':
      if args:
        v = ev(args[0])
        out = dict(v)
      else:
        out = {}
      for k, v in kw.items():
        out[k] = ev(v)
      return out
    if fname == 'range':
      return list(range(*[ev(a) for a in args]))
    if fname == 'reversed':
      return list(reversed(list(ev(args[0]))))
    if fname == 'enumerate':
      return list(enumerate(ev(args[0])))
    if fname == 'zip':
      seqs = [list(ev(a)) for a in args]
      if len(seqs) == 2:
        self.zip_obligations.append(
            (f'{module.rel}:{node.lineno}', len(seqs[0]), len(seqs[1]))
        )
      return list(zip(*seqs))
    if fname == 'frozenset.union':
      out = frozenset()
      for a in args:
        out = out | frozenset(ev(a))
      return out
    if fname.endswith('immutabledict.immutabledict') or fname == 'immutabledict':
      if not args:
        return {}
      return dict(ev(args[0]))
    if fname in ('collections.OrderedDict', 'OrderedDict'):
      return dict(ev(args[0])) if args else {}
    if fname in ('np.array', 'numpy.array', 'np.asarray'):
      return ev(args[0])
    if fname == 'json.loads':
      v = ev(args[0])
      if isinstance(v, str):
        try:
          return json.loads(v)
        except ValueError as e:
          raise index.AnalysisError(f'{module.rel}:{node.lineno}: json.loads of constant fails: {e}')
      raise NotConstant(fname)
    if isinstance(node.func, ast.Attribute) and node.func.attr in ('items', 'keys', 'values', 'get', 'lower', 'upper', 'union'):
      base = ev(node.func.value)
      vals = [ev(a) for a in args]
      if isinstance(base, dict):
        if node.func.attr == 'items':
          return list(base.items())
        if node.func.attr == 'keys':
          return list(base.keys())
        if node.func.attr == 'values':
          return list(base.values())
        if node.func.attr == 'get':
          return base.get(*vals)
      if isinstance(base, str) and node.func.attr in ('lower', 'upper'):
        return getattr(base, node.func.attr)()
      if isinstance(base, (set, frozenset)) and node.func.attr == 'union':
        out = frozenset(base)
        for v in vals:
          out = out | frozenset(v)
        return out
    # constructor of a repository class
    s = self.repo.resolve_expr(module, node.func)
    if s.kind == 'class':
      ci: index.ClassInfo = s.obj
      if ci.is_enum and len(args) == 1:
        v = ev(args[0])
        for m in self.enum_members(ci):
          if m.value == v or m == v:
            return m
        raise NotConstant(f'{ci.name}({v!r}) is not a member')
      if ci.is_dataclass:
        fields = {}
        names = [f.name for f in ci.fields]
        for n, a in zip(names, args):
          fields[n] = ev(a)
        for k, v in kw.items():
          fields[k] = ev(v)
        for f in ci.fields:
          if f.name not in fields:
            if f.default is None:
              raise NotConstant(f'{ci.name}: missing {f.name}')
            fields[f.name] = self.eval(f.default, ci.module, {}, depth + 1)
        nocmp = set()
        for f in ci.fields:
          d = f.default
          if isinstance(d, ast.Call) and ast.unparse(d.func).endswith('field'):
            for k in d.keywords:
              if k.arg == 'compare' and isinstance(k.value, ast.Constant) and k.value.value is False:
                nocmp.add(f.name)
        return Obj(ci.fq, fields, nocmp)
    raise NotConstant(f'call {fname}')


def bind_target(target: ast.expr, value, env: dict[str, Any]):
  if isinstance(target, ast.Name):
    env[target.id] = value
  elif isinstance(target, (ast.Tuple, ast.List)):
    vals = list(value)
    if len(vals) != len(target.elts):
      raise NotConstant('unpack arity')
    for t, v in zip(target.elts, vals):
      bind_target(t, v, env)
  else:
    raise NotConstant('bind target')
