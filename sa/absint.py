"""E6 - decision-table extraction by path enumeration over finite domains.

A small abstract interpreter for the *control* fragment of repository
functions: If / BoolOp / Compare / not / in / is / Assign / For over folded
sequences / Return / Raise / Try / continue / break, calls into other
repository functions (interpreted the same way) and a handful of pure
builtins. Inputs are values of a declared finite domain (enum members, bools,
None, folded dataclass objects, small ints, JSON data embedded in the source);
everything else is `Opaque`. Branching on an Opaque explores both arms
(decision-sequence backtracking). Numeric library code never enters it: an
external call yields Opaque. The result of `outcomes()` is the finite relation
inputs -> {('return', value) | ('raise', exception name)}.
"""
from __future__ import annotations

import ast
import copy as _copy
import dataclasses
from typing import Any, Callable, Optional

from sa import consteval
from sa import ndarr
from sa.ndarr import NdArr
from sa import index
from sa.consteval import EnumVal, Ext, Obj, Ref


def _walk_own(fn):
  """Nodes of a function body, not descending into nested functions / lambdas / classes."""
  stack = list(fn.body)
  while stack:
    n = stack.pop()
    yield n
    for c in ast.iter_child_nodes(n):
      if not isinstance(c, (ast.FunctionDef, ast.AsyncFunctionDef, ast.Lambda, ast.ClassDef)):
        stack.append(c)


class NpVec(list):
  """A one-dimensional numeric array built with np.array(<list of numbers>):
  a list with elementwise arithmetic and array-valued slices."""

  def __getitem__(self, k):
    r = list.__getitem__(self, k)
    return NpVec(r) if isinstance(k, slice) else r

  def elementwise(self, f, other, swap=False):
    if isinstance(other, list):
      if len(other) != len(self):
        raise ValueError('shape mismatch')
      return NpVec([f(b, a) if swap else f(a, b) for a, b in zip(self, other)])
    return NpVec([f(other, a) if swap else f(a, other) for a in self])


class Opaque:
  """A value the interpreter knows nothing about."""

  def __init__(self, tag: str = '?', notnone: bool = False):
    self.tag = tag
    self.notnone = notnone   # an unknown value that is certainly not None (the result of a numpy constructor ...)

  def __repr__(self):
    return f'Opaque({self.tag})'


class NotInterpretable(index.AnalysisError):
  pass


class _Raise(Exception):

  def __init__(self, exc: str, msg: str = '', node=None):
    super().__init__(exc)
    self.exc = exc
    self.msg = msg
    self.node = node


class _Return(Exception):

  def __init__(self, value):
    super().__init__('return')
    self.value = value


class _Break(Exception):
  pass


class _Continue(Exception):
  pass


class _NeedDecision(Exception):
  pass


@dataclasses.dataclass
class Closure:
  node: Any  # ast.FunctionDef | ast.Lambda
  module: index.Module
  env: dict
  func: Optional[index.FuncInfo] = None


@dataclasses.dataclass
class BoundObj:
  obj: Any
  func: index.FuncInfo


EXC_BASES = {
    'KeyError': ['LookupError', 'Exception'],
    'IndexError': ['LookupError', 'Exception'],
    'ValueError': ['Exception'],
    'TypeError': ['Exception'],
    'RuntimeError': ['Exception'],
    'AttributeError': ['Exception'],
    'NotImplementedError': ['RuntimeError', 'Exception'],
    'FileExistsError': ['OSError', 'Exception'],
    'AssertionError': ['Exception'],
    'Exception': [],
}


def exc_matches(raised: str, handler: str) -> bool:
  if handler in ('BaseException',):
    return True
  return raised == handler or handler in EXC_BASES.get(raised, ['Exception'])


_NP_PARENTS = {
    'generic': None, 'number': 'generic', 'bool_': 'generic', 'object_': 'generic', 'flexible': 'generic', 'character': 'flexible', 'str_': 'character', 'bytes_': 'character',
    'integer': 'number', 'inexact': 'number', 'signedinteger': 'integer', 'unsignedinteger': 'integer', 'floating': 'inexact', 'complexfloating': 'inexact',
    'int8': 'signedinteger', 'int16': 'signedinteger', 'int32': 'signedinteger', 'int64': 'signedinteger',
    'uint8': 'unsignedinteger', 'uint16': 'unsignedinteger', 'uint32': 'unsignedinteger', 'uint64': 'unsignedinteger',
    'float16': 'floating', 'float32': 'floating', 'float64': 'floating', 'complex64': 'complexfloating', 'complex128': 'complexfloating',
}


def _issubdtype(a: str, b: str):
  """np.issubdtype on two named numpy scalar types (numpy's documented type hierarchy); None when a name is unknown."""
  a, b = a.split('.')[-1], b.split('.')[-1]
  if a not in _NP_PARENTS or b not in _NP_PARENTS:
    return None
  while a is not None:
    if a == b:
      return True
    a = _NP_PARENTS[a]
  return False


@dataclasses.dataclass
class Outcome:
  kind: str  # 'return' | 'raise'
  value: Any = None
  exc: str = ''
  msg: str = ''
  decisions: tuple = ()
  line: int = 0

  def short(self):
    if self.kind == 'raise':
      return f'raise {self.exc}'
    return f'return {self.value!r}'


class Interp:
  """Interprets repository functions over folded/opaque values."""

  def __init__(self, repo: index.Repo, ev: Optional[consteval.Evaluator] = None,
               max_depth: int = 12, max_paths: int = 4096,
               opaque_calls: Optional[set[str]] = None,
               hooks: Optional[dict[str, Callable]] = None):
    self.repo = repo
    self.ev = ev or consteval.Evaluator(repo)
    self.max_depth = max_depth
    self.max_paths = max_paths
    self.max_seconds = 90
    self.max_steps = 400000   # statements per enumerated path: a variant that loops for ever must end as 'not interpretable'
    self._steps = 0
    self.opaque_calls = opaque_calls or set()
    self.hooks = hooks or {}
    self._decisions: list[bool] = []
    self._cursor = 0
    self.trace: list[str] = []
    self.calls_seen: set[str] = set()

  # ---------------------------------------------------------------- driver
  def outcomes(self, func: index.FuncInfo, args: list, kwargs=None,
               copy_args: bool = True) -> list[Outcome]:
    """All outcomes of func(*args, **kwargs) over the opaque decisions."""
    results: list[Outcome] = []
    prefix: list[bool] = []
    n = 0
    import time as _time  # pylint: disable=g-import-not-at-top
    t_end = _time.time() + self.max_seconds
    while True:
      n += 1
      if n > self.max_paths:
        raise NotInterpretable(f'{func.fq}: more than {self.max_paths} paths')
      if _time.time() > t_end:
        raise NotInterpretable(f'{func.fq}: path enumeration exceeded {self.max_seconds}s')
      self._decisions = list(prefix)
      self._cursor = 0
      self._steps = 0
      self.trace = []
      a = _copy.deepcopy(args) if copy_args else list(args)
      k = _copy.deepcopy(kwargs or {}) if copy_args else dict(kwargs or {})
      if func.cls is not None and func.is_classmethod:
        a = [Ref('class', func.cls.fq)] + a
      try:
        v = self.call_function(func, a, k, 0)
        results.append(Outcome('return', v, decisions=tuple(self._decisions)))
      except _Raise as r:
        results.append(
            Outcome('raise', exc=r.exc, msg=r.msg,
                    decisions=tuple(self._decisions),
                    line=getattr(r.node, 'lineno', 0))
        )
      # backtrack: flip the last True decision that has not been flipped
      d = self._decisions
      while d and d[-1] is False:
        d.pop()
      if not d:
        break
      d[-1] = False
      prefix = d
    return results

  def decide(self, tag: str) -> bool:
    if self._cursor < len(self._decisions):
      v = self._decisions[self._cursor]
    else:
      v = True
      self._decisions.append(True)
    self._cursor += 1
    self.trace.append(f'{tag}={v}')
    return v

  # ------------------------------------------------------------- functions
  def call_function(self, func: index.FuncInfo, args: list, kwargs: dict,
                    depth: int, closure_env: Optional[dict] = None):
    if depth > self.max_depth:
      raise NotInterpretable(f'call depth exceeded at {func.fq}')
    self.calls_seen.add(func.fq)
    env = dict(closure_env or {})
    self._bind_params(func.node.args, func.module, args, kwargs, env, depth, func.fq)
    is_gen = any(isinstance(n, (ast.Yield, ast.YieldFrom)) for n in _walk_own(func.node))
    if is_gen:
      # a generator is run eagerly: its value is the list of yielded items
      env['<yielded>'] = []
    try:
      self.exec_block(func.node.body, func.module, env, depth, func)
    except _Return as r:
      return env['<yielded>'] if is_gen else r.value
    return env['<yielded>'] if is_gen else None

  def _bind_params(self, a: ast.arguments, module, args, kwargs, env, depth, name):
    pos = a.posonlyargs + a.args
    defaults = [None] * (len(pos) - len(a.defaults)) + list(a.defaults)
    args = list(args)
    kwargs = dict(kwargs)
    for i, (p, d) in enumerate(zip(pos, defaults)):
      if i < len(args):
        env[p.arg] = args[i]
      elif p.arg in kwargs:
        env[p.arg] = kwargs.pop(p.arg)
      elif d is not None:
        env[p.arg] = self.eval(d, module, {}, depth)
      else:
        raise _Raise('TypeError', f'{name}: missing argument {p.arg}')
    if len(args) > len(pos):
      if a.vararg:
        env[a.vararg.arg] = tuple(args[len(pos):])
      else:
        raise _Raise('TypeError', f'{name}: too many positional arguments')
    elif a.vararg:
      env[a.vararg.arg] = ()
    for p, d in zip(a.kwonlyargs, a.kw_defaults):
      if p.arg in kwargs:
        env[p.arg] = kwargs.pop(p.arg)
      elif d is not None:
        env[p.arg] = self.eval(d, module, {}, depth)
      else:
        raise _Raise('TypeError', f'{name}: missing keyword argument {p.arg}')
    if kwargs:
      if a.kwarg:
        env[a.kwarg.arg] = kwargs
      else:
        raise _Raise(
            'TypeError',
            f'{name}: unexpected keyword argument {sorted(kwargs)[0]}',
        )

  # ------------------------------------------------------------ statements
  def exec_block(self, body, module, env, depth, func):
    for st in body:
      self.exec_stmt(st, module, env, depth, func)

  def exec_stmt(self, st, module, env, depth, func):
    self._steps += 1
    if self._steps > self.max_steps:
      raise NotInterpretable(f'step budget exceeded (non-terminating loop?) at {module.rel}:{getattr(st, "lineno", 0)}')
    ev = lambda n: self.eval(n, module, env, depth)
    if isinstance(st, ast.Expr):
      if isinstance(st.value, ast.Constant):
        return
      if isinstance(st.value, ast.Yield) and '<yielded>' in env:
        env['<yielded>'].append(ev(st.value.value) if st.value.value is not None else None)
        return
      if isinstance(st.value, ast.YieldFrom) and '<yielded>' in env:
        v = ev(st.value.value)
        if isinstance(v, Opaque):
          raise NotInterpretable('yield from an opaque iterable')
        env['<yielded>'].extend(list(v))
        return
      ev(st.value)
    elif isinstance(st, ast.Assign):
      v = ev(st.value)
      for t in st.targets:
        self.assign(t, v, module, env, depth)
    elif isinstance(st, ast.AnnAssign):
      if st.value is not None:
        self.assign(st.target, ev(st.value), module, env, depth)
    elif isinstance(st, ast.AugAssign):
      cur = ev(_as_load(st.target))
      rhs = ev(st.value)
      if isinstance(cur, list) and not isinstance(cur, NpVec) and isinstance(st.op, ast.Add) and isinstance(rhs, (list, tuple)):
        cur.extend(rhs)  # in-place, like list.__iadd__
        new = cur
      else:
        new = self.binop(st.op, cur, rhs)
      self.assign(st.target, new, module, env, depth)
    elif isinstance(st, ast.Return):
      raise _Return(ev(st.value) if st.value is not None else None)
    elif isinstance(st, ast.Raise):
      name, msg = 'Exception', ''
      if st.exc is not None:
        e = st.exc
        if isinstance(e, ast.Call):
          name = ast.unparse(e.func).split('.')[-1]
          if e.args:
            try:
              msg = str(ast.unparse(e.args[0]))[:80]
            except Exception:  # pylint: disable=broad-except
              msg = ''
        else:
          name = ast.unparse(e).split('.')[-1]
      raise _Raise(name, msg, st)
    elif isinstance(st, ast.If):
      if self.truth(ev(st.test), f'{func.fq if func else "?"}:{st.lineno}'):
        self.exec_block(st.body, module, env, depth, func)
      else:
        self.exec_block(st.orelse, module, env, depth, func)
    elif isinstance(st, ast.For):
      it = self._iterable(ev(st.iter))
      if isinstance(it, Opaque):
        raise NotInterpretable(
            f'{module.rel}:{st.lineno}: loop over unknown sequence '
            f'{ast.unparse(st.iter)}'
        )
      if isinstance(it, dict):
        it = list(it.keys())
      broke = False
      for item in list(it):
        self.assign(st.target, item, module, env, depth)
        try:
          self.exec_block(st.body, module, env, depth, func)
        except _Continue:
          continue
        except _Break:
          broke = True
          break
      if not broke:
        self.exec_block(st.orelse, module, env, depth, func)
    elif isinstance(st, ast.While):
      n = 0
      while self.truth(ev(st.test), f'while:{st.lineno}'):
        n += 1
        if n > 10000:
          raise NotInterpretable(f'{module.rel}:{st.lineno}: unbounded while')
        try:
          self.exec_block(st.body, module, env, depth, func)
        except _Continue:
          continue
        except _Break:
          break
    elif isinstance(st, ast.Continue):
      raise _Continue()
    elif isinstance(st, ast.Break):
      raise _Break()
    elif isinstance(st, ast.Pass):
      return
    elif isinstance(st, ast.Try):
      try:
        self.exec_block(st.body, module, env, depth, func)
      except _Raise as r:
        for h in st.handlers:
          names = []
          if h.type is None:
            names = ['BaseException']
          elif isinstance(h.type, ast.Tuple):
            names = [ast.unparse(e).split('.')[-1] for e in h.type.elts]
          else:
            names = [ast.unparse(h.type).split('.')[-1]]
          if any(exc_matches(r.exc, n) for n in names):
            if h.name:
              env[h.name] = Opaque('exc')
            self.exec_block(h.body, module, env, depth, func)
            break
        else:
          self.exec_block(st.finalbody, module, env, depth, func)
          raise
      else:
        self.exec_block(st.orelse, module, env, depth, func)
      self.exec_block(st.finalbody, module, env, depth, func)
    elif isinstance(st, ast.FunctionDef):
      fi = None
      if func is not None:
        fi = func.module.functions.get(f'{func.qualname}.<locals>.{st.name}')
      env[st.name] = Closure(st, module, env, fi)
    elif isinstance(st, ast.Assert):
      if not self.truth(ev(st.test), f'assert:{st.lineno}'):
        raise _Raise('AssertionError', '', st)
    elif isinstance(st, ast.With):
      for item in st.items:
        v = ev(item.context_expr)
        if item.optional_vars is not None:
          self.assign(item.optional_vars, Opaque('with'), module, env, depth)
      self.exec_block(st.body, module, env, depth, func)
    elif isinstance(st, ast.Delete):
      for t in st.targets:
        if isinstance(t, ast.Name):
          env.pop(t.id, None)
        elif isinstance(t, ast.Subscript):
          base = ev(t.value)
          key = ev(t.slice)
          if isinstance(base, (dict, list)) and not isinstance(key, Opaque):
            try:
              del base[key]
            except (KeyError, IndexError):
              raise _Raise('KeyError', '', st)
    elif isinstance(st, (ast.Import, ast.ImportFrom, ast.Global, ast.Nonlocal)):
      return
    else:
      raise NotInterpretable(
          f'{module.rel}:{st.lineno}: statement {type(st).__name__}'
      )

  def assign(self, target, value, module, env, depth):
    if isinstance(target, ast.Name):
      env[target.id] = value
    elif isinstance(target, (ast.Tuple, ast.List)):
      if isinstance(value, Opaque):
        for t in target.elts:
          self.assign(t, Opaque(value.tag), module, env, depth)
        return
      vals = list(value)
      if len(vals) != len(target.elts):
        raise _Raise('ValueError', 'unpack arity')
      for t, v in zip(target.elts, vals):
        self.assign(t, v, module, env, depth)
    elif isinstance(target, ast.Subscript):
      base = self.eval(target.value, module, env, depth)
      if isinstance(base, NdArr):
        key = self._index_key(target.slice, module, env, depth)
        if key is None or isinstance(value, Opaque):
          raise NotInterpretable(f'store {ast.unparse(target)} into a known array with an unknown index / value')
        try:
          base.setitem(key, value)
        except IndexError:
          raise _Raise('IndexError', '', target)
        except ValueError as e:
          raise _Raise('ValueError', str(e), target)
        except ndarr.NotModelled as e:
          raise NotInterpretable(f'store {ast.unparse(target)}: {e}')
        return
      if isinstance(target.slice, ast.Slice):
        sl = target.slice
        lo = self.eval(sl.lower, module, env, depth) if sl.lower else None
        hi = self.eval(sl.upper, module, env, depth) if sl.upper else None
        stp = self.eval(sl.step, module, env, depth) if sl.step else None
        if isinstance(base, list):
          if any(isinstance(x, Opaque) for x in (lo, hi, stp)) or isinstance(value, Opaque):
            raise NotInterpretable(f'slice store {ast.unparse(target)} with unknown bounds/value')
          base[lo:hi:stp] = list(value)
        elif not isinstance(base, Opaque):
          raise NotInterpretable(f'slice store into {type(base).__name__}')
        return
      key = self.eval(target.slice, module, env, depth)
      if isinstance(base, dict):
        if isinstance(key, Opaque):
          raise NotInterpretable(f'store {ast.unparse(target)} with unknown key into a known dict')
        base[key] = value
      elif isinstance(base, list):
        if not isinstance(key, int):
          raise NotInterpretable(f'store {ast.unparse(target)} with unknown index into a known list')
        try:
          base[key] = value
        except IndexError:
          raise _Raise('IndexError', '', target)
      # stores into opaque containers are dropped
    elif isinstance(target, ast.Attribute):
      base = self.eval(target.value, module, env, depth)
      if isinstance(base, Obj):
        base.fields[target.attr] = value
        base.touch()
    else:
      raise NotInterpretable(f'assignment target {ast.unparse(target)}')

  def _iterable(self, it):
    """What a for loop / comprehension iterates: an enum class yields its members; anything that Python could not
    iterate in the model is Opaque (the caller refuses), never a crash."""
    if isinstance(it, Ref):
      if it.kind == 'class':
        ci = self._class(it.fq)
        if ci is not None and ci.is_enum:
          return list(self.ev.enum_members(ci))
      return Opaque('iter')
    if isinstance(it, (Obj, Ext, EnumVal, int, float, type(None), bool)):
      return Opaque('iter')
    return it

  def _index_key(self, sl, module, env, depth):
    """The Python index object of a subscript (ints, slices, tuples of them); None when a part is unknown."""
    if isinstance(sl, ast.Slice):
      parts = [self.eval(x, module, env, depth) if x is not None else None for x in (sl.lower, sl.upper, sl.step)]
      if any(isinstance(x, Opaque) for x in parts):
        return None
      return slice(*parts)
    if isinstance(sl, ast.Tuple):
      ks = [self._index_key(e, module, env, depth) for e in sl.elts]
      return None if any(k is None for k in ks) else tuple(ks)
    v = self.eval(sl, module, env, depth)
    return None if isinstance(v, Opaque) else v

  # ----------------------------------------------------------- expressions
  def truth(self, v, tag: str) -> bool:
    if isinstance(v, Opaque):
      return self.decide(tag)
    try:
      return bool(v)
    except Exception:  # pylint: disable=broad-except
      return self.decide(tag)

  def binop(self, op, a, b):
    if isinstance(a, Opaque) or isinstance(b, Opaque):
      return Opaque('binop')
    f = consteval._BINOPS.get(type(op))  # pylint: disable=protected-access
    if f is None:
      return Opaque('binop')
    try:
      if isinstance(a, NdArr) or isinstance(b, NdArr):
        return NdArr.broadcast(f, a, b)
      if isinstance(a, NpVec) and isinstance(b, (int, float, list)) and not isinstance(b, bool):
        return a.elementwise(f, b)
      if isinstance(b, NpVec) and isinstance(a, (int, float)) and not isinstance(a, bool):
        return b.elementwise(f, a, swap=True)
      return f(a, b)
    except ZeroDivisionError:
      raise _Raise('ZeroDivisionError')
    except Exception:  # pylint: disable=broad-except
      return Opaque('binop')

  def eval(self, node, module, env, depth):
    ev = lambda n: self.eval(n, module, env, depth)
    if isinstance(node, ast.Constant):
      return node.value
    if isinstance(node, ast.Name):
      if node.id in env:
        return env[node.id]
      if node.id in ('True', 'False', 'None'):
        return {'True': True, 'False': False, 'None': None}[node.id]
      s = self.repo.resolve_name(module, node.id)
      return self.from_sym(s, node.id)
    if isinstance(node, ast.Attribute):
      if isinstance(node.value, ast.Name) and node.value.id not in env or (
          isinstance(node.value, ast.Attribute) and _root_name(node) not in env
      ):
        s = self.repo.resolve_expr(module, node)
        if not (s.kind == 'external' and str(s.obj).startswith('?')):
          v = self.from_sym(s, ast.unparse(node))
          if not isinstance(v, Opaque) or s.kind == 'external':
            return v
      base = ev(node.value)
      return self.getattr(base, node.attr, node)
    if isinstance(node, ast.Tuple):
      return tuple(self._elts(node.elts, module, env, depth))
    if isinstance(node, ast.List):
      return list(self._elts(node.elts, module, env, depth))
    if isinstance(node, ast.Set):
      vals = self._elts(node.elts, module, env, depth)
      try:
        return set(vals)
      except TypeError:
        return Opaque('set')
    if isinstance(node, ast.Dict):
      out = {}
      for k, v in zip(node.keys, node.values):
        if k is None:
          d = ev(v)
          if isinstance(d, dict):
            out.update(d)
          else:
            return Opaque('dict')
        else:
          kk = ev(k)
          if isinstance(kk, Opaque):
            return Opaque('dict')
          out[kk] = ev(v)
      return out
    if isinstance(node, ast.UnaryOp):
      v = ev(node.operand)
      if isinstance(node.op, ast.Not):
        if isinstance(v, Opaque):
          return not self.decide(f'not:{node.lineno}')
        return not v
      if isinstance(v, Opaque):
        return Opaque('unary')
      if isinstance(node.op, ast.USub):
        if isinstance(v, NdArr):
          return v.map(lambda x: -x)
        return -v
      if isinstance(node.op, ast.UAdd):
        return +v
      if isinstance(node.op, ast.Invert):
        return ~v
    if isinstance(node, ast.BinOp):
      return self.binop(node.op, ev(node.left), ev(node.right))
    if isinstance(node, ast.BoolOp):
      v = None
      for e in node.values:
        v = ev(e)
        t = self.truth(v, f'boolop:{e.lineno}:{e.col_offset}')
        if isinstance(node.op, ast.And) and not t:
          return v if not isinstance(v, Opaque) else False
        if isinstance(node.op, ast.Or) and t:
          return v if not isinstance(v, Opaque) else True
      return v if not isinstance(v, Opaque) else isinstance(node.op, ast.And)
    if isinstance(node, ast.Compare):
      left = ev(node.left)
      for op, rn in zip(node.ops, node.comparators):
        right = ev(rn)
        r = self.compare(op, left, right, node)
        if isinstance(r, NdArr):
          return r if len(node.ops) == 1 else Opaque('cmp-chain')   # an elementwise comparison yields an array
        if isinstance(r, Opaque):
          if not self.decide(f'cmp:{node.lineno}:{ast.unparse(node)[:40]}'):
            return False
        elif not r:
          return False
        left = right
      return True
    if isinstance(node, ast.IfExp):
      if self.truth(ev(node.test), f'ifexp:{node.lineno}'):
        return ev(node.body)
      return ev(node.orelse)
    if isinstance(node, ast.Subscript):
      base = ev(node.value)
      if isinstance(base, NdArr) and (isinstance(node.slice, ast.Slice) or (isinstance(node.slice, ast.Tuple) and any(isinstance(e, ast.Slice) for e in node.slice.elts))):
        key = self._index_key(node.slice, module, env, depth)
        if key is None:
          return Opaque('slice')
        try:
          return base.getitem(key)
        except IndexError:
          raise _Raise('IndexError', '', node)
        except ndarr.NotModelled:
          return Opaque('item')
      if isinstance(node.slice, ast.Slice):
        if isinstance(base, Opaque):
          return Opaque('slice')
        lo = ev(node.slice.lower) if node.slice.lower else None
        hi = ev(node.slice.upper) if node.slice.upper else None
        stp = ev(node.slice.step) if node.slice.step else None
        if any(isinstance(x, Opaque) for x in (lo, hi, stp)):
          return Opaque('slice')
        try:
          return base[lo:hi:stp]
        except TypeError:
          return Opaque('slice')
      key = ev(node.slice)
      if isinstance(base, Opaque):
        return Opaque(f'{base.tag}[]')
      if isinstance(key, Opaque):
        return Opaque('item')
      if isinstance(base, dict):
        try:
          if key in base:
            return base[key]
        except TypeError:
          return Opaque('item')
        raise _Raise('KeyError', repr(key), node)
      if isinstance(base, (list, tuple, str)):
        try:
          return base[key]
        except IndexError:
          raise _Raise('IndexError', '', node)
        except TypeError:
          return Opaque('item')
      if isinstance(base, NdArr):
        try:
          return base.getitem(key) if isinstance(key, tuple) else base.index(key)
        except IndexError:
          raise _Raise('IndexError', '', node)
        except ndarr.NotModelled:
          return Opaque('item')
      return Opaque('item')
    if isinstance(node, ast.Call):
      return self.call(node, module, env, depth)
    if isinstance(node, ast.Lambda):
      return Closure(node, module, env)
    if isinstance(node, (ast.ListComp, ast.GeneratorExp, ast.SetComp, ast.DictComp)):
      return self.comprehension(node, module, env, depth)
    if isinstance(node, ast.JoinedStr):
      # an f-string of plain values (str / int / bool / None / enum names are not formatted here) without format specs
      parts = []
      for v in node.values:
        if isinstance(v, ast.Constant):
          parts.append(str(v.value))
          continue
        if not isinstance(v, ast.FormattedValue) or v.format_spec is not None or v.conversion not in (-1, 115):
          return Opaque('fstring')
        x = ev(v.value)
        if isinstance(x, bool) or x is None or isinstance(x, (str, int)):
          parts.append(str(x))
        else:
          return Opaque('fstring')   # reprs of bytes / floats / objects are not modelled
      return ''.join(parts)
    if isinstance(node, ast.Starred):
      return ev(node.value)
    return Opaque(type(node).__name__)

  def _elts(self, elts, module, env, depth):
    out = []
    for e in elts:
      if isinstance(e, ast.Starred):
        v = self.eval(e.value, module, env, depth)
        if isinstance(v, Opaque):
          out.append(v)
        else:
          out.extend(list(v))
      else:
        out.append(self.eval(e, module, env, depth))
    return out

  def comprehension(self, node, module, env, depth):
    results = []

    def rec(i, env2):
      if i == len(node.generators):
        if isinstance(node, ast.DictComp):
          results.append((self.eval(node.key, module, env2, depth),
                          self.eval(node.value, module, env2, depth)))
        else:
          results.append(self.eval(node.elt, module, env2, depth))
        return True
      g = node.generators[i]
      it = self._iterable(self.eval(g.iter, module, env2, depth))
      if isinstance(it, Opaque):
        return False
      if isinstance(it, dict):
        it = list(it.keys())
      for item in list(it):
        env3 = dict(env2)
        self.assign(g.target, item, module, env3, depth)
        if all(self.truth(self.eval(c, module, env3, depth), f'comp:{c.lineno}')
               for c in g.ifs):
          if not rec(i + 1, env3):
            return False
      return True

    if not rec(0, dict(env)):
      return Opaque('comprehension')
    if isinstance(node, ast.DictComp):
      try:
        return dict(results)
      except TypeError:
        return Opaque('dictcomp')
    if isinstance(node, ast.SetComp):
      return set(results)
    return results

  def compare(self, op, a, b, node):
    if isinstance(op, (ast.Is, ast.IsNot)):
      if a is None or b is None:
        if isinstance(a, Opaque) or isinstance(b, Opaque):
          o = a if isinstance(a, Opaque) else b
          if o.notnone:
            return isinstance(op, ast.IsNot)
          return Opaque('is')
        r = a is None and b is None
        return r if isinstance(op, ast.Is) else not r
      if isinstance(a, Opaque) or isinstance(b, Opaque):
        return Opaque('is')
      r = a is b or (type(a) is type(b) and a == b)
      return r if isinstance(op, ast.Is) else not r
    if isinstance(a, Opaque) or isinstance(b, Opaque):
      return Opaque('cmp')
    if isinstance(op, (ast.In, ast.NotIn)):
      try:
        if isinstance(b, (list, tuple)) and any(isinstance(x, Opaque) for x in b):
          return Opaque('in')
        r = a in b
      except TypeError:
        return Opaque('in')
      return r if isinstance(op, ast.In) else not r
    f = consteval._CMPOPS[type(op)]  # pylint: disable=protected-access
    if (isinstance(a, NdArr) or isinstance(b, NdArr)) and isinstance(op, (ast.Lt, ast.LtE, ast.Gt, ast.GtE, ast.Eq, ast.NotEq)):
      # elementwise comparison of arrays: an array of booleans (its truth value is only defined for one element)
      try:
        r = NdArr.broadcast(f, a, b)
      except (ValueError, TypeError):
        return Opaque('cmp')
      if isinstance(r, NdArr):
        r.kind = 'b'
        return r if r.size != 1 else r   # np.all / np.any / bool() decide what it means
      return r
    try:
      return f(a, b)
    except TypeError:
      return Opaque('cmp')

  def getattr(self, base, attr, node):
    if isinstance(base, Opaque):
      return Opaque(f'{base.tag}.{attr}')
    if isinstance(base, Obj):
      if attr in base.fields:
        return base.fields[attr]
      ci = self._class(base.cls)
      if ci is not None and attr in ci.methods:
        return BoundObj(base, ci.methods[attr])
      if base.cls.startswith('x:'):
        # a stand-in for a generated flatbuffer object: the fields the rule did not spell out have the schema's defaults
        d = consteval.schema_object_defaults(base.cls[2:])
        if d is not None and attr in d:
          return d[attr]
      raise _Raise('AttributeError', attr, node)
    if isinstance(base, EnumVal):
      if attr == 'value':
        return base.value
      if attr == 'name':
        return base.name
    if isinstance(base, Ref) and base.kind == 'class':
      ci = self._class(base.fq)
      if ci is not None:
        s = self.repo.resolve_attr(index.Sym('class', ci), attr)
        return self.from_sym(s, attr)
    if isinstance(base, (dict, list, set, frozenset, str, tuple, bytes)):
      return ('method', base, attr)
    if _is_num(base) and attr in ('astype', 'item', 'flatten', 'copy', 'squeeze'):
      return ('method', base, attr)
    if _is_num(base) and attr in ('ndim', 'size', 'shape'):
      return {'ndim': 0, 'size': 1, 'shape': ()}[attr]   # a numpy scalar / 0-d array
    if isinstance(base, NdArr):
      if attr == 'shape':
        return base.shape
      if attr == 'ndim':
        return base.ndim
      if attr == 'size':
        return base.size
      if attr == 'T':
        return base.transpose()
      if attr == 'dtype':
        return consteval.Ext('dtype.' + base.kind) if base.kind in ('i', 'f') else Opaque('dtype')
      return ('method', base, attr)
    if isinstance(base, Ext):
      return Ext(f'{base.name}.{attr}')
    if base is None:
      raise _Raise('AttributeError', f"'NoneType' object has no attribute '{attr}'", node)
    return Opaque(f'attr.{attr}')

  def _class(self, fq: str) -> Optional[index.ClassInfo]:
    short, name = fq.split(':', 1)
    m = self.repo.by_short.get(short)
    return m.classes.get(name) if m else None

  def from_sym(self, s: index.Sym, label: str):
    if s.kind == 'enum_member':
      return self.ev.enum_val(s.obj, s.extra)
    if s.kind == 'const':
      try:
        return self.ev.eval(s.obj, s.extra, {})
      except consteval.NotConstant:
        # module-level value computed by a call: interpret it
        try:
          return self.eval(s.obj, s.extra, {}, 1)
        except (_Raise, NotInterpretable):
          return Opaque(label)
    if s.kind in ('func', 'bound'):
      return Ref('func', s.obj.fq)
    if s.kind == 'class':
      return Ref('class', s.obj.fq)
    if s.kind == 'module':
      return Opaque(f'module:{s.obj.short}')
    if s.kind == 'instance':
      return Opaque(f'instance:{s.obj.fq}')
    if s.kind == 'external':
      try:
        return self.ev._external(str(s.obj))  # pylint: disable=protected-access
      except index.AnalysisError:
        raise
    return Opaque(label)

  # ------------------------------------------------------------------ calls
  def call(self, node: ast.Call, module, env, depth):
    ev = lambda n: self.eval(n, module, env, depth)
    fname = ast.unparse(node.func)
    args = self._elts(node.args, module, env, depth)
    kwargs = {}
    for k in node.keywords:
      v = ev(k.value)
      if k.arg is None:
        if isinstance(v, dict):
          kwargs.update(v)
        else:
          return Opaque('**')
      else:
        kwargs[k.arg] = v
    # builtins -------------------------------------------------------------
    if isinstance(node.func, ast.Name) and node.func.id not in env:
      b = node.func.id
      r = self._builtin(b, args, kwargs, node)
      if r is not _NO:
        return r
    if fname in ('copy.deepcopy', 'copy.copy'):
      if fname.endswith('.copy') and isinstance(args[0], Obj):
        return Obj(args[0].cls, dict(args[0].fields), args[0].nocmp)   # a new object, the same field values
      return _copy.deepcopy(args[0]) if fname.endswith('deepcopy') else _copy.copy(args[0])
    if fname == 'dataclasses.asdict':
      return self._asdict(args[0], kwargs.get('dict_factory'), depth)
    if fname == 'dataclasses.replace' and isinstance(args[0], Obj):
      # dataclasses.replace builds a NEW object from the old one's field values (shared, not copied) and the changes
      unknown = [k for k in kwargs if k not in args[0].fields]
      if unknown:
        raise _Raise('TypeError', f'replace() got an unexpected field {unknown[0]!r}', node)
      o = Obj(args[0].cls, dict(args[0].fields), args[0].nocmp)
      o.fields.update(kwargs)
      ci = self._class(o.cls)
      post = ci.methods.get('__post_init__') if ci is not None else None
      if post is not None:
        self.call_function(post, [o], {}, depth + 1)
      return o
    if fname == 'frozenset.union':
      try:
        out = frozenset()
        for a in args:
          out = out | frozenset(a)
        return out
      except TypeError:
        return Opaque('union')
    if fname in ('collections.OrderedDict', 'dict') and not isinstance(node.func, ast.Name):
      return dict(args[0]) if args else {}
    if fname.endswith('immutabledict.immutabledict'):
      return dict(args[0]) if args else {}
    if fname == 'json.loads' and args and isinstance(args[0], str):
      import json  # pylint: disable=g-import-not-at-top
      try:
        return json.loads(args[0])
      except ValueError:
        raise _Raise('ValueError', 'json', node)
    if fname in ('re.search', 're.match', 're.fullmatch'):
      if all(isinstance(a, str) for a in args[:2]) and len(args) >= 2:
        import re  # pylint: disable=g-import-not-at-top
        try:
          return getattr(re, fname.split('.')[1])(args[0], args[1]) is not None or None
        except re.error:
          raise _Raise('error', 're', node)
      return Opaque('re')
    if fname.startswith('logging.'):
      return None
    if fname.split('.')[0] in ('np', 'numpy') and any(isinstance(a, NdArr) for a in args):
      try:
        return ndarr.np_call(fname.split('.', 1)[1], args, kwargs)
      except ndarr.NotModelled:
        return Opaque(f'call:{fname}', notnone=True)
      except (ValueError, IndexError, TypeError) as e:
        raise _Raise(type(e).__name__, str(e), node)
    if fname in ('np.mean', 'numpy.mean', 'np.average', 'np.sum', 'numpy.sum', 'np.min', 'np.max', 'numpy.min', 'numpy.max') and len(args) == 1 and not kwargs \
        and isinstance(args[0], (list, tuple)) and args[0] and all(_is_num(x) for x in args[0]):
      import fractions as _fr  # pylint: disable=g-import-not-at-top
      xs = list(args[0])
      what = fname.split('.')[1]
      if what in ('mean', 'average'):
        tot = sum(xs)
        return _fr.Fraction(tot) / len(xs) if not isinstance(tot, float) else tot / len(xs)
      return {'sum': sum, 'min': min, 'max': max}[what](xs)
    if fname.split('.')[0] in ('np', 'numpy') and args and all(_is_num(a) for a in args):
      r = _np_scalar(fname.split('.', 1)[1], args)
      if r is not _NO:
        return r
    if fname.split('.')[0] in ('np', 'numpy') and fname.split('.', 1)[-1] in ('full', 'zeros', 'ones', 'arange', 'searchsorted') \
        and not any(isinstance(a, Opaque) for a in list(args) + list(kwargs.values())):
      try:
        return ndarr.np_create(fname.split('.', 1)[1], args, kwargs)
      except ndarr.NotModelled:
        return Opaque(f'call:{fname}', notnone=True)
    if fname in ('np.array', 'np.asarray', 'numpy.array', 'numpy.asarray') and len(args) == 1 and set(kwargs) == {'dtype'} \
        and isinstance(args[0], (list, tuple)) and all(isinstance(x, int) and not isinstance(x, bool) for x in args[0]) \
        and isinstance(kwargs['dtype'], Ext) and kwargs['dtype'].name in ('np.int32', 'np.int64'):
      return NdArr((len(args[0]),), list(args[0]), 'i')   # a shape / axis vector
    if fname in ('np.array', 'np.asarray', 'numpy.array', 'numpy.asarray') and args and not kwargs:
      if isinstance(args[0], list) and args[0] and all(isinstance(x, (int, float)) and not isinstance(x, bool) for x in args[0]):
        return NpVec(args[0])  # a fresh numeric vector (np.array copies)
      return args[0]  # transparent for folded scalars / other lists
    if fname == 'itertools.groupby' and args and not isinstance(args[0], Opaque):
      keyf = kwargs.get('key') if 'key' in kwargs else (args[1] if len(args) > 1 else None)
      out = []
      for item in list(args[0]):
        k = item if keyf is None else self.apply(keyf, [item], {}, node, module, depth)
        if isinstance(k, Opaque):
          return Opaque('groupby')
        if out and out[-1][0] == k:
          out[-1][1].append(item)
        else:
          out.append((k, [item]))
      return out
    if fname == 'itertools.chain' and not any(isinstance(a, Opaque) for a in args):
      out = []
      for a in args:
        out.extend(list(a))
      return out
    if fname in self.hooks:
      return self.hooks[fname](args, kwargs)
    if fname in ('np.frombuffer', 'numpy.frombuffer') and len(args) == 1 and isinstance(args[0], (bytes, bytearray)) \
        and isinstance(kwargs.get('dtype'), Ext) and kwargs['dtype'].name in ('np.uint8', 'np.int8') and set(kwargs) == {'dtype'}:
      vals_ = list(args[0]) if kwargs['dtype'].name == 'np.uint8' else [b - 256 if b > 127 else b for b in args[0]]
      return NdArr((len(vals_),), vals_, 'i')
    if fname in ('np.issubdtype', 'numpy.issubdtype') and len(args) == 2 and all(isinstance(a, Ext) and a.value is None for a in args):
      r = _issubdtype(args[0].name, args[1].name)
      if r is not None:
        return r
    if fname in ('cast', 'typing.cast') and len(args) == 2 and 'cast' not in env:
      return args[1]
    if _root_name(node.func) not in env and isinstance(
        node.func, (ast.Name, ast.Attribute)):
      s = self.repo.resolve_expr(module, node.func)
      if s.kind == 'const' and isinstance(s.obj, ast.Subscript) and (
          ast.unparse(s.obj.value).split('.')[-1] in ('OrderedDict', 'dict')
      ):
        # a subscripted generic alias such as collections.OrderedDict[K, V]
        return dict(args[0]) if args else {}
    callee = ev(node.func)
    return self.apply(callee, args, kwargs, node, module, depth)

  def apply(self, callee, args, kwargs, node, module, depth):
    if getattr(callee, 'sa_hook', False):
      return callee(args, kwargs)
    if isinstance(callee, tuple) and len(callee) == 3 and callee[0] == 'method':
      return self._method(callee[1], callee[2], args, kwargs, node)
    if isinstance(callee, Closure):
      if isinstance(callee.node, ast.Lambda):
        env2 = dict(callee.env)
        self._bind_params(callee.node.args, callee.module, args, kwargs, env2,
                          depth, 'lambda')
        return self.eval(callee.node.body, callee.module, env2, depth + 1)
      env2 = dict(callee.env)
      self._bind_params(callee.node.args, callee.module, args, kwargs, env2,
                        depth, callee.node.name)
      try:
        self.exec_block(callee.node.body, callee.module, env2, depth + 1,
                        callee.func)
      except _Return as r:
        return r.value
      return None
    if isinstance(callee, BoundObj):
      static = any(isinstance(d, ast.Name) and d.id == 'staticmethod' for d in callee.func.node.decorator_list)
      recv = [] if static else ([Ref('class', callee.func.cls.fq)] if callee.func.is_classmethod and callee.func.cls is not None else [callee.obj])
      if callee.func.fq in self.hooks:
        return self.hooks[callee.func.fq](recv + args, kwargs)
      return self.call_function(callee.func, recv + args, kwargs, depth + 1)
    if isinstance(callee, Ref) and callee.kind == 'func':
      if callee.fq in self.hooks:
        return self.hooks[callee.fq](args, kwargs)
      if callee.fq in self.opaque_calls:
        return Opaque(f'call:{callee.fq}')
      fi = self.repo.func(callee.fq)
      if fi.cls is not None and fi.is_classmethod:
        args = [Ref('class', fi.cls.fq)] + args
      elif fi.cls is not None and fi.is_method and fi.parent is None:
        # bound method of a module-level instance: self is opaque
        if len(args) < len(fi.pos_params) and (
            not args or not isinstance(args[0], (Obj, Opaque))
            or len(args) + 1 <= len(fi.pos_params)
        ):
          args = [Opaque(f'instance:{fi.cls.fq}')] + args
      return self.call_function(fi, args, kwargs, depth + 1)
    if isinstance(callee, Ref) and callee.kind == 'class':
      return self.construct(callee.fq, args, kwargs, node, depth)
    text = ast.unparse(node.func)
    # numpy's array constructors and functions return arrays / numbers, never None (the few in-place procedures excepted)
    np_value = text.split('.')[0] in ('np', 'numpy') and text.split('.')[-1] not in ('copyto', 'put', 'place', 'putmask', 'shuffle', 'seed', 'fill', 'save', 'savez', 'seterr')
    return Opaque(f'call:{text[:40]}', notnone=np_value)

  def construct(self, fq, args, kwargs, node, depth):
    ci = self._class(fq)
    if ci is None:
      return Opaque('construct')
    if ci.is_enum:
      if len(args) != 1:
        return Opaque('enum')
      v = args[0]
      if isinstance(v, Opaque):
        return Opaque('enum')
      for m in self.ev.enum_members(ci):
        if m == v or m.value == v:
          return m
      raise _Raise('ValueError', f'{v!r} is not a valid {ci.name}', node)
    if ci.is_dataclass:
      names = [f.name for f in ci.fields]
      if len(args) > len(names):
        raise _Raise('TypeError', f'{ci.name}: too many arguments', node)
      fields = dict(zip(names, args))
      for k, v in kwargs.items():
        if k not in names:
          raise _Raise(
              'TypeError', f'{ci.name}: unexpected keyword argument {k!r}', node
          )
        if k in fields:
          raise _Raise('TypeError', f'{ci.name}: multiple values for {k}', node)
        fields[k] = v
      for f in ci.fields:
        if f.name not in fields:
          if f.default is None:
            raise _Raise('TypeError', f'{ci.name}: missing {f.name}', node)
          d = f.default
          if isinstance(d, ast.Call) and ast.unparse(d.func).endswith('field'):
            df = {k.arg: k.value for k in d.keywords}
            if 'default_factory' in df:
              fac = self.eval(df['default_factory'], ci.module, {}, depth)
              fields[f.name] = self.apply(fac, [], {}, node, ci.module, depth)
            elif 'default' in df:
              fields[f.name] = self.eval(df['default'], ci.module, {}, depth)
            else:
              fields[f.name] = Opaque('field')
          else:
            fields[f.name] = self.eval(d, ci.module, {}, depth)
      nocmp = set()
      for f in ci.fields:
        d = f.default
        if isinstance(d, ast.Call) and ast.unparse(d.func).endswith('field'):
          for k in d.keywords:
            if k.arg == 'compare' and isinstance(k.value, ast.Constant) and k.value.value is False:
              nocmp.add(f.name)
      obj = Obj(fq, {n: fields[n] for n in names}, nocmp)
      post = ci.methods.get('__post_init__')
      if post is not None:
        self.call_function(post, [obj], {}, depth + 1)
      return obj
    init = ci.methods.get('__init__')
    obj = Obj(fq, {})
    if init is not None:
      try:
        self.call_function(init, [obj] + args, kwargs, depth + 1)
      except NotInterpretable:
        return Opaque(f'instance:{fq}')
    return obj

  def _asdict(self, obj, factory, depth):
    def conv(o):
      if isinstance(o, Obj):
        pairs = [(k, conv(v)) for k, v in o.fields.items()]
        if factory is None:
          return dict(pairs)
        return self.apply(factory, [pairs], {}, None, None, depth)
      if isinstance(o, (list, tuple)):
        return type(o)(conv(x) for x in o)
      if isinstance(o, dict):
        return {k: conv(v) for k, v in o.items()}
      return o
    if isinstance(obj, Opaque):
      return Opaque('asdict')
    return conv(obj)

  def _builtin(self, b, args, kwargs, node):
    if any(isinstance(a, Opaque) for a in args) and b not in ('isinstance', 'dict', 'list', 'tuple', 'len', 'set', 'frozenset', 'enumerate', 'zip'):
      if b in ('len', 'min', 'max', 'sum', 'abs', 'int', 'float', 'str', 'bool', 'sorted', 'range', 'any', 'all', 'reversed', 'iter', 'next', 'type', 'id', 'hash', 'round', 'bytes', 'bytearray'):
        return Opaque(b)
      return _NO
    try:
      if b == 'len':
        if isinstance(args[0], Opaque):
          return Opaque('len')
        return len(args[0])
      if b == 'isinstance':
        return self._isinstance(args[0], args[1])
      if b in ('list', 'tuple', 'set', 'frozenset'):
        if not args:
          return {'list': list, 'tuple': tuple, 'set': set, 'frozenset': frozenset}[b]()
        if isinstance(args[0], Opaque):
          return Opaque(b)
        src = args[0]
        if isinstance(src, dict):
          src = list(src.keys())
        if isinstance(src, NdArr):
          if not src.shape:
            raise _Raise('TypeError', 'iteration over a 0-d array', node)
          src = [src.index(i) for i in range(src.shape[0])]
        return {'list': list, 'tuple': tuple, 'set': set, 'frozenset': frozenset}[b](src)
      if b == 'dict':
        out = {}
        if args:
          if isinstance(args[0], Opaque):
            return Opaque('dict')
          out = dict(args[0])
        out.update(kwargs)
        return out
      if b == 'enumerate':
        if isinstance(args[0], Opaque):
          return Opaque('enumerate')
        return list(enumerate(args[0], *args[1:]))
      if b == 'zip':
        if any(isinstance(a, Opaque) for a in args):
          return Opaque('zip')
        return list(zip(*[list(a) for a in args]))
      if b == 'range':
        return list(range(*args))
      if b == 'reversed':
        return list(reversed(list(args[0])))
      if b in ('sorted', 'min', 'max') and 'key' in kwargs and isinstance(kwargs['key'], (Closure, BoundObj, Ref)):
        keyf = kwargs['key']
        items = list(args[0])
        keyed = [(self.apply(keyf, [x], {}, node, None, 0), x) for x in items]
        if any(isinstance(k, Opaque) for k, _ in keyed):
          return Opaque(b)
        if b == 'sorted':
          return [x for _, x in sorted(keyed, key=lambda kv: kv[0], reverse=bool(kwargs.get('reverse', False)))]
        return (min if b == 'min' else max)(keyed, key=lambda kv: kv[0])[1]
      if b in ('min', 'max') and len(args) == 1 and isinstance(args[0], (list, tuple)) and not args[0] and 'default' not in kwargs:
        raise _Raise('ValueError', f'{b}() arg is an empty sequence', node)
      if b == 'abs' and len(args) == 1 and isinstance(args[0], NdArr):
        return args[0].map(abs)
      if b == 'float' and len(args) == 1 and type(args[0]).__name__ == 'Fraction':
        return args[0]   # exact numbers stay exact
      if b in ('min', 'max', 'sum', 'abs', 'int', 'float', 'str', 'bool', 'sorted', 'any', 'all', 'round'):
        return {'min': min, 'max': max, 'sum': sum, 'abs': abs, 'int': int,
                'float': float, 'str': str, 'bool': bool, 'sorted': sorted,
                'any': any, 'all': all, 'round': round}[b](*args, **kwargs)
      if b in ('bytes', 'bytearray') and not kwargs and len(args) <= 1:
        if not args:
          return bytes() if b == 'bytes' else bytearray()
        if isinstance(args[0], (int, bytes, bytearray)) and not isinstance(args[0], bool) or (
            isinstance(args[0], list) and all(isinstance(x, int) for x in args[0])):
          if isinstance(args[0], int) and args[0] > 1 << 16:
            return Opaque(b)
          return bytes(args[0]) if b == 'bytes' else bytearray(args[0])
        return Opaque(b)
      if b == 'iter':
        return list(args[0])
      if b == 'next':
        seq = list(args[0])
        if seq:
          return seq[0]
        if len(args) > 1:
          return args[1]   # next(iterator, default)
        raise _Raise('StopIteration', '', node)
      if b in ('print',):
        return None
      if b in ('ValueError', 'TypeError', 'RuntimeError', 'KeyError'):
        return Opaque('exc')
    except _Raise:
      raise
    except Exception:  # pylint: disable=broad-except
      return Opaque(b)
    return _NO

  def _isinstance(self, v, t):
    if isinstance(v, Opaque):
      return Opaque('isinstance')
    names = []
    ts = t if isinstance(t, tuple) else (t,)
    for x in ts:
      if isinstance(x, Ref):
        names.append(x.fq)
      elif isinstance(x, Ext):
        names.append(x.name)
      else:
        names.append(repr(x))
    if isinstance(v, Obj):
      return v.cls in names
    if isinstance(v, NdArr):
      return any(n.split('.')[-1] == 'ndarray' for n in names)
    if v is None:
      return any(n in ('NoneType', 'type(None)') for n in names)
    if isinstance(v, EnumVal):
      return v.cls in names or (v.is_str and 'str' in names)
    py = {'str': str, 'dict': dict, 'list': list, 'int': int, 'bool': bool,
          'float': float, 'tuple': tuple, 'bytes': bytes}
    for n in names:
      if n in py and isinstance(v, py[n]):
        return True
    if all(n in py for n in names):
      return False
    if isinstance(v, (bytes, bytearray)) and all(n in py or n.split('.')[-1] == 'ndarray' for n in names):
      return False  # raw bytes are never a numpy array
    return Opaque('isinstance')

  def _method(self, base, attr, args, kwargs, node):
    if any(isinstance(a, Opaque) for a in args) and attr in ('get', 'index', 'count', 'startswith', 'endswith'):
      return Opaque(attr)
    try:
      if isinstance(base, dict):
        if attr == 'items':
          return list(base.items())
        if attr == 'keys':
          return list(base.keys())
        if attr == 'values':
          return list(base.values())
        if attr == 'get':
          return base.get(*args)
        if attr == 'pop':
          if args[0] in base:
            return base.pop(args[0])
          if len(args) > 1:
            return args[1]
          raise _Raise('KeyError', repr(args[0]), node)
        if attr == 'update':
          base.update(*args, **kwargs)
          return None
        if attr == 'setdefault':
          return base.setdefault(*args)
        if attr == 'copy':
          return dict(base)
      if isinstance(base, list):
        if attr in ('append', 'extend', 'insert', 'remove', 'pop', 'clear', 'sort', 'reverse', 'index', 'count', 'copy'):
          return getattr(base, attr)(*args, **kwargs)
      if isinstance(base, set):
        if attr in ('add', 'discard', 'update', 'remove', 'union', 'copy', 'intersection', 'difference'):
          return getattr(base, attr)(*args)
      if isinstance(base, frozenset):
        if attr in ('union', 'intersection', 'difference'):
          return getattr(base, attr)(*args)
      if isinstance(base, str):
        if attr in ('lower', 'upper', 'strip', 'startswith', 'endswith', 'split', 'join', 'format', 'decode', 'encode', 'replace'):
          return getattr(base, attr)(*args, **kwargs)
      if isinstance(base, tuple) and attr in ('index', 'count'):
        return getattr(base, attr)(*args)
      if isinstance(base, NdArr):
        try:
          return ndarr.method(base, attr, args, kwargs)
        except ndarr.NotModelled:
          return Opaque(f'method.{attr}')
        except OverflowError as e:
          raise _Raise('OverflowError', str(e), node)
      if isinstance(base, NpVec) and attr == 'tolist' and not args:
        return list(base)
      if _is_num(base) and attr == 'astype' and args:
        t = args[0]
        tname = getattr(t, 'name', None) or ''
        bits = {'int8': 8, 'int16': 16, 'int32': 32, 'int64': 64, 'uint8': 8, 'uint16': 16, 'uint32': 32, 'uint64': 64}.get(tname.split('.')[-1])
        if bits is not None:
          signed = not tname.split('.')[-1].startswith('u')
          lo, hi = (-(1 << (bits - 1)), (1 << (bits - 1)) - 1) if signed else (0, (1 << bits) - 1)
          if not lo <= base <= hi:
            # numpy would wrap around (or invoke undefined behaviour for floats): never a value the caller meant
            raise _Raise('OverflowError', f'{base} cast to {tname} wraps around', node)
          return int(base) if base == int(base) else int(base)
        fmax = {'float32': 3.4028234663852886e38, 'float16': 65504.0}.get(tname.split('.')[-1])
        if fmax is not None and abs(base) > fmax:
          return float('inf') if base > 0 else float('-inf')   # a float type narrower than the value overflows to infinity
        return base
      if _is_num(base) and attr in ('flatten', 'ravel'):
        return NdArr((1,), [base])   # a 0-d array flattens to one element
      if _is_num(base) and attr in ('astype', 'item', 'flatten', 'copy', 'squeeze'):
        return base   # a numpy scalar stays the same number
      if isinstance(base, bytes) and attr in ('decode', 'startswith', 'endswith'):
        return getattr(base, attr)(*args, **kwargs)
    except _Raise:
      raise
    except (KeyError, IndexError, ValueError) as e:
      raise _Raise(type(e).__name__, str(e), node)
    except Exception:  # pylint: disable=broad-except
      return Opaque(attr)
    return Opaque(f'method.{attr}')


_NO = object()


def _is_num(x) -> bool:
  import fractions  # pylint: disable=g-import-not-at-top
  return isinstance(x, (int, float, fractions.Fraction)) and not isinstance(x, bool)


def _np_scalar(name: str, args):
  """numpy functions on plain numbers (exact on ints / Fractions)."""
  import fractions  # pylint: disable=g-import-not-at-top
  a = args
  if name == 'maximum' and len(a) == 2:
    return a[0] if a[0] >= a[1] else a[1]
  if name == 'minimum' and len(a) == 2:
    return a[0] if a[0] <= a[1] else a[1]
  if name in ('abs', 'absolute', 'fabs') and len(a) == 1:
    return abs(a[0])
  if name in ('rint', 'round', 'around') and len(a) == 1:
    return round(a[0]) if not isinstance(a[0], int) else a[0]   # round-half-even, like numpy
  if name in ('floor', 'ceil') and len(a) == 1:
    import math  # pylint: disable=g-import-not-at-top
    return getattr(math, name)(a[0])
  if name in ('zeros_like',) and len(a) >= 1:
    return 0
  if name in ('ones_like',) and len(a) >= 1:
    return 1
  if name in ('multiply', 'add', 'subtract', 'divide', 'true_divide') and len(a) == 2:
    if name == 'multiply':
      return a[0] * a[1]
    if name == 'add':
      return a[0] + a[1]
    if name == 'subtract':
      return a[0] - a[1]
    if a[1] == 0:
      return _NO
    if isinstance(a[0], int) and isinstance(a[1], int):
      return fractions.Fraction(a[0], a[1])
    return a[0] / a[1]
  if name == 'clip' and len(a) == 3:
    return min(max(a[0], a[1]), a[2])
  if name in ('float64', 'float32', 'float16', 'squeeze', 'asarray', 'array') and len(a) == 1:
    return a[0]
  if name in ('any', 'all') and len(a) == 1:
    return bool(a[0])
  if name in ('int8', 'int16', 'int32', 'int64') and len(a) == 1 and (isinstance(a[0], int) or a[0] == int(a[0])):
    return int(a[0])
  return _NO


def _as_load(node):
  n = _copy.deepcopy(node)
  for sub in ast.walk(n):
    if hasattr(sub, 'ctx'):
      sub.ctx = ast.Load()
  return n


def _root_name(node):
  while isinstance(node, ast.Attribute):
    node = node.value
  return node.id if isinstance(node, ast.Name) else None


def root_name(node):
  return _root_name(node)
