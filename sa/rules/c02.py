"""C02 - quantization preserves the graph skeleton and the model I/O contract."""
from __future__ import annotations

import ast

from sa import callgraph
from sa import cfg as cfgmod
from sa import defuse
from sa import effects
from sa import index
from sa.rules import common
from sa.rules import shared

EXPLANATION = (
    'Frame rule (write-set) of the insertion transformations: every store on a '
    'non-fresh flatbuffer object in their call tree is classified and the ones '
    'that would change the skeleton are forbidden; rewiring of operands is '
    'confined to the listed consumers, guarded by equality with the source '
    'tensor and complete; subgraph.outputs is rewired only by the instruction '
    'that covers the graph output and signature outputs are retargeted per '
    'signature from that signature\'s own subgraph; the source model is never '
    'written (alias/effect analysis) and the transformed object is a deep copy. '
    'Two decision tables close the chain from "tensor is a graph output" to '
    '"output is rewired": graph info records -1 for every subgraph output (R6), '
    'and the performer hands every consumer entry, -1 included, to the '
    'transformation under the current op-id maps (R5).'
)
LEVEL_TEXT = (
    'Decides the structural half of skeleton preservation for every model at '
    'once: the only writes the insertion transformations can perform on '
    'pre-existing objects are operand rewiring of listed consumers, output '
    'rewiring under the graph-output pseudo consumer, dtype/quantization '
    'annotation and buffer overwrite; nothing is renamed, reshaped, removed or '
    'reordered. Graph isomorphism on concrete models is not decided.'
    ' Tables / simulations over listed lattices: consumer translation with the -1 pseudo consumer, signature outputs per signature, graph rewrite, whole pipeline (graph inputs / outputs float unless selected).'
)
LEVEL_NOTE = (
    'Trusted: sa engines; EMULATED_SUBCHANNEL (op replacement) is excluded as '
    'in the property. Not decided: isomorphism of concrete graphs, I/O dtypes '
    'under a given recipe.'
)
TECHNIQUE = 'write-set (frame) classification over the call graph + guarded-store rules + effect analysis + abstract interpretation of the repository functions over a finite lattice (decision tables / label-model simulations compared with an independent expectation) (static)'

FORBIDDEN_ATTR_STORES = {'name', 'shape', 'opcodeIndex', 'builtinOptions', 'builtinOptionsType',
                         'builtinOptions2', 'customOptions', 'customOptionsFormat', 'version',
                         'signatureKey', 'subgraphIndex', 'isVariable', 'shapeSignature'}
STRUCT_LISTS = {'operators', 'tensors', 'inputs', 'outputs', 'signatureDefs', 'subgraphs', 'buffers', 'operatorCodes'}
REMOVERS = {'pop', 'remove', 'clear', 'sort', 'reverse', '__delitem__'}


def insertion_tree(ctx):
  trans = shared.insertion_transformations(ctx)
  roots = [trans[k] for k in ('ADD_QUANTIZE', 'ADD_DEQUANTIZE', 'QUANTIZE_TENSOR') if k in trans]
  if len(roots) != 3:
    raise index.AnalysisError('insertion transformations are not all registered')
  cg = callgraph.get(ctx)
  chain = cg.reachable([r.fq for r in roots])
  return roots, [ctx.repo.func(fq) for fq in chain]


def fresh_names(f: index.FuncInfo) -> set[str]:
  """Locals bound (only) to freshly constructed flatbuffer objects."""
  out = set()
  for name, vals in defuse.own_assignments(f.node).items():
    vals = [v for v in vals if v is not None]
    if vals and all(isinstance(v, ast.Call) and (common.call_name(v).split('.')[-1].endswith('T') and 'schema_py_generated' in common.call_name(v)) for v in vals):
      out.add(name)
  return out


def r1_frame(ctx):
  R = 'C02.R1'
  ctx.rule(R, 'insertion transformations never rename, reshape, re-type the op of, remove or reorder pre-existing objects', floor=3)
  roots, funcs = insertion_tree(ctx)
  classified = 0
  for f in funcs:
    if not f.module.short.startswith('transformations.'):
      continue
    if f.module.short == 'transformations.emulated_subchannel':
      continue
    ctx.instance(R)
    fresh = fresh_names(f)
    # ids returned by the helpers that append a NEW tensor: `<..>.tensors[new_id]` is that new tensor, not an original one
    fresh_ids = {name for name, vals in defuse.own_assignments(f.node).items()
                 if vals and all(isinstance(v, ast.Call) and common.call_name(v).split('.')[-1] in ('add_new_activation_tensor', 'add_new_constant_tensor') for v in vals)}
    for n in common.walk_no_nested(f.node):
      tgt_list = []
      if isinstance(n, ast.Assign):
        tgt_list = n.targets
      elif isinstance(n, ast.AugAssign):
        tgt_list = [n.target]
      for t in tgt_list:
        if isinstance(t, ast.Attribute):
          classified += 1
          base = t.value
          is_fresh = isinstance(base, ast.Name) and base.id in fresh
          if isinstance(base, ast.Subscript) and isinstance(base.value, ast.Attribute) and base.value.attr == 'tensors' and isinstance(base.slice, ast.Name) and base.slice.id in fresh_ids:
            is_fresh = True
          if is_fresh:
            continue
          if isinstance(base, ast.Subscript) and isinstance(base.value, ast.Name) and base.value.id in ('model_op_codes',) and isinstance(base.slice, ast.UnaryOp):
            continue  # model_op_codes[-1] right after the append in add_op_code
          ctx.check(R, t.attr not in FORBIDDEN_ATTR_STORES, n, f, n,
                    f'store into .{t.attr} of a pre-existing object: the original {"tensor" if t.attr in ("name", "shape") else "operator"} is altered')
          if t.attr in ('outputs',):
            ctx.check(R, False, n, f, n, 'the outputs of a pre-existing operator are rewritten')
          if t.attr in STRUCT_LISTS and isinstance(n, ast.Assign):
            ctx.check(R, False, n, f, n, f'the {t.attr} list of a pre-existing object is replaced wholesale')
        elif isinstance(t, ast.Subscript) and isinstance(t.value, ast.Attribute):
          classified += 1
          a = t.value.attr
          base = t.value.value
          is_fresh = isinstance(base, ast.Name) and base.id in fresh
          if a in ('tensors', 'operators', 'subgraphs', 'signatureDefs', 'operatorCodes') and not is_fresh:
            ctx.check(R, False, n, f, n, f'element of .{a} is overwritten: an original object is dropped')
          if a == 'inputs' and not is_fresh:
            # operand rewiring (R2) - only op.inputs, never subgraph.inputs
            bn = ast.unparse(base)
            ctx.check(R, 'subgraph' not in bn.split('.')[-1], n, f, n, 'subgraph.inputs is rewritten: the model input contract changes')
      if isinstance(n, ast.Delete):
        for t in n.targets:
          if isinstance(t, ast.Subscript) and isinstance(t.value, ast.Attribute) and t.value.attr in STRUCT_LISTS:
            ctx.check(R, False, n, f, n, f'an element of .{t.value.attr} is deleted')
      if isinstance(n, ast.Call) and isinstance(n.func, ast.Attribute) and n.func.attr in REMOVERS:
        recv = n.func.value
        if isinstance(recv, ast.Attribute) and recv.attr in STRUCT_LISTS:
          ctx.check(R, False, n, f, n, f'.{recv.attr}.{n.func.attr}() removes or reorders pre-existing objects')
      if isinstance(n, ast.Call) and isinstance(n.func, ast.Attribute) and n.func.attr == 'insert':
        recv = n.func.value
        if isinstance(recv, ast.Attribute) and recv.attr in ('tensors', 'inputs', 'outputs', 'subgraphs', 'buffers'):
          ctx.check(R, False, n, f, n, f'.{recv.attr}.insert() shifts the indices of pre-existing objects')
  ctx.extra['stores_classified'] = classified
  ctx.sample(R, {'functions': sorted(f.fq for f in funcs if f.module.short.startswith('transformations.')), 'stores_classified': classified})
  if classified < 10:
    raise index.AnalysisError(f'{R}: only {classified} stores classified')


def r2_rewiring(ctx):
  R = 'C02.R2'
  ctx.rule(R, 'operand rewiring: only listed consumers, only operands equal to the source tensor, to the new tensor, all occurrences', floor=2)
  trans = shared.insertion_transformations(ctx)
  seen = set()
  for key in ('ADD_QUANTIZE', 'ADD_DEQUANTIZE'):
    root = trans[key]
    stores = shared.find_rewire_stores(ctx, [root], 'inputs')
    n = 0
    for f, st, tgt in stores:
      base = tgt.value.value
      if isinstance(base, ast.Name) and base.id in fresh_names(f):
        continue
      n += 1
      if id(st) in seen:
        continue
      seen.add(id(st))
      g = cfgmod.build(f.node)
      sn = g.node_of(st)
      loops = shared.enclosing_loops(f.node, st)
      # the op comes from operators[c] with c iterating the consumers
      opname = ast.unparse(base)
      defs = [d for d in defuse.own_assignments(f.node).get(opname, []) if d is not None] if isinstance(base, ast.Name) else [base]
      ok = False
      cvar = None
      for d in defs:
        if isinstance(d, ast.Subscript) and ast.unparse(d.value).endswith('operators') and isinstance(d.slice, ast.Name):
          cvar = d.slice.id
      if cvar:
        for l in loops:
          if isinstance(l, ast.For) and isinstance(l.target, ast.Name) and l.target.id == cvar and ast.unparse(l.iter).endswith('consumers'):
            ok = True
      ctx.check(R, ok, st, f, st, 'the rewired operator is not taken from the instruction\'s consumer list: operators outside the instruction are touched')
      # guard: op.inputs[i] == tensor id, on every path to the store
      guards = [m for m in g.nodes if m.kind == 'if' and g.every_path_passes(g.entry.id, sn.id, {m.id})]
      eq = []
      for m in guards:
        t = m.ast.test
        if isinstance(t, ast.Compare) and len(t.ops) == 1 and isinstance(t.ops[0], ast.Eq):
          sides = [defuse.norm(t.left), defuse.norm(t.comparators[0])]
          if any(s.endswith('tensor_id') for s in sides):
            eq.append((m, sides))
      okg = False
      for m, sides in eq:
        if sn.id in g.reachable([d for d, lab in g.succ[m.id] if lab == 'T']) and sn.id not in g.reachable([d for d, lab in g.succ[m.id] if lab == 'F'], blocked={x.id for x in g.nodes if x.kind in ('for', 'while')}):
          okg = True
      # the same fact written as a guard clause (`if operand != tensor id: continue` before the store)
      for fact in common.facts_at(f.node, st):
        if isinstance(fact, ast.Compare) and len(fact.ops) == 1 and isinstance(fact.ops[0], ast.Eq) \
            and any(defuse.norm(x).endswith('tensor_id') for x in (fact.left, fact.comparators[0])):
          okg = True
      ctx.check(R, okg, st, f, st, 'the store is not guarded by equality of the operand with the source tensor: unrelated operands are rewired')
      rhs = defuse.norm(st.value)
      ctx.check(R, 'new_tensor_id' in rhs, st, f, st, 'operands must be rewired to the newly created tensor')
      a_ok, a_why = shared.rewire_all_occurrences(ctx, f, st)
      b_ok, b_why = shared.consumers_keep_multiplicity(ctx)
      ctx.check(R, a_ok or b_ok, st, f, st, f'{a_why}; and {b_why}')
    if n < 1:
      raise index.AnalysisError(f'{R}: no rewiring store reachable from {root.fq}')
    ctx.instance(R)


def r3_io_coupdate(ctx):
  R = 'C02.R3'
  ctx.rule(R, 'graph outputs are rewired only by the instruction covering them, and signature outputs follow, per signature', floor=3)
  trans = shared.insertion_transformations(ctx)
  for key in ('ADD_QUANTIZE', 'ADD_DEQUANTIZE'):
    root = trans[key]
    stores = shared.find_rewire_stores(ctx, [root], 'outputs')
    real = [(f, st, tgt) for f, st, tgt in stores if not (isinstance(tgt.value.value, ast.Name) and tgt.value.value.id in fresh_names(f))]
    ctx.instance(R)
    if not ctx.check(R, len(real) >= 1, root.node, root, 'subgraph.outputs rewiring', f'{key}: a transformed graph output is no longer redirected to the new tensor'):
      continue
    for f, st, tgt in real:
      g = cfgmod.build(f.node)
      sn = g.node_of(st)
      guards = [m for m in g.nodes if m.kind == 'if' and g.every_path_passes(g.entry.id, sn.id, {m.id})]
      tests = [defuse.norm(m.ast.test).replace(' ', '') for m in guards]
      # plus the facts that hold at the store through guard clauses (`if entry != tensor id: continue`)
      tests += [defuse.norm(x).replace(' ', '') for x in common.facts_at(f.node, st)]
      covers = any(t.startswith('-1in') and t.endswith('consumers') for t in tests) or any(t.endswith('<0') or t.endswith('==-1') for t in tests)
      ctx.check(R, covers, st, f, st,
                'subgraph.outputs is rewired although the instruction does not cover the graph output (-1 not among its consumers): '
                'the model output silently becomes the new tensor')
      eq = any('==' in t and 'tensor_id' in t for t in tests)
      ctx.check(R, eq, st, f, st, 'only the output entry equal to the source tensor may be replaced')
      ctx.check(R, 'new_tensor_id' in defuse.norm(st.value), st, f, st, 'the output must be redirected to the new tensor')
  # signature outputs
  mm = ctx.repo.cls('model_modifier:ModelModifier')
  cg = callgraph.get(ctx)
  tree = cg.reachable([mm.methods['modify_model'].fq])
  sig_stores = []
  for fq in tree:
    f = ctx.repo.func(fq)
    for n in common.walk_no_nested(f.node):
      if isinstance(n, ast.Assign) and isinstance(n.targets[0], ast.Attribute) and n.targets[0].attr == 'tensorIndex':
        sig_stores.append((f, n))
  ctx.instance(R)
  if not ctx.check(R, len(sig_stores) >= 1, mm.methods['modify_model'].node, mm.methods['modify_model'], 'signature retarget',
                   'subgraph.outputs can be redirected but signatureDefs outputs are never retargeted: a signature runner returns the stale (quantized) tensor'):
    return
  for f, st in sig_stores:
    loops = shared.enclosing_loops(f.node, st)
    sig_loop = [l for l in loops if isinstance(l, ast.For) and 'signatureDefs' in ast.unparse(l.iter)]
    out_loop = [l for l in loops if isinstance(l, ast.For) and ast.unparse(l.iter).split(' or ')[0].endswith('.outputs')]
    ctx.check(R, bool(sig_loop) and bool(out_loop), st, f, st, 'every output entry of every signature must be visited')
    if not sig_loop:
      continue
    sl = sig_loop[0]
    sigvar = sl.target.id if isinstance(sl.target, ast.Name) else None
    inl = defuse.Inliner(ctx.repo, max_depth=0)
    # the mapping used on the right-hand side
    rhs = st.value
    maps = [x for x in ast.walk(rhs) if isinstance(x, ast.Call) and isinstance(x.func, ast.Attribute) and x.func.attr == 'get'] + \
           [x for x in ast.walk(rhs) if isinstance(x, ast.Subscript)]
    mvar = None
    for x in maps:
      v = x.func.value if isinstance(x, ast.Call) else x.value
      if isinstance(v, ast.Name):
        mvar = v.id
    if not ctx.check(R, mvar is not None, st, f, st, 'signature outputs must be remapped through an old->new output table'):
      continue
    # definition(s) of the table must sit inside the signature loop and be built from this signature's subgraph
    mdefs = [n for n in ast.walk(f.node) if isinstance(n, (ast.Assign, ast.AugAssign)) and any(isinstance(t, ast.Name) and t.id == mvar for t in (n.targets if isinstance(n, ast.Assign) else [n.target]))]
    upd = [n for n in ast.walk(f.node) if isinstance(n, ast.Call) and isinstance(n.func, ast.Attribute) and n.func.attr in ('update', 'setdefault') and ast.unparse(n.func.value) == mvar]
    upd += [n for n in ast.walk(f.node) if isinstance(n, ast.Assign) and isinstance(n.targets[0], ast.Subscript) and ast.unparse(n.targets[0].value) == mvar]
    inside = all(any(x is d for x in ast.walk(sl)) for d in mdefs) and all(any(x is u for x in ast.walk(sl)) for u in upd) and bool(mdefs)
    ctx.check(R, inside, mdefs[0] if mdefs else st, f, mdefs[0] if mdefs else st,
              'the old->new output table is built once for the whole model: tensor indices are subgraph-relative, so entries of different subgraphs collide '
              'and a signature output is redirected to a tensor of another subgraph (or to a non-existent index)')
    if inside:
      d = mdefs[0]
      txt = defuse.norm(inl.inline(f, d.value))
      sg = f'{sigvar}.subgraphIndex'
      ctx.check(R, txt.count(sg) >= 2 or txt.count('[' + sg + ']') >= 2, d, f, d,
                'old and new outputs of the table must both be those of the signature\'s own subgraph (indexed by signature_def.subgraphIndex)')
      ctx.check(R, 'zip(' in txt and 'original_outputs' in txt and '.outputs' in txt, d, f, d, 'the table must pair the outputs before transformation with the outputs after it, position by position')
  # original outputs are snapshotted before the transformation and passed on
  m = mm.methods['modify_model']
  g = cfgmod.build(m.node)
  snap = [n for n in g.nodes if n.kind == 'stmt' and isinstance(n.ast, ast.Assign) and '.outputs' in ast.unparse(n.ast.value) and 'list(' in ast.unparse(n.ast.value)]
  tg = [n for n in g.nodes if any(common.call_name(c).endswith('transform_graph') for c in n.calls())]
  us = [n for n in g.nodes if any('signature' in common.call_name(c) for c in n.calls())]
  ok = len(snap) == 1 and len(tg) == 1 and len(us) == 1 and g.every_path_passes(g.entry.id, tg[0].id, {snap[0].id}) and g.every_path_passes(tg[0].id, g.exit.id, {us[0].id})
  ctx.check(R, ok, m.node, m, 'snapshot -> transform -> retarget', 'graph outputs must be copied before the transformation and the signatures retargeted after it on every path')


def r4_source_untouched(ctx):
  R = 'C02.R4'
  ctx.rule(R, 'the source model is never written; the transformed object is a deep copy of a fresh parse', floor=1)
  eff = effects.get(ctx)
  mm = ctx.repo.cls('model_modifier:ModelModifier')
  m = mm.methods['modify_model']
  ctx.instance(R)
  s = eff.summary(m.fq)
  hits = [(k, w) for k, w in s.mut.items() if k[0] == 'p:self' and k[1][:1] == ('_model_content',)]
  for (root, path), w in hits:
    ctx.check(R, False, w.where, m, effects.fmt_path(root, path), f'the source model bytes may be mutated: {w.text}', path=w.steps())
  tg = [c for c in common.calls_in(m.node) if common.call_name(c).endswith('transform_graph')]
  inl = defuse.Inliner(ctx.repo, max_depth=0)
  ok = False
  if len(tg) == 1 and len(tg[0].args) >= 2:
    txt = defuse.norm(inl.inline(m, tg[0].args[1]))
    ok = txt.startswith('copy.deepcopy(') and 'read_model_from_bytearray(self._model_content)' in txt
  ctx.check(R, ok and not hits, m.node, m, 'transform_graph(<deep copy of parse(self._model_content)>)',
            'the graph that is transformed must be a deep copy of a fresh parse of the source bytes (parser buffers are views of the caller\'s bytes)')
  qc = ctx.repo.cls('quantizer:Quantizer')
  c = [x for m2 in qc.methods.values() for x in common.calls_in(m2.node) if common.call_name(x).endswith('ModelModifier')]
  ctx.check(R, len(c) >= 1 and all([ast.unparse(a) for a in x.args] == ['self.float_model'] for x in c), qc.node, qc.module, 'ModelModifier(self.float_model)', 'the modifier must be given the float model')


def r8_signature_outputs_table(ctx):
  """ModelModifier._update_signature_outputs on label models: after graph
  outputs were replaced, every signature's output entries name the replacement
  of the tensor they named before - looked up in the signature's OWN subgraph -
  and nothing else changes (inputs, other signatures, models without
  signatures)."""
  from sa import absint  # pylint: disable=g-import-not-at-top
  from sa.consteval import Obj  # pylint: disable=g-import-not-at-top
  R = 'C02.R8'
  rs = ctx.rule(R, 'signature outputs follow replaced graph outputs, per signature and subgraph (table)', floor=1)
  f = ctx.repo.func('model_modifier:ModelModifier._update_signature_outputs')
  ctx.instance(R)
  TM = lambda name, idx: Obj('x:TensorMapT', {'name': name, 'tensorIndex': idx})
  cases = {
      'one signature, one output replaced': ([[3, 5]], [[3, 9]], [(0, [('a', 3), ('b', 5)], [('i', 0)])], [[('a', 3), ('b', 9)]]),
      'two signatures on two subgraphs with the SAME tensor ids': ([[3], [3]], [[7], [3]], [(0, [('a', 3)], [('i', 0)]), (1, [('a', 3)], [('i', 0)])], [[('a', 7)], [('a', 3)]]),
      'second subgraph replaced only': ([[2, 4], [4, 2]], [[2, 4], [8, 2]], [(1, [('p', 2), ('q', 4)], [('i', 1)]), (0, [('p', 2), ('q', 4)], [('i', 1)])], [[('p', 2), ('q', 8)], [('p', 2), ('q', 4)]]),
      'outputs listed in another order than the signature': ([[1, 2]], [[6, 7]], [(0, [('z', 2), ('y', 1)], [])], [[('z', 7), ('y', 6)]]),
      'old and new ids overlap': ([[1, 2]], [[2, 5]], [(0, [('y', 1), ('z', 2)], [])], [[('y', 2), ('z', 5)]]),
      'no signatures': ([[1]], [[4]], None, None),
  }
  rs.exhaustive = True
  for cname, (orig, new, sigs, want) in cases.items():
    sgs = [Obj('x:SubGraphT', {'outputs': list(o), 'inputs': [0]}) for o in new]
    sdefs = None if sigs is None else [Obj('x:SignatureDefT', {'subgraphIndex': g, 'signatureKey': f's{n}', 'outputs': [TM(a, b) for a, b in outs], 'inputs': [TM(a, b) for a, b in ins]})
                                          for n, (g, outs, ins) in enumerate(sigs)]
    model = Obj('x:ModelT', {'subgraphs': sgs, 'signatureDefs': sdefs})
    it = absint.Interp(ctx.repo, ctx.ev)
    o = it.outcomes(f, [Obj('model_modifier:ModelModifier', {}), model, [list(x) for x in orig]], copy_args=False)
    if len(o) != 1 or o[0].kind != 'return':
      ctx.check(R, False, f.node, f, cname, f'not decided: {[x.short()[:100] for x in o]}')
      continue
    if sigs is None:
      ctx.check(R, model.fields['signatureDefs'] is None and [s.fields['outputs'] for s in sgs] == [list(x) for x in new], f.node, f, cname, 'a model without signatures must be left alone')
      continue
    got = [[(t.fields['name'], t.fields['tensorIndex']) for t in s.fields['outputs']] for s in sdefs]
    ctx.check(R, got == want, f.node, f, f'{cname}: {got}', f'signature outputs must become {want}')
    ins_ok = all([(t.fields['name'], t.fields['tensorIndex']) for t in s.fields['inputs']] == list(sigs[n][2]) for n, s in enumerate(sdefs))
    ctx.check(R, ins_ok and [s.fields['outputs'] for s in sgs] == [list(x) for x in new], f.node, f, cname, 'signature inputs and the graph outputs themselves must not change')
  # the update runs on every path of modify_model before the model is serialised (either path)
  mm = ctx.repo.func('model_modifier:ModelModifier.modify_model')
  ctx.instance(R)
  g = cfgmod.build(mm.node)
  upd = {n.id for n in g.nodes if any(common.call_name(c).endswith('_update_signature_outputs') for c in n.calls())}
  ser = [n for n in g.nodes if any(common.call_name(c).endswith(('_serialize_large_model', '_serialize_small_model')) for c in n.calls())]
  ok = bool(upd) and len(ser) >= 2 and all(g.every_path_passes(g.entry.id, s.id, upd) for s in ser)
  ctx.check(R, ok, mm.node, mm, 'update before both serialisations', 'a serialisation path can be reached without retargeting the signature outputs')
  perf = [n for n in g.nodes if any(common.call_name(c).endswith('transform_graph') for c in n.calls())]
  ctx.check(R, len(perf) == 1 and all(g.every_path_passes(g.entry.id, u, {perf[0].id}) for u in upd), mm.node, mm, 'update after the graph was transformed', 'signature outputs must be retargeted after the transformation, from outputs captured before it')


def run(ctx):
  r1_frame(ctx)
  r2_rewiring(ctx)
  r3_io_coupdate(ctx)
  r4_source_untouched(ctx)
  r8_signature_outputs_table(ctx)
  shared.rule_pipeline_simulation(ctx, 'C02.R9', 'whole pipeline on label models: original operators keep their order, graph inputs / outputs keep their arity and stay float unless INPUT / OUTPUT is selected')
  shared.rule_performer_translation(ctx, 'C02.R5')
  shared.rule_graph_rewrite_simulation(ctx, 'C02.R7', 'graph rewriting on label graphs: only the listed consumers and (iff covered) the graph outputs are rewired; original operators keep their order and operands; exactly one new operator and tensor per insertion')
  from sa.rules import c19  # pylint: disable=g-import-not-at-top
  ctx.rule('C02.R6', 'graph info: a tensor that is a subgraph output records the pseudo consumer -1 (so that its instruction rewires the output)', floor=1)
  gi = ctx.repo.func(f'{c19.TIG}._tensor_info_generator')
  ctx.instance('C02.R6')
  c19._graph_info_table(ctx, 'C02.R6', gi)
  shared.rule_signature_contract(ctx, 'C02.R10')
