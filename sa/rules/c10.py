"""C10 - calibration and quantization select the same ops; stats are never missing."""
from __future__ import annotations

import ast

from sa import callgraph
from sa import cfg as cfgmod
from sa import defuse
from sa import index
from sa import tables
from sa.consteval import Obj
from sa.rules import common
from sa.rules import shared

EXPLANATION = (
    'The operator-selection protocol of the three loops that consult the recipe '
    '(Calibrator.calibrate, Calibrator._initialize_model_qsvs, '
    'ParamsGenerator.generate_quantization_parameters) is compared as code: '
    'same scope-string builder (normal form of the string construction), same '
    'op-key derivation and unknown-op skip, same NO_QUANTIZE test, the virtual '
    'INPUT/OUTPUT operators attached on every path to both per-call loops, the '
    'interpreter subgraph taken from the invoked signature, one '
    '"needs statistics" predicate, and absence (not emptiness) as the '
    'missing-statistics test.'
)
LEVEL_TEXT = (
    'The property names a code-shape fact (both phases interpret a rule\'s '
    'regex against the same operator scope and walk the same operators); that '
    'fact is decided directly: the scope builders are equal as string '
    'constructions, and the selection loops agree clause by clause on every '
    'path. This is strong for the mechanism; it does not execute models.'
)
LEVEL_NOTE = (
    'Trusted: the sa CFG/def-use engines. Not decided: that the interpreter '
    'exposes every tensor the flatbuffer names (runtime), regex engine '
    'behaviour.'
)
TECHNIQUE = 'sibling comparison of normalised code + CFG must-pass rules (static)'

CAL = 'calibrator:Calibrator'
PG = 'params_generator:ParamsGenerator'


def string_builder_summary(f: index.FuncInfo):
  """(initial value, iterated expr, guard, ordered appended terms) of a
  function that builds a string with `+=` inside one loop."""
  init = None
  var = None
  for st in f.node.body:
    if isinstance(st, ast.Assign) and isinstance(st.value, ast.Constant) and isinstance(st.value.value, str) and isinstance(st.targets[0], ast.Name):
      var = st.targets[0].id
      init = st.value.value
      break
  if var is None:
    raise index.AnalysisError(f'{f.fq}: scope builder has no string accumulator')
  loops = [n for n in common.walk_no_nested(f.node) if isinstance(n, ast.For)]
  if len(loops) != 1:
    raise index.AnalysisError(f'{f.fq}: scope builder is expected to have exactly one loop')
  loop = loops[0]
  params = f.pos_params[1:] if f.cls is not None else f.pos_params
  ren = {p: f'P{i}' for i, p in enumerate(params)}
  ren[loop.target.id] = 'IT' if isinstance(loop.target, ast.Name) else 'IT'

  def nf(e, env):
    e2 = defuse.subst(e, env)
    class T(ast.NodeTransformer):
      def visit_Name(self, n):  # pylint: disable=invalid-name
        return ast.Name(id=ren.get(n.id, n.id), ctx=n.ctx)
    return defuse.norm(T().visit(e2))

  guard = None
  terms = []
  env = {}

  def walk(body, g):
    nonlocal guard
    for st in body:
      if isinstance(st, ast.If):
        guard = nf(st.test, env)
        walk(st.body, guard)
        if st.orelse:
          terms.append(('else-branch', nf(st.orelse[0], env) if isinstance(st.orelse[0], ast.expr) else 'stmt'))
      elif isinstance(st, ast.Assign) and isinstance(st.targets[0], ast.Name):
        env[st.targets[0].id] = defuse.subst(st.value, env)
      elif isinstance(st, ast.AugAssign) and isinstance(st.target, ast.Name) and st.target.id == var and isinstance(st.op, ast.Add):
        terms.append(nf(st.value, env))
      elif isinstance(st, ast.Expr) and isinstance(st.value, ast.Constant):
        continue
      else:
        terms.append(('other', defuse.norm(st)))
  walk(loop.body, None)
  rets = [n for n in common.walk_no_nested(f.node) if isinstance(n, ast.Return)]
  ret_ok = len(rets) == 1 and isinstance(rets[0].value, ast.Name) and rets[0].value.id == var
  return {'init': init, 'iter': nf(loop.iter, {}), 'guard': guard, 'terms': terms, 'returns_accumulator': ret_ok}


def scope_functions(ctx):
  """Functions whose result is passed as the scope of get_quantization_configs."""
  cg = callgraph.get(ctx)
  out = []
  for fq, sites in cg.sites.items():
    f = ctx.repo.func(fq)
    if f.module.short in ('recipe_manager',):
      continue
    for s in sites:
      if any(c.fq == 'recipe_manager:RecipeManager.get_quantization_configs' for c in s.callees):
        if len(s.node.args) < 2:
          continue
        scope_arg = s.node.args[1]
        full = defuse.Inliner(ctx.repo).inline(f, scope_arg) if False else scope_arg
        # origin: a name defined by a call
        d = scope_arg
        if isinstance(scope_arg, ast.Name):
          defs = defuse.own_assignments(f.node).get(scope_arg.id, [])
          d = defs[0] if len(defs) == 1 else None
        callee = None
        if isinstance(d, ast.Call):
          for s2 in sites:
            if s2.node is d and s2.callees:
              callee = s2.callees[0]
        out.append((f, s.node, d, callee))
  return out


def r1_one_scope_function(ctx):
  R = 'C10.R1'
  ctx.rule(R, 'calibration and quantization build the operator scope string identically', floor=3)
  uses = scope_functions(ctx)
  builders = {}
  for f, call, d, callee in uses:
    ctx.instance(R)
    if not ctx.check(R, callee is not None, call, f, call, 'the scope passed to the recipe manager is not the result of a scope-builder call'):
      continue
    builders.setdefault(callee.fq, callee)
    # the builder is applied to the loop's own (op, subgraph tensors)
    inl0 = defuse.Inliner(ctx.repo, max_depth=0)
    args = [defuse.norm(inl0.inline(f, a)) for a in d.args]
    lt = [(l, names) for l, names in common.loop_targets(f.node, '.operators') if d in list(ast.walk(l))]
    ok = False
    if len(lt) == 1 and len(args) == 2:
      l, names = lt[0]
      it = l.iter.args[0] if isinstance(l.iter, ast.Call) and l.iter.args else l.iter
      owner = defuse.norm(inl0.inline(f, it.value)) if isinstance(it, ast.Attribute) else None
      ok = args[0] == names[-1] and owner is not None and args[1] == f'{owner}.tensors'
    ctx.check(R, ok, d, f, d, 'the scope must be built from the operator being visited and the tensors of its own subgraph')
  if len(builders) == 1:
    ctx.check(R, True, None or list(builders.values())[0].node, list(builders.values())[0], 'single shared scope builder', '')
  else:
    sums = {fq: string_builder_summary(b) for fq, b in builders.items()}
    fqs = sorted(sums)
    ref = sums[fqs[0]]
    for fq in fqs[1:]:
      b = builders[fq]
      ctx.check(R, sums[fq] == ref, b.node, b, f'{fq} vs {fqs[0]}',
                f'scope builders differ: {fq} builds {sums[fq]} but {fqs[0]} builds {ref}; a regex can then select an op in one phase only')
    ctx.sample(R, {'builders': fqs, 'summary': {k: (v if not isinstance(v, list) else [str(x) for x in v]) for k, v in ref.items()}})
  for fq, b in builders.items():
    s = string_builder_summary(b)
    ctx.check(R, s['returns_accumulator'] and s['guard'] is not None and '-1' in s['guard'] and 'outputs' in s['iter'], b.node, b, f'{fq} shape',
              'the scope must be built from every existing output tensor name of the op')


def selection_loops(ctx):
  cal = ctx.repo.func(f'{CAL}.calibrate')
  ini = ctx.repo.func(f'{CAL}._initialize_model_qsvs')
  gen = ctx.repo.func(f'{PG}.generate_quantization_parameters')
  return [cal, ini, gen]


def _op_loop(f, g):
  loops = [n for n in g.nodes if n.kind == 'for' and ast.unparse(n.ast.iter).replace('enumerate(', '').rstrip(')').endswith('.operators')]
  if len(loops) != 1:
    raise index.AnalysisError(f'{f.fq}: expected exactly one loop over <subgraph>.operators, found {len(loops)}')
  return loops[0]


def r2_one_protocol(ctx):
  R = 'C10.R2'
  ctx.rule(R, 'the three selection loops follow one protocol and see the same operators', floor=3)
  cg = callgraph.get(ctx)
  inl = defuse.Inliner(ctx.repo)
  for f in selection_loops(ctx):
    ctx.instance(R)
    g = cfgmod.build(f.node)
    head = _op_loop(f, g)
    body = g.loop_body_nodes(head.id)
    # recipe query inside the loop; compared with NO_QUANTIZE; unknown codes skipped by the membership test
    q = [n for n in body if any(common.call_name(c).endswith('get_quantization_configs') for c in g.nodes[n].calls())]
    if not ctx.check(R, len(q) == 1, head.ast, f, 'recipe query', f'{f.name}: the operator loop must query the recipe exactly once per operator'):
      continue
    # ... on every path through an iteration, except the unknown-op-code skip
    allowed = set()
    for n in body:
      nd = g.nodes[n]
      if nd.kind == 'if':
        t = defuse.norm(nd.ast.test)
        if ('TFL_OP_CODE_TO_NAME' in t and 'not in' in t) or t.endswith('is None'):
          for st in nd.ast.body:
            for x in ast.walk(st):
              if isinstance(x, ast.Continue) and g.node_of(x) is not None:
                allowed.add(g.node_of(x).id)
    starts = [d for d, lab in g.succ[head.id] if d in body]
    back = {s for s in body if any(d == head.id for d, _ in g.succ[s])}
    reach = g.reachable(starts, blocked={q[0]} | allowed | {head.id})
    bypass = sorted(reach & back)
    path = None
    if bypass:
      p = g.witness_path(starts[0], bypass[0], {q[0]} | allowed | {head.id}) if starts else None
      path = g.describe_path(p) if p else None
    ctx.check(R, not bypass, head.ast, f, 'recipe query on every iteration path',
              f'{f.name}: an operator can pass through the loop without being looked up in the recipe (the verdict of another operator is reused or the lookup is skipped)', path=path)
    call = [c for c in g.nodes[q[0]].calls() if common.call_name(c).endswith('get_quantization_configs')][0]
    key_arg = call.args[0] if call.args else None
    full = inl.inline(f, key_arg) if key_arg is not None else None
    # op key origin(s): all definitions of the name
    ok_key = False
    if isinstance(key_arg, ast.Name):
      defs = [d for d in defuse.own_assignments(f.node).get(key_arg.id, []) if d is not None]
      texts = [defuse.norm(inl.inline(f, d)) for d in defs]
      table = [t for t in texts if 'TFL_OP_CODE_TO_NAME[' in t and 'builtinCode' in t and 'opcodeIndex' in t]
      io = [t for t in texts if t.endswith('.op_key')]
      helper = [t for t in texts if '_get_op_key' in t or 'get_op_key' in t]
      ok_key = bool(table) and (f.name == '_initialize_model_qsvs' or bool(io)) or bool(helper)
    ctx.check(R, ok_key, call, f, call,
              'the op key must be TFL_OP_CODE_TO_NAME[op_codes[op.opcodeIndex].builtinCode] (or the virtual op\'s own key)')
    tests = [defuse.norm(g.nodes[n].ast.test) for n in body if g.nodes[n].kind == 'if']
    ctx.check(R, any('not in' in t and 'TFL_OP_CODE_TO_NAME' in t for t in tests) or any('is None' in t for t in tests), head.ast, f, 'unknown op skip',
              'operators with unknown op codes must be skipped by the membership test on TFL_OP_CODE_TO_NAME')
    ctx.check(R, any('NO_QUANTIZE' in t and '==' in t for t in tests), head.ast, f, 'NO_QUANTIZE test',
              'the resolved algorithm must be compared with AlgorithmName.NO_QUANTIZE')
    # operators are skipped for exactly two reasons, in every loop alike
    skips = []
    for n in body:
      nd = g.nodes[n]
      if nd.kind == 'if':
        arm = nd.ast.body
        if arm and isinstance(arm[-1], ast.Continue):
          skips.append(defuse.norm(nd.ast.test))
        if nd.ast.orelse and isinstance(nd.ast.orelse[-1], ast.Continue):
          skips.append('not (' + defuse.norm(nd.ast.test) + ')')
    extra = [t for t in skips if not (('TFL_OP_CODE_TO_NAME' in t and 'not in' in t) or ('NO_QUANTIZE' in t and '==' in t) or t.endswith('is None'))]
    ctx.check(R, not extra, head.ast, f, f'skip conditions {skips}',
              f'{f.name} skips operators for an additional reason {extra} that the other selection loops do not share')
    # virtual INPUT/OUTPUT operators are visible to both per-call loops
    if f.name in ('calibrate', 'generate_quantization_parameters'):
      attach = []
      for n in g.nodes:
        for c in n.calls():
          if common.call_name(c).endswith('get_subgraph_input_output_operators'):
            st = n.ast
            if isinstance(st, ast.AugAssign) and isinstance(st.op, ast.Add) and ast.unparse(st.target).endswith('.operators'):
              attach.append(n)
      inline_iter = 'get_subgraph_input_output_operators' in ast.unparse(head.ast.iter)
      ok = inline_iter
      why = 'the virtual INPUT/OUTPUT operators are not attached in this function'
      if attach and not ok:
        ok = all(g.every_path_passes(g.entry.id, head.id, {a.id}) for a in attach[:1])
        why = 'there is a path to the operator loop on which the virtual INPUT/OUTPUT operators were not attached'
        # per sample: the attach must be inside the sample loop or dominate it for every subgraph visited
        tgt = ast.unparse(attach[0].ast.target)[: -len('.operators')]
        ok = ok and ast.unparse(head.ast.iter).replace('enumerate(', '').rstrip(')') == f'{tgt}.operators'
      if not attach and not inline_iter:
        # interprocedural: a callee that attaches, called on every path
        for n in g.nodes:
          for c in n.calls():
            for s in cg.sites.get(f.fq, []):
              if s.node is c:
                for callee in s.callees:
                  if 'get_subgraph_input_output_operators' in ast.unparse(callee.node) and callee.fq != f.fq:
                    ok = g.every_path_passes(g.entry.id, head.id, {n.id})
                    why = (f'the virtual INPUT/OUTPUT operators are attached by {callee.name}(), which is not called on every '
                           'path to the operator loop (e.g. skipped when calibration is resumed from a previous result)')
      ctx.check(R, ok, head.ast, f, head.ast, f'{f.name}: {why}; INPUT/OUTPUT rules are then honoured by one phase only')
  # init loop covers all subgraphs, calibrate covers the invoked one (C10.R3)


def r3_signature_subgraph(ctx):
  R = 'C10.R3'
  ctx.rule(R, 'tensor contents are read from the main subgraph of the invoked signature', floor=3)
  iu = ctx.repo.mod('utils.tfl_interpreter_utils')
  with_default = {}
  for name, f in iu.functions.items():
    if '.' in name:
      continue
    d = f.param_default('subgraph_index')
    if d is not None:
      with_default[f.fq] = f
  if len(with_default) < 3:
    raise index.AnalysisError('tfl_interpreter_utils: functions with a defaulted subgraph_index parameter not found')
  cg = callgraph.get(ctx)
  inl = defuse.Inliner(ctx.repo, max_depth=0)
  n_sites = 0
  for fq, sites in cg.sites.items():
    f = ctx.repo.func(fq)
    if f.module.short == 'utils.tfl_interpreter_utils':
      continue
    sig_live = any(p.lstrip('*') in ('signature_key', 'signature_name') for p in f.params) or 'signature_key' in ast.unparse(f.node)
    for s in sites:
      for c in s.callees:
        if c.fq in with_default:
          n_sites += 1
          ctx.instance(R)
          pos = c.pos_params.index('subgraph_index')
          arg = None
          if len(s.node.args) > pos:
            arg = s.node.args[pos]
          for k in s.node.keywords:
            if k.arg == 'subgraph_index':
              arg = k.value
          if not sig_live:
            continue
          if not ctx.check(R, arg is not None, s.node, f, s.node,
                           f'{c.name}() is called without subgraph_index although a signature is in play: it reads subgraph 0 whatever signature was invoked'):
            continue
          full = defuse.norm(inl.inline(f, arg))
          ok = 'get_signature_main_subgraph_index(' in full or isinstance(arg, ast.Name) and arg.id in [p for p in f.params]
          if not ok and isinstance(arg, ast.Name):
            # tuple-unpacked from a helper that returns the signature's index
            defs = defuse.own_assignments(f.node).get(arg.id, [])
            for d in defs:
              if d is not None and 'get_signature_main_subgraph_index' in defuse.norm(inl.inline(f, d)):
                ok = True
              if d is not None and isinstance(d, ast.Subscript) and isinstance(d.value, ast.Call):
                s2 = ctx.repo.resolve_expr(f.module, d.value.func)
                if s2.kind == 'func' and 'get_signature_main_subgraph_index' in ast.unparse(s2.obj.node):
                  ok = True
          ctx.check(R, ok, s.node, f, s.node, 'subgraph_index does not originate from get_signature_main_subgraph_index(<interpreter>, <signature key>)')
  # calibrate: the subgraph walked is the one whose contents were read
  cal = ctx.repo.func(f'{CAL}.calibrate')
  src = ast.unparse(cal.node)
  g = cfgmod.build(cal.node)
  idx_defs = [d for d in defuse.own_assignments(cal.node).items() if d[1] and d[1][0] is not None and 'get_signature_main_subgraph_index' in ast.unparse(d[1][0])]
  if ctx.check(R, len(idx_defs) >= 1, cal.node, cal, 'signature subgraph index', 'calibrate() no longer derives the subgraph index from the signature'):
    name = idx_defs[0][0]
    d = idx_defs[0][1][0]
    args = [ast.unparse(a) for a in d.args]
    ctx.check(R, 'signature_key' in args, d, cal, d, 'the signature key passed to calibrate() must select the subgraph')
    walked = [n for n in common.walk_no_nested(cal.node) if isinstance(n, ast.Subscript) and ast.unparse(n.value).endswith('.subgraphs')]
    ok = any(isinstance(w.slice, ast.Name) and w.slice.id == name for w in walked)
    allsub = [n for n in common.walk_no_nested(cal.node) if isinstance(n, ast.For) and ast.unparse(n.iter).endswith('.subgraphs')]
    ctx.check(R, ok and not allsub, cal.node, cal, 'subgraph walked',
              'calibrate() must collect statistics for the operators of the invoked signature\'s subgraph only (other subgraphs hold no fresh tensor contents)')
    inv = [c for c in common.calls_in(cal.node) if common.call_name(c).endswith('invoke_interpreter_signature')]
    ctx.check(R, len(inv) == 1 and 'signature_key' in [ast.unparse(a) for a in inv[0].args], cal.node, cal, 'invoke', 'the interpreter must be invoked with the same signature key')
  if n_sites < 3:
    raise index.AnalysisError(f'{R}: only {n_sites} calls of subgraph-indexed interpreter helpers found')


def r4_needs_statistics(ctx):
  R = 'C10.R4'
  rs = ctx.rule(R, 'one "needs statistics" predicate: need_calibration() == static-range arm of the mode table', floor=1)
  ctx.instance(R)
  CP = tables.enum(ctx, 'qtyping:ComputePrecision')
  w = tables.tensor_config(ctx, num_bits=8)
  a = tables.tensor_config(ctx, num_bits=8, symmetric=False)
  nc = ctx.repo.func('recipe_manager:RecipeManager.need_calibration')
  gtt = ctx.repo.func(f'{shared.MMU}:get_tensor_transformations')
  from sa.rules import c11  # pylint: disable=g-import-not-at-top
  MM = tables.enum_member(ctx, 'algorithm_manager:AlgorithmName', 'MIN_MAX_UNIFORM_QUANT')
  ALL = tables.enum_member(ctx, 'qtyping:TFLOperationName', 'ALL_SUPPORTED')
  rs.exhaustive = True
  for cp in CP:
    for act in (None, a):
      for explicit in (False, True):
        cfg = tables.construct(ctx, common.OPCFG, activation_tensor_config=act, weight_tensor_config=w, compute_precision=cp, explicit_dequantize=explicit)
        if not isinstance(cfg, Obj):
          continue
        store = {'.*': [Obj('recipe_manager:OpQuantizationRecipe', {'regex': '.*', 'operation': ALL, 'algorithm_key': MM, 'op_config': cfg})]}
        selfobj = Obj('recipe_manager:RecipeManager', {'_scope_configs': store})
        outs = tables.interp(ctx).outcomes(nc, [selfobj])
        need = [o.value for o in outs if o.kind == 'return']
        # runtime tensors need statistics iff a non-constant tensor gets ADD_QUANTIZE / ADD_DEQUANTIZE with params from QSVs: the SRQ arm
        o1 = tables.call(ctx, gtt.fq, [cfg, True, False])
        srq = any(o.kind == 'return' and o.value and o.value[0].name == 'ADD_QUANTIZE' for o in o1)
        ctx.check(R, need == [srq], nc.node, nc, f'precision={cp.name} activation={"set" if act else None} explicit={explicit}',
                  f'need_calibration() says {need} but the materialisation quantizes runtime tensors: {srq}')


def r5_absent_not_empty(ctx):
  R = 'C10.R5'
  ctx.rule(R, 'the missing-statistics rejection tests absence, not emptiness, of the calibration result', floor=1)
  gen = ctx.repo.func(f'{PG}.generate_quantization_parameters')
  ctx.instance(R)
  qs = gen.pos_params[2] if len(gen.pos_params) > 2 else None
  if qs is None:
    raise index.AnalysisError(f'{gen.fq}: signature changed')
  found = False
  for n in common.walk_no_nested(gen.node):
    if isinstance(n, ast.If) and any(isinstance(x, ast.Raise) for x in n.body):
      names = defuse.names_in(n.test)
      if qs in names:
        found = True
        truthy = False
        for x in ast.walk(n.test):
          if isinstance(x, ast.UnaryOp) and isinstance(x.op, ast.Not) and isinstance(x.operand, ast.Name) and x.operand.id == qs:
            truthy = True
          if isinstance(x, ast.BoolOp):
            for v in x.values:
              if isinstance(v, ast.Name) and v.id == qs:
                truthy = True
          if isinstance(x, ast.Call) and common.call_name(x) == 'len' and x.args and isinstance(x.args[0], ast.Name) and x.args[0].id == qs:
            truthy = True
        ctx.check(R, not truthy, n, gen, n.test,
                  'calibrate() legitimately returns {} when the recipe selects no operator; treating an empty result as missing makes quantize() fail after a successful calibrate()')
  ctx.check(R, found, gen.node, gen, 'missing-statistics guard', 'the guard that rejects a missing calibration result was not found')
  # the per-tensor error for genuinely missing statistics is still raised
  w = ctx.repo.func(f'{shared.MMU}:_get_tensor_transformation_params_wrapper')
  raises = [n for n in common.walk_no_nested(w.node) if isinstance(n, ast.Raise)]
  ctx.check(R, len(raises) >= 1, w.node, w, 'missing tensor statistics error', 'missing statistics of a runtime tensor must raise')


def r6_need_calibration_sound(ctx):
  """need_calibration() == False must imply that NO (operator, scope) resolves
  to a configuration that needs statistics - otherwise calibrate() returns {}
  and quantize() fails for missing statistics. Decided over one- and two-rule
  stores against the repository's own resolution function."""
  import itertools  # pylint: disable=g-import-not-at-top
  from sa.rules import c11  # pylint: disable=g-import-not-at-top
  R = 'C10.R6'
  rs = ctx.rule(R, 'need_calibration() is False only if no (operator, scope) resolves to a static-range config (rule lists of one and two rules)', floor=1)
  nc = ctx.repo.func('recipe_manager:RecipeManager.need_calibration')
  res = ctx.repo.func('recipe_manager:RecipeManager.get_quantization_configs')
  ctx.instance(R)
  OP, ALG, drq, srq, bad = c11._domain(ctx)  # pylint: disable=protected-access
  MM, NOQ = ALG['MIN_MAX_UNIFORM_QUANT'], ALG['NO_QUANTIZE']
  FC, SM, ALL = OP['FULLY_CONNECTED'], OP['SOFTMAX'], OP['ALL_SUPPORTED']
  okc, _ = tables.accepts(ctx, MM, SM, srq)
  if not okc:
    raise index.AnalysisError('C10.R6 domain: static-range int8 is expected to be supported for SOFTMAX')
  default_cfg = tables.construct(ctx, common.OPCFG)
  it = c11._mk_interp(ctx)  # pylint: disable=protected-access
  mk = {
      'fcS': lambda rx: c11._recipe(rx, FC, MM, srq),    # pylint: disable=protected-access
      'smS': lambda rx: c11._recipe(rx, SM, MM, srq),    # pylint: disable=protected-access
      'allS': lambda rx: c11._recipe(rx, ALL, MM, srq),  # pylint: disable=protected-access
      'allD': lambda rx: c11._recipe(rx, ALL, MM, drq),  # pylint: disable=protected-access  (not supported for SOFTMAX: resolution falls through)
      'fcD': lambda rx: c11._recipe(rx, FC, MM, drq),    # pylint: disable=protected-access
      'allNo': lambda rx: c11._recipe(rx, ALL, NOQ, default_cfg),  # pylint: disable=protected-access
  }
  regexes = ['.*', 'x', 'y']
  scopes = ['x/y;', 'y;', 'zz;']
  rs.exhaustive = True
  stores = []
  for r1, n1 in itertools.product(regexes, mk):
    stores.append([(r1, n1)])
    for r2, n2 in itertools.product(regexes, mk):
      if r2 != r1:
        stores.append([(r1, n1), (r2, n2)])
      elif n1 != n2 and not n2.startswith('all') and not (mk[n1]('q').fields['operation'] == mk[n2]('q').fields['operation']):
        stores.append([(r1, n1), (r1, n2)])   # same scope, second rule appended
  import re as _re  # pylint: disable=g-import-not-at-top
  n = 0
  for shape in stores:
    store = {}
    for rx, name in shape:
      store.setdefault(rx, []).append(mk[name](rx))
    selfobj = Obj('recipe_manager:RecipeManager', {'_scope_configs': store})
    outs = it.outcomes(nc, [selfobj], copy_args=False)
    if len(outs) != 1 or outs[0].kind != 'return' or not isinstance(outs[0].value, bool):
      ctx.check(R, False, nc.node, nc, f'rules {shape}', f'need_calibration() not decided: {[o.short() for o in outs]}')
      continue
    need = outs[0].value
    n += 1
    if need:
      ctx.check(R, True, nc.node, nc, f'rules {shape}: True', '')
      continue
    witness = None
    for target, scope in itertools.product([FC, SM], scopes):
      q = it.outcomes(res, [selfobj, target, scope], copy_args=False)
      if len(q) == 1 and q[0].kind == 'return' and isinstance(q[0].value, tuple):
        alg, cfg = q[0].value
        if alg != NOQ and isinstance(cfg, Obj) and cfg.fields.get('activation_tensor_config') is not None and cfg.fields.get('compute_precision').name == 'INTEGER':
          witness = (target.name, scope)
          break
    ctx.check(R, witness is None, nc.node, nc, f'rules {shape}',
              f'need_calibration() is False, yet operator {witness[0] if witness else ""} under scope {witness[1] if witness else ""!r} resolves to a static-range config: '
              'calibrate() returns an empty result and quantize() fails for missing statistics')
  ctx.sample(R, {'stores': n})


def run(ctx):
  r1_one_scope_function(ctx)
  r2_one_protocol(ctx)
  r3_signature_subgraph(ctx)
  r4_needs_statistics(ctx)
  r5_absent_not_empty(ctx)
  r6_need_calibration_sound(ctx)
