"""C10 - calibration and quantization select the same ops; stats are never missing."""
from __future__ import annotations

import ast

from sa import callgraph
from sa import cfg as cfgmod
from sa import defuse
from sa import index
from sa import tables
from sa.consteval import Obj
from sa.rules import common
from sa.rules import shared

EXPLANATION = (
    'The operator-selection protocol of the three loops that consult the recipe '
    '(Calibrator.calibrate, Calibrator._initialize_model_qsvs, '
    'ParamsGenerator.generate_quantization_parameters) is compared as code: '
    'same scope-string builder (normal form of the string construction), same '
    'op-key derivation and unknown-op skip, same NO_QUANTIZE test, the virtual '
    'INPUT/OUTPUT operators attached on every path to both per-call loops, the '
    'interpreter subgraph taken from the invoked signature, one '
    '"needs statistics" predicate, and absence (not emptiness) as the '
    'missing-statistics test.'
)
LEVEL_TEXT = (
    'The property names a code-shape fact (both phases interpret a rule\'s '
    'regex against the same operator scope and walk the same operators); that '
    'fact is decided directly: the scope builders are equal as string '
    'constructions, and the selection loops agree clause by clause on every '
    'path. This is strong for the mechanism; it does not execute models.'
    " Simulations over listed lattices: the three selection loops hand the same operators to the algorithm (also resumed / loaded), calibrate-then-plan never lacks statistics, need_calibration() is sound w.r.t. resolution, the signature's declared subgraph is used."
)
LEVEL_NOTE = (
    'Trusted: the sa CFG/def-use engines. Not decided: that the interpreter '
    'exposes every tensor the flatbuffer names (runtime), regex engine '
    'behaviour.'
)
TECHNIQUE = 'sibling comparison of normalised code + CFG must-pass rules + selection / calibrate-then-plan simulations and resolution tables (abstract interpretation over a finite lattice) (static)'

CAL = 'calibrator:Calibrator'
PG = 'params_generator:ParamsGenerator'


def string_builder_summary(f: index.FuncInfo):
  """(initial value, iterated expr, guard, ordered appended terms) of a
  function that builds a string with `+=` inside one loop."""
  init = None
  var = None
  for st in f.node.body:
    if isinstance(st, ast.Assign) and isinstance(st.value, ast.Constant) and isinstance(st.value.value, str) and isinstance(st.targets[0], ast.Name):
      var = st.targets[0].id
      init = st.value.value
      break
  if var is None:
    raise index.AnalysisError(f'{f.fq}: scope builder has no string accumulator')
  loops = [n for n in common.walk_no_nested(f.node) if isinstance(n, ast.For)]
  if len(loops) != 1:
    raise index.AnalysisError(f'{f.fq}: scope builder is expected to have exactly one loop')
  loop = loops[0]
  params = f.pos_params[1:] if f.cls is not None else f.pos_params
  ren = {p: f'P{i}' for i, p in enumerate(params)}
  ren[loop.target.id] = 'IT' if isinstance(loop.target, ast.Name) else 'IT'

  def nf(e, env):
    e2 = defuse.subst(e, env)
    class T(ast.NodeTransformer):
      def visit_Name(self, n):  # pylint: disable=invalid-name
        return ast.Name(id=ren.get(n.id, n.id), ctx=n.ctx)
    return defuse.norm(T().visit(e2))

  guard = None
  terms = []
  env = {}

  def walk(body, g):
    nonlocal guard
    for st in body:
      if isinstance(st, ast.If):
        guard = nf(st.test, env)
        walk(st.body, guard)
        if st.orelse:
          terms.append(('else-branch', nf(st.orelse[0], env) if isinstance(st.orelse[0], ast.expr) else 'stmt'))
      elif isinstance(st, ast.Assign) and isinstance(st.targets[0], ast.Name):
        env[st.targets[0].id] = defuse.subst(st.value, env)
      elif isinstance(st, ast.AugAssign) and isinstance(st.target, ast.Name) and st.target.id == var and isinstance(st.op, ast.Add):
        terms.append(nf(st.value, env))
      elif isinstance(st, ast.Expr) and isinstance(st.value, ast.Constant):
        continue
      else:
        terms.append(('other', defuse.norm(st)))
  walk(loop.body, None)
  rets = [n for n in common.walk_no_nested(f.node) if isinstance(n, ast.Return)]
  ret_ok = len(rets) == 1 and isinstance(rets[0].value, ast.Name) and rets[0].value.id == var
  return {'init': init, 'iter': nf(loop.iter, {}), 'guard': guard, 'terms': terms, 'returns_accumulator': ret_ok}


def scope_functions(ctx):
  """Functions whose result is passed as the scope of get_quantization_configs."""
  cg = callgraph.get(ctx)
  out = []
  for fq, sites in cg.sites.items():
    f = ctx.repo.func(fq)
    if f.module.short in ('recipe_manager',):
      continue
    for s in sites:
      if any(c.fq == 'recipe_manager:RecipeManager.get_quantization_configs' for c in s.callees):
        if len(s.node.args) < 2:
          continue
        scope_arg = s.node.args[1]
        full = defuse.Inliner(ctx.repo).inline(f, scope_arg) if False else scope_arg
        # origin: a name defined by a call
        d = scope_arg
        if isinstance(scope_arg, ast.Name):
          defs = defuse.own_assignments(f.node).get(scope_arg.id, [])
          d = defs[0] if len(defs) == 1 else None
        callee = None
        if isinstance(d, ast.Call):
          for s2 in sites:
            if s2.node is d and s2.callees:
              callee = s2.callees[0]
        out.append((f, s.node, d, callee))
  return out


def r1_one_scope_function(ctx):
  R = 'C10.R1'
  ctx.rule(R, 'calibration and quantization build the operator scope string identically', floor=3)
  uses = scope_functions(ctx)
  builders = {}
  for f, call, d, callee in uses:
    ctx.instance(R)
    if not ctx.check(R + 'c', callee is not None, call, f, call, 'the scope passed to the recipe manager is not the result of a scope-builder call'):
      continue
    builders.setdefault(callee.fq, callee)
    # the builder is applied to the loop's own (op, subgraph tensors)
    inl0 = defuse.Inliner(ctx.repo, max_depth=0)
    args = [defuse.norm(inl0.inline(f, a)) for a in d.args]
    lt = [(l, names) for l, names in common.loop_targets(f.node, '.operators') if d in list(ast.walk(l))]
    ok = False
    if len(lt) == 1 and len(args) == 2:
      l, names = lt[0]
      it = l.iter.args[0] if isinstance(l.iter, ast.Call) and l.iter.args else l.iter
      owner = defuse.norm(inl0.inline(f, it.value)) if isinstance(it, ast.Attribute) else None
      ok = args[0] == names[-1] and owner is not None and args[1] == f'{owner}.tensors'
    ctx.check(R + 'c', ok, d, f, d, 'the scope must be built from the operator being visited and the tensors of its own subgraph')
  # what every scope builder computes, as a table (independent of how it is written): the names of the operator's
  # existing OUTPUT tensors, each followed by ';' - so a virtual OUTPUT operator (no outputs) has the empty scope and a
  # rule whose regex names a tensor selects the operator PRODUCING it
  it = tables.interp(ctx)
  tensors = [Obj('x:TensorT', {'name': f't{k}'.encode()}) for k in range(6)]
  rows = [([0], [1], 't0;'), ([2], [0, 1], 't2;'), ([2, 3], [0], 't2;t3;'), ([-1, 4], [1], 't4;'), ([], [5], ''), ([5], [], 't5;')]
  for fq, b in builders.items():
    for outs, ins, want in rows:
      op = Obj('x:OperatorT', {'outputs': list(outs), 'inputs': list(ins)})
      args = ([Obj(b.cls.fq, {})] if b.cls is not None else []) + [op, tensors]
      o = it.outcomes(b, args)
      ok = len(o) == 1 and o[0].kind == 'return' and o[0].value == want
      ctx.check(R, ok, b.node, b, f'{b.name}: outputs {outs}, inputs {ins} -> {[x.short() for x in o]}',
                f'the scope of an operator with outputs {outs} must be {want!r} (its output tensor names, each followed by ";")')


def selection_loops(ctx):
  cal = ctx.repo.func(f'{CAL}.calibrate')
  ini = ctx.repo.func(f'{CAL}._initialize_model_qsvs')
  gen = ctx.repo.func(f'{PG}.generate_quantization_parameters')
  return [cal, ini, gen]


def _op_loop(f, g):
  loops = [n for n in g.nodes if n.kind == 'for' and ast.unparse(n.ast.iter).replace('enumerate(', '').rstrip(')').endswith('.operators')]
  if len(loops) != 1:
    raise index.AnalysisError(f'{f.fq}: expected exactly one loop over <subgraph>.operators, found {len(loops)}')
  return loops[0]


def r2_one_protocol(ctx):
  R = 'C10.R2'
  ctx.rule(R, 'the three selection loops follow one protocol and see the same operators', floor=3)
  cg = callgraph.get(ctx)
  inl = defuse.Inliner(ctx.repo)
  for f in selection_loops(ctx):
    ctx.instance(R)
    g = cfgmod.build(f.node)
    head = _op_loop(f, g)
    body = g.loop_body_nodes(head.id)
    # recipe query inside the loop; compared with NO_QUANTIZE; unknown codes skipped by the membership test
    q = [n for n in body if any(common.call_name(c).endswith('get_quantization_configs') for c in g.nodes[n].calls())]
    if not ctx.check(R, len(q) == 1, head.ast, f, 'recipe query', f'{f.name}: the operator loop must query the recipe exactly once per operator'):
      continue
    # ... on every path through an iteration, except the unknown-op-code skip
    allowed = set()
    for n in body:
      nd = g.nodes[n]
      if nd.kind == 'if':
        t = defuse.norm(nd.ast.test)
        if ('TFL_OP_CODE_TO_NAME' in t and 'not in' in t) or t.endswith('is None'):
          for st in nd.ast.body:
            for x in ast.walk(st):
              if isinstance(x, ast.Continue) and g.node_of(x) is not None:
                allowed.add(g.node_of(x).id)
    starts = [d for d, lab in g.succ[head.id] if d in body]
    back = {s for s in body if any(d == head.id for d, _ in g.succ[s])}
    reach = g.reachable(starts, blocked={q[0]} | allowed | {head.id})
    bypass = sorted(reach & back)
    path = None
    if bypass:
      p = g.witness_path(starts[0], bypass[0], {q[0]} | allowed | {head.id}) if starts else None
      path = g.describe_path(p) if p else None
    ctx.check(R, not bypass, head.ast, f, 'recipe query on every iteration path',
              f'{f.name}: an operator can pass through the loop without being looked up in the recipe (the verdict of another operator is reused or the lookup is skipped)', path=path)
    call = [c for c in g.nodes[q[0]].calls() if common.call_name(c).endswith('get_quantization_configs')][0]
    key_arg = call.args[0] if call.args else None
    full = inl.inline(f, key_arg) if key_arg is not None else None
    # op key origin(s): all definitions of the name
    ok_key = False
    if isinstance(key_arg, ast.Name):
      defs = [d for d in defuse.own_assignments(f.node).get(key_arg.id, []) if d is not None]
      texts = [defuse.norm(inl.inline(f, d)) for d in defs]
      table = [t for t in texts if 'TFL_OP_CODE_TO_NAME[' in t and 'builtinCode' in t and 'opcodeIndex' in t]
      io = [t for t in texts if t.endswith('.op_key')]
      helper = [t for t in texts if '_get_op_key' in t or 'get_op_key' in t]
      ok_key = bool(table) and (f.name == '_initialize_model_qsvs' or bool(io)) or bool(helper)
    ctx.check(R, ok_key, call, f, call,
              'the op key must be TFL_OP_CODE_TO_NAME[op_codes[op.opcodeIndex].builtinCode] (or the virtual op\'s own key)')
    tests = [defuse.norm(g.nodes[n].ast.test) for n in body if g.nodes[n].kind == 'if']
    ctx.check(R, any('not in' in t and 'TFL_OP_CODE_TO_NAME' in t for t in tests) or any('is None' in t for t in tests), head.ast, f, 'unknown op skip',
              'operators with unknown op codes must be skipped by the membership test on TFL_OP_CODE_TO_NAME')
    ctx.check(R, any('NO_QUANTIZE' in t and '==' in t for t in tests), head.ast, f, 'NO_QUANTIZE test',
              'the resolved algorithm must be compared with AlgorithmName.NO_QUANTIZE')
    # operators are skipped for exactly two reasons, in every loop alike
    skips = []
    for n in body:
      nd = g.nodes[n]
      if nd.kind == 'if':
        arm = nd.ast.body
        # only a `continue` of the OPERATOR loop skips an operator (an inner loop over tensors has its own)
        own = lambda c_: (shared.enclosing_loops(f.node, c_) or [None])[-1] is head.ast
        if arm and isinstance(arm[-1], ast.Continue) and own(arm[-1]):
          skips.append(defuse.norm(nd.ast.test))
        if nd.ast.orelse and isinstance(nd.ast.orelse[-1], ast.Continue) and own(nd.ast.orelse[-1]):
          skips.append('not (' + defuse.norm(nd.ast.test) + ')')
    extra = [t for t in skips if not (('TFL_OP_CODE_TO_NAME' in t and 'not in' in t) or ('NO_QUANTIZE' in t and '==' in t) or t.endswith('is None'))]
    ctx.check(R, not extra, head.ast, f, f'skip conditions {skips}',
              f'{f.name} skips operators for an additional reason {extra} that the other selection loops do not share')
    # virtual INPUT/OUTPUT operators are visible to both per-call loops
    if f.name in ('calibrate', 'generate_quantization_parameters'):
      attach = []
      for n in g.nodes:
        for c in n.calls():
          if common.call_name(c).endswith('get_subgraph_input_output_operators'):
            st = n.ast
            if isinstance(st, ast.AugAssign) and isinstance(st.op, ast.Add) and ast.unparse(st.target).endswith('.operators'):
              attach.append(n)
      inline_iter = 'get_subgraph_input_output_operators' in ast.unparse(head.ast.iter)
      ok = inline_iter
      why = 'the virtual INPUT/OUTPUT operators are not attached in this function'
      if attach and not ok:
        ok = all(g.every_path_passes(g.entry.id, head.id, {a.id}) for a in attach[:1])
        why = 'there is a path to the operator loop on which the virtual INPUT/OUTPUT operators were not attached'
        # per sample: the attach must be inside the sample loop or dominate it for every subgraph visited
        tgt = ast.unparse(attach[0].ast.target)[: -len('.operators')]
        ok = ok and ast.unparse(head.ast.iter).replace('enumerate(', '').rstrip(')') == f'{tgt}.operators'
      if not attach and not inline_iter:
        # interprocedural: a callee that attaches, called on every path
        for n in g.nodes:
          for c in n.calls():
            for s in cg.sites.get(f.fq, []):
              if s.node is c:
                for callee in s.callees:
                  if 'get_subgraph_input_output_operators' in ast.unparse(callee.node) and callee.fq != f.fq:
                    ok = g.every_path_passes(g.entry.id, head.id, {n.id})
                    why = (f'the virtual INPUT/OUTPUT operators are attached by {callee.name}(), which is not called on every '
                           'path to the operator loop (e.g. skipped when calibration is resumed from a previous result)')
      ctx.check(R, ok, head.ast, f, head.ast, f'{f.name}: {why}; INPUT/OUTPUT rules are then honoured by one phase only')
  # init loop covers all subgraphs, calibrate covers the invoked one (C10.R3)


def r3_signature_subgraph(ctx):
  R = 'C10.R3'
  ctx.rule(R, 'tensor contents are read from the main subgraph of the invoked signature', floor=3)
  iu = ctx.repo.mod('utils.tfl_interpreter_utils')
  with_default = {}
  for name, f in iu.functions.items():
    if '.' in name:
      continue
    d = f.param_default('subgraph_index')
    if d is not None:
      with_default[f.fq] = f
  if len(with_default) < 3:
    raise index.AnalysisError('tfl_interpreter_utils: functions with a defaulted subgraph_index parameter not found')
  cg = callgraph.get(ctx)
  inl = defuse.Inliner(ctx.repo, max_depth=0)
  n_sites = 0
  for fq, sites in cg.sites.items():
    f = ctx.repo.func(fq)
    if f.module.short == 'utils.tfl_interpreter_utils':
      continue
    sig_live = any(p.lstrip('*') in ('signature_key', 'signature_name') for p in f.params) or 'signature_key' in ast.unparse(f.node)
    for s in sites:
      for c in s.callees:
        if c.fq in with_default:
          n_sites += 1
          ctx.instance(R)
          pos = c.pos_params.index('subgraph_index')
          arg = None
          if len(s.node.args) > pos:
            arg = s.node.args[pos]
          for k in s.node.keywords:
            if k.arg == 'subgraph_index':
              arg = k.value
          if not sig_live:
            continue
          if not ctx.check(R, arg is not None, s.node, f, s.node,
                           f'{c.name}() is called without subgraph_index although a signature is in play: it reads subgraph 0 whatever signature was invoked'):
            continue
          full = defuse.norm(inl.inline(f, arg))
          ok = 'get_signature_main_subgraph_index(' in full or isinstance(arg, ast.Name) and arg.id in [p for p in f.params]
          if not ok and isinstance(arg, ast.Name):
            # tuple-unpacked from a helper that returns the signature's index
            defs = defuse.own_assignments(f.node).get(arg.id, [])
            for d in defs:
              if d is not None and 'get_signature_main_subgraph_index' in defuse.norm(inl.inline(f, d)):
                ok = True
              if d is not None and isinstance(d, ast.Subscript) and isinstance(d.value, ast.Call):
                s2 = ctx.repo.resolve_expr(f.module, d.value.func)
                if s2.kind == 'func' and 'get_signature_main_subgraph_index' in ast.unparse(s2.obj.node):
                  ok = True
          ctx.check(R, ok, s.node, f, s.node, 'subgraph_index does not originate from get_signature_main_subgraph_index(<interpreter>, <signature key>)')
  # calibrate: the subgraph walked is the one whose contents were read
  cal = ctx.repo.func(f'{CAL}.calibrate')
  src = ast.unparse(cal.node)
  g = cfgmod.build(cal.node)
  idx_defs = [d for d in defuse.own_assignments(cal.node).items() if d[1] and d[1][0] is not None and 'get_signature_main_subgraph_index' in ast.unparse(d[1][0])]
  if ctx.check(R, len(idx_defs) >= 1, cal.node, cal, 'signature subgraph index', 'calibrate() no longer derives the subgraph index from the signature'):
    name = idx_defs[0][0]
    d = idx_defs[0][1][0]
    args = [ast.unparse(a) for a in d.args]
    ctx.check(R, 'signature_key' in args, d, cal, d, 'the signature key passed to calibrate() must select the subgraph')
    walked = [n for n in common.walk_no_nested(cal.node) if isinstance(n, ast.Subscript) and ast.unparse(n.value).endswith('.subgraphs')]
    ok = any(isinstance(w.slice, ast.Name) and w.slice.id == name for w in walked)
    allsub = [n for n in common.walk_no_nested(cal.node) if isinstance(n, ast.For) and ast.unparse(n.iter).endswith('.subgraphs')]
    ctx.check(R, ok and not allsub, cal.node, cal, 'subgraph walked',
              'calibrate() must collect statistics for the operators of the invoked signature\'s subgraph only (other subgraphs hold no fresh tensor contents)')
    inv = [c for c in common.calls_in(cal.node) if common.call_name(c).endswith('invoke_interpreter_signature')]
    ctx.check(R, len(inv) == 1 and 'signature_key' in [ast.unparse(a) for a in inv[0].args], cal.node, cal, 'invoke', 'the interpreter must be invoked with the same signature key')
  if n_sites < 3:
    raise index.AnalysisError(f'{R}: only {n_sites} calls of subgraph-indexed interpreter helpers found')


def r4_needs_statistics(ctx):
  R = 'C10.R4'
  rs = ctx.rule(R, 'one "needs statistics" predicate: need_calibration() == static-range arm of the mode table', floor=1)
  ctx.instance(R)
  CP = tables.enum(ctx, 'qtyping:ComputePrecision')
  w = tables.tensor_config(ctx, num_bits=8)
  a = tables.tensor_config(ctx, num_bits=8, symmetric=False)
  nc = ctx.repo.func('recipe_manager:RecipeManager.need_calibration')
  gtt = ctx.repo.func(f'{shared.MMU}:get_tensor_transformations')
  from sa.rules import c11  # pylint: disable=g-import-not-at-top
  MM = tables.enum_member(ctx, 'algorithm_manager:AlgorithmName', 'MIN_MAX_UNIFORM_QUANT')
  ALL = tables.enum_member(ctx, 'qtyping:TFLOperationName', 'ALL_SUPPORTED')
  rs.exhaustive = True
  for cp in CP:
    for act in (None, a):
      for explicit in (False, True):
        cfg = tables.construct(ctx, common.OPCFG, activation_tensor_config=act, weight_tensor_config=w, compute_precision=cp, explicit_dequantize=explicit)
        if not isinstance(cfg, Obj):
          continue
        store = {'.*': [Obj('recipe_manager:OpQuantizationRecipe', {'regex': '.*', 'operation': ALL, 'algorithm_key': MM, 'op_config': cfg})]}
        selfobj = Obj('recipe_manager:RecipeManager', {'_scope_configs': store})
        outs = tables.interp(ctx).outcomes(nc, [selfobj])
        need = [o.value for o in outs if o.kind == 'return']
        # runtime tensors need statistics iff a non-constant tensor gets ADD_QUANTIZE / ADD_DEQUANTIZE with params from QSVs: the SRQ arm
        o1 = tables.call(ctx, gtt.fq, [cfg, True, False])
        srq = any(o.kind == 'return' and o.value and o.value[0].name == 'ADD_QUANTIZE' for o in o1)
        ctx.check(R, need == [srq], nc.node, nc, f'precision={cp.name} activation={"set" if act else None} explicit={explicit}',
                  f'need_calibration() says {need} but the materialisation quantizes runtime tensors: {srq}')


def r5_absent_not_empty(ctx):
  R = 'C10.R5'
  ctx.rule(R, 'the missing-statistics rejection tests absence, not emptiness, of the calibration result', floor=1)
  gen = ctx.repo.func(f'{PG}.generate_quantization_parameters')
  ctx.instance(R)
  qs = gen.pos_params[2] if len(gen.pos_params) > 2 else None
  if qs is None:
    raise index.AnalysisError(f'{gen.fq}: signature changed')
  found = False
  for n in common.walk_no_nested(gen.node):
    if isinstance(n, ast.If) and any(isinstance(x, ast.Raise) for x in n.body):
      names = defuse.names_in(n.test)
      if qs in names:
        found = True
        truthy = False
        for x in ast.walk(n.test):
          if isinstance(x, ast.UnaryOp) and isinstance(x.op, ast.Not) and isinstance(x.operand, ast.Name) and x.operand.id == qs:
            truthy = True
          if isinstance(x, ast.BoolOp):
            for v in x.values:
              if isinstance(v, ast.Name) and v.id == qs:
                truthy = True
          if isinstance(x, ast.Call) and common.call_name(x) == 'len' and x.args and isinstance(x.args[0], ast.Name) and x.args[0].id == qs:
            truthy = True
        ctx.check(R, not truthy, n, gen, n.test,
                  'calibrate() legitimately returns {} when the recipe selects no operator; treating an empty result as missing makes quantize() fail after a successful calibrate()')
  ctx.check(R, found, gen.node, gen, 'missing-statistics guard', 'the guard that rejects a missing calibration result was not found')
  # the per-tensor error for genuinely missing statistics is still raised
  w = ctx.repo.func(f'{shared.MMU}:_get_tensor_transformation_params_wrapper')
  raises = [n for n in common.walk_no_nested(w.node) if isinstance(n, ast.Raise)]
  ctx.check(R, len(raises) >= 1, w.node, w, 'missing tensor statistics error', 'missing statistics of a runtime tensor must raise')


def r6_need_calibration_sound(ctx):
  """need_calibration() == False must imply that NO (operator, scope) resolves
  to a configuration that needs statistics - otherwise calibrate() returns {}
  and quantize() fails for missing statistics. Decided over one- and two-rule
  stores against the repository's own resolution function."""
  import itertools  # pylint: disable=g-import-not-at-top
  from sa.rules import c11  # pylint: disable=g-import-not-at-top
  R = 'C10.R6'
  rs = ctx.rule(R, 'need_calibration() is False only if no (operator, scope) resolves to a static-range config (rule lists of one and two rules)', floor=1)
  nc = ctx.repo.func('recipe_manager:RecipeManager.need_calibration')
  res = ctx.repo.func('recipe_manager:RecipeManager.get_quantization_configs')
  ctx.instance(R)
  OP, ALG, drq, srq, bad = c11._domain(ctx)  # pylint: disable=protected-access
  MM, NOQ = ALG['MIN_MAX_UNIFORM_QUANT'], ALG['NO_QUANTIZE']
  FC, SM, ALL = OP['FULLY_CONNECTED'], OP['SOFTMAX'], OP['ALL_SUPPORTED']
  okc, _ = tables.accepts(ctx, MM, SM, srq)
  if not okc:
    raise index.AnalysisError('C10.R6 domain: static-range int8 is expected to be supported for SOFTMAX')
  default_cfg = tables.construct(ctx, common.OPCFG)
  it = c11._mk_interp(ctx)  # pylint: disable=protected-access
  mk = {
      'fcS': lambda rx: c11._recipe(rx, FC, MM, srq),    # pylint: disable=protected-access
      'smS': lambda rx: c11._recipe(rx, SM, MM, srq),    # pylint: disable=protected-access
      'allS': lambda rx: c11._recipe(rx, ALL, MM, srq),  # pylint: disable=protected-access
      'allD': lambda rx: c11._recipe(rx, ALL, MM, drq),  # pylint: disable=protected-access  (not supported for SOFTMAX: resolution falls through)
      'fcD': lambda rx: c11._recipe(rx, FC, MM, drq),    # pylint: disable=protected-access
      'allNo': lambda rx: c11._recipe(rx, ALL, NOQ, default_cfg),  # pylint: disable=protected-access
  }
  regexes = ['.*', 'x', 'y']
  scopes = ['x/y;', 'y;', 'zz;']
  rs.exhaustive = True
  stores = []
  for r1, n1 in itertools.product(regexes, mk):
    stores.append([(r1, n1)])
    for r2, n2 in itertools.product(regexes, mk):
      if r2 != r1:
        stores.append([(r1, n1), (r2, n2)])
      elif n1 != n2 and not n2.startswith('all') and not (mk[n1]('q').fields['operation'] == mk[n2]('q').fields['operation']):
        stores.append([(r1, n1), (r1, n2)])   # same scope, second rule appended
  import re as _re  # pylint: disable=g-import-not-at-top
  n = 0
  for shape in stores:
    store = {}
    for rx, name in shape:
      store.setdefault(rx, []).append(mk[name](rx))
    selfobj = Obj('recipe_manager:RecipeManager', {'_scope_configs': store})
    outs = it.outcomes(nc, [selfobj], copy_args=False)
    if len(outs) != 1 or outs[0].kind != 'return' or not isinstance(outs[0].value, bool):
      ctx.check(R, False, nc.node, nc, f'rules {shape}', f'need_calibration() not decided: {[o.short() for o in outs]}')
      continue
    need = outs[0].value
    n += 1
    if need:
      ctx.check(R, True, nc.node, nc, f'rules {shape}: True', '')
      continue
    witness = None
    for target, scope in itertools.product([FC, SM], scopes):
      q = it.outcomes(res, [selfobj, target, scope], copy_args=False)
      if len(q) == 1 and q[0].kind == 'return' and isinstance(q[0].value, tuple):
        alg, cfg = q[0].value
        if alg != NOQ and isinstance(cfg, Obj) and cfg.fields.get('activation_tensor_config') is not None and cfg.fields.get('compute_precision').name == 'INTEGER':
          witness = (target.name, scope)
          break
    ctx.check(R, witness is None, nc.node, nc, f'rules {shape}',
              f'need_calibration() is False, yet operator {witness[0] if witness else ""} under scope {witness[1] if witness else ""!r} resolves to a static-range config: '
              'calibrate() returns an empty result and quantize() fails for missing statistics')
  ctx.sample(R, {'stores': n})


def _plan_oracle(ctx, R, gen, label, pg, mat):
  plan = pg.fields['model_quant_results']
  model = pg.fields['flatbuffer_model']
  if not isinstance(plan, dict):
    ctx.check(R, False, gen.node, gen, label, 'the plan is not a dict')
    return
  problems = []
  seen_names = set()
  for sg in model.fields['subgraphs']:
    prefix = sg.fields['name'].decode()
    real = [o for o in sg.fields['operators'] if 'label' in o.fields]
    for k, t in enumerate(sg.fields['tensors']):
      name = t.fields['name'].decode()
      readers = [(oi, o) for oi, o in enumerate(real) for x in o.fields['inputs'] if x == k]
      want_cons = len(readers) + sg.fields['outputs'].count(k)
      writers = [(oi, o) for oi, o in enumerate(real) if k in o.fields['outputs']]
      want_prod = 1 if writers or k in sg.fields['inputs'] else 0
      e = plan.get(name)
      if want_cons + want_prod == 0:
        continue
      seen_names.add(name)
      if not isinstance(e, Obj):
        problems.append(f'{name}: no entry in the plan')
        continue
      cons = e.fields['consumers'] or []
      if len(cons) != want_cons:
        problems.append(f'{name}: {len(cons)} consumer entries, {want_cons} operand occurrences read it')
      if (e.fields['producer'] is not None) != bool(want_prod):
        problems.append(f'{name}: producer entry {"present" if e.fields["producer"] is not None else "missing"}, expected {"one" if want_prod else "none"}')
      # every entry comes from the operator that owns the occurrence: selected operators carry the stand-in's token, all others NO_QUANTIZE
      got = sorted((c.fields['subgraph_op_id'], c.fields['parameters'] if isinstance(c.fields['parameters'], str) else c.fields['transformations'][0].name) for c in cons)
      want = sorted([(oi, 'M:' + o.fields['label'] if o.fields['label'] in mat else 'NO_QUANTIZE') for oi, o in readers] +
                    [(-1, ('M:IO:' + prefix[:2] + 'OUTPUT') if ('IO:' + prefix[:2] + 'OUTPUT') in mat else 'NO_QUANTIZE')] * sg.fields['outputs'].count(k))
      if len(cons) == want_cons and got != want:
        problems.append(f'{name}: consumer entries {got}, expected {want}')
      if e.fields['producer'] is not None and want_prod:
        p = e.fields['producer'].fields
        gp = (p['subgraph_op_id'], p['parameters'] if isinstance(p['parameters'], str) else p['transformations'][0].name)
        if writers:
          oi, o = writers[0]
          wp = (oi, 'M:' + o.fields['label'] if o.fields['label'] in mat else 'NO_QUANTIZE')
        else:
          wp = (-1, ('M:IO:' + prefix[:2] + 'INPUT') if ('IO:' + prefix[:2] + 'INPUT') in mat else 'NO_QUANTIZE')
        if gp != wp:
          problems.append(f'{name}: producer entry {gp}, expected {wp}')
  extra = sorted(set(plan) - seen_names)
  if extra:
    problems.append(f'entries for tensors no operator touches: {extra}')
  ctx.check(R, not problems, gen.node, gen, label, '; '.join(problems[:3]))


def r7_selection_simulation(ctx, R='C10.R7', what='selection'):
  """The three selection loops are run (path interpreter) on the same label
  model with the same rule list; the registered init / calibrate / materialise
  functions are stand-ins that only record which operator they were handed.
  Oracle: the operators calibrated on every sample == the operators
  materialised (incl. the virtual INPUT / OUTPUT operators of the signature's
  subgraph), the operators initialised == the real operators materialised,
  each exactly once per pass, each with the scope of its own output names."""
  import itertools  # pylint: disable=g-import-not-at-top
  from sa import absint, consteval  # pylint: disable=g-import-not-at-top
  from sa.consteval import Ext  # pylint: disable=g-import-not-at-top
  from sa.rules import c11  # pylint: disable=g-import-not-at-top
  titles = {'selection': 'selection simulation: init / calibrate / quantize hand the SAME operators to the algorithm, once each, for every subgraph and rule list of the lattice',
            'plan': 'plan simulation: every tensor gets one producer entry and one consumer entry per operand occurrence, from the operator that owns it; unselected and unknown operators contribute NO_QUANTIZE entries'}
  rs = ctx.rule(R, titles[what], floor=1)
  cal = ctx.repo.func(f'{CAL}.calibrate')
  gen = ctx.repo.func(f'{PG}.generate_quantization_parameters')
  ctx.instance(R)
  BO = consteval.schema_enum('BuiltinOperator')
  code = lambda n: Ext(f'BuiltinOperator.{n}', BO[n])
  OP, ALG, drq, srq, bad = c11._domain(ctx)  # pylint: disable=protected-access
  MM, NOQ = ALG['MIN_MAX_UNIFORM_QUANT'], ALG['NO_QUANTIZE']
  FC, CONV, ALL, SM = OP['FULLY_CONNECTED'], OP['CONV_2D'], OP['ALL_SUPPORTED'], OP['SOFTMAX']
  IN, OUT = OP['INPUT'], OP['OUTPUT']
  TTP, OTP = 'qtyping:TensorTransformationParams', 'qtyping:OpToTensorParams'
  NOQT = tables.enum_member(ctx, 'qtyping:QuantTransformation', 'NO_QUANTIZE')
  ADDQ = tables.enum_member(ctx, 'qtyping:QuantTransformation', 'ADD_QUANTIZE')

  def model():
    def sg(prefix, ops, nt, gin, gout):
      return Obj('x:SubGraphT', {'tensors': [Obj('x:TensorT', {'name': f'{prefix}t{k}'.encode(), 'buffer': 0, 'type': 0, 'shape': [1]}) for k in range(nt)],
                                 'operators': [Obj('x:OperatorT', {'label': f'{prefix}{lab}', 'opcodeIndex': ci, 'inputs': list(i), 'outputs': list(o)}) for lab, ci, i, o in ops],
                                 'inputs': list(gin), 'outputs': list(gout), 'name': prefix.encode()})
    # codes: 0 FC, 1 CONV_2D, 2 SOFTMAX, 3 unknown (CUSTOM)
    s0 = sg('x/', [('fc', 0, [0, 1], [2]), ('cust', 3, [2], [3]), ('conv', 1, [3, 4], [5]), ('sm', 2, [5], [6])], 7, [0], [6])
    s1 = sg('y/', [('fc', 0, [0, 1], [2]), ('fc2', 0, [2, 1], [3])], 4, [0], [3, 2])
    return Obj('x:ModelT', {'subgraphs': [s0, s1], 'buffers': [Obj('x:BufferT', {'data': None})],
                            'operatorCodes': [Obj('x:OperatorCodeT', {'builtinCode': code(n)}) for n in ('FULLY_CONNECTED', 'CONV_2D', 'SOFTMAX', 'CUSTOM')]})

  mk = {
      'fcS@x': lambda: c11._recipe('x/', FC, MM, srq),     # pylint: disable=protected-access
      'allS': lambda: c11._recipe('.*', ALL, MM, srq),     # pylint: disable=protected-access
      'allD': lambda: c11._recipe('.*', ALL, MM, drq),     # pylint: disable=protected-access
      'fcD@t3': lambda: c11._recipe('t3;', FC, MM, drq),   # pylint: disable=protected-access  (one operator of subgraph y only)
      'outS': lambda: c11._recipe('.*', OUT, MM, srq),     # pylint: disable=protected-access
      'inS@y': lambda: c11._recipe('y/', IN, MM, srq),     # pylint: disable=protected-access
      'fcNo@y': lambda: c11._recipe('y/', FC, NOQ, tables.construct(ctx, common.OPCFG)),  # pylint: disable=protected-access
  }
  rule_lists = [[a] for a in mk] + [[a, b] for a, b in itertools.permutations(mk, 2) if {a, b} & {'allS', 'allD'} or {a, b} == {'fcS@x', 'fcNo@y'}]
  rs.exhaustive = True
  n = 0
  for names in rule_lists:
    store = {}
    for nm in names:
      r = mk[nm]()
      store.setdefault(r.fields['regex'], []).append(r)
    for sig_sg in ((0, 1) if what == 'selection' else (0,)):
      seen = {'init': [], 'calibrate': [], 'materialize': []}

      def label_of(op, graph_info):
        if isinstance(op, Obj) and op.cls.endswith('IOOperator'):
          first = graph_info.fields['subgraph_tensors'][0].fields['name'].decode()
          return 'IO:' + first[:2] + op.fields['op_key'].name
        return op.fields.get('label') if isinstance(op, Obj) else repr(op)

      def init_fn(args, kwargs):
        seen['init'].append(label_of(args[0].fields['op'], args[1]))
        return {'stat:' + label_of(args[0].fields['op'], args[1]): {'min': 0, 'max': 0}}

      def cal_fn(args, kwargs):
        seen['calibrate'].append(label_of(args[0], args[1]))
        return {}

      def mat_fn(args, kwargs):
        opi = args[0].fields
        seen['materialize'].append(label_of(opi['op'], args[1]))
        op = opi['op']
        tens = args[1].fields['subgraph_tensors']
        out = []
        for t in op.fields['inputs']:
          if t != -1:
            out.append(Obj(TTP, {'tensor_name': tens[t].fields['name'].decode(), 'producer': None, 'consumers': [Obj(OTP, {'subgraph_op_id': opi['subgraph_op_index'], 'transformations': [ADDQ], 'parameters': 'M:' + seen['materialize'][-1]})]}))
        for t in op.fields['outputs']:
          if t != -1:
            out.append(Obj(TTP, {'tensor_name': tens[t].fields['name'].decode(), 'producer': Obj(OTP, {'subgraph_op_id': opi['subgraph_op_index'], 'transformations': [ADDQ], 'parameters': 'M:' + seen['materialize'][-1]}), 'consumers': None}))
        return out
      hooks = {
          c11.CHECK_FQ: (lambda a, k: c11._mk_interp(ctx).hooks[c11.CHECK_FQ](a, k)),  # pylint: disable=protected-access
          'algorithm_manager.get_init_qsv_func': lambda a, k: shared._StandIn(lambda aa, kk, kind=None: init_fn(aa, kk), 'init'),   # pylint: disable=protected-access
          'algorithm_manager.get_quantization_func': lambda a, k: shared._StandIn(  # pylint: disable=protected-access
              (lambda aa, kk, kind=None: cal_fn(aa, kk)) if getattr(a[2], 'name', '') == 'CALIBRATE' else (lambda aa, kk, kind=None: mat_fn(aa, kk)), 'q'),
          'tfl_interpreter_utils.invoke_interpreter_signature': lambda a, k: {},
          'tfl_interpreter_utils.get_signature_main_subgraph_index': lambda a, k: sig_sg,
          'tfl_interpreter_utils.get_tensor_name_to_content_map': lambda a, k: {},
          f'{PG}._check_buffer_sharing': lambda a, k: None,
          f'{PG}._check_tensor_names_are_unique': lambda a, k: None,
      }
      it = absint.Interp(ctx.repo, ctx.ev, hooks=hooks)
      rm = Obj('recipe_manager:RecipeManager', {'_scope_configs': store})
      label = f'rules {names}, signature on subgraph {sig_sg}'
      calo = Obj(CAL, {'_flatbuffer_model': model(), '_tfl_interpreter': Obj('x:Interpreter', {'reset_all_variables': shared._StandIn(lambda a, k, kind=None: None, 'r')}),  # pylint: disable=protected-access
                       '_tensor_content_map': {}, '_model_qsvs': {}, '_cached_output': []})
      o1 = it.outcomes(cal, [calo, [{'d': 1}, {'d': 2}], rm, 'sig'], copy_args=False)
      first_pass = list(seen['calibrate'])
      resumed_ok = True
      if calo.fields['_model_qsvs'] and (ctx.tier == 'thorough' or len(names) == 1 or 'allS' in names):
        # a resumed session (statistics already present) must walk the same operators
        del seen['calibrate'][:]
        o1b = it.outcomes(cal, [calo, [{'d': 3}, {'d': 4}], rm, 'sig'], copy_args=False)
        resumed = list(seen['calibrate'])
        resumed_ok = len(o1b) == 1 and o1b[0].kind == 'return' and sorted(set(resumed)) == sorted(set(first_pass)) and \
            sorted(x for x in resumed if not x.startswith('IO:')) == sorted(x for x in first_pass if not x.startswith('IO:'))
        ctx.check(R, resumed_ok, cal.node, cal, f'{label}: resumed session calibrates {sorted(set(resumed))}, fresh one {sorted(set(first_pass))}',
                  'a calibration resumed on existing statistics does not visit the same operators as a fresh one')
        # ... also when the statistics were loaded into a NEW calibrator object (load_model_qsvs) instead of being computed by it
        del seen['calibrate'][:]
        calo2 = Obj(CAL, {'_flatbuffer_model': model(), '_tfl_interpreter': calo.fields['_tfl_interpreter'], '_tensor_content_map': {},
                          '_model_qsvs': dict(calo.fields['_model_qsvs']), '_cached_output': []})
        o1c = it.outcomes(cal, [calo2, [{'d': 5}, {'d': 6}], rm, 'sig'], copy_args=False)
        loaded = list(seen['calibrate'])
        ok3 = len(o1c) == 1 and o1c[0].kind == 'return' and sorted(set(loaded)) == sorted(set(first_pass)) and \
            sorted(x for x in loaded if not x.startswith('IO:')) == sorted(x for x in first_pass if not x.startswith('IO:'))
        ctx.check(R, ok3, cal.node, cal, f'{label}: calibrator with loaded statistics calibrates {sorted(set(loaded))}, fresh one {sorted(set(first_pass))}',
                  'a calibrator that starts from loaded statistics does not visit the same operators as a fresh one (e.g. the virtual INPUT/OUTPUT operators are attached only while initialising)')
        seen['calibrate'][:] = first_pass
      pg = Obj(PG, {'flatbuffer_model': model(), 'model_quant_results': {}, 'buffer_to_tensors': {}})
      need = it.outcomes(ctx.repo.func('recipe_manager:RecipeManager.need_calibration'), [rm], copy_args=False)
      o2 = it.outcomes(gen, [pg, rm, {}], copy_args=False)
      if len(o1) != 1 or o1[0].kind != 'return' or len(o2) != 1 or o2[0].kind != 'return':
        ctx.check(R, False, gen.node, gen, label, f'not decided: calibrate {[o.short()[:80] for o in o1]} / quantize {[o.short()[:80] for o in o2]}')
        continue
      n += 1
      mat = seen['materialize']
      if what == 'plan':
        _plan_oracle(ctx, R, gen, label, pg, mat)
        continue
      prefix = 'x/' if sig_sg == 0 else 'y/'
      # quantization visits every subgraph; calibration of one signature visits its main subgraph, on each of the 2 samples
      mat_here = sorted(x for x in mat if x.startswith(prefix))
      io_all = sorted(x for x in mat if x.startswith('IO:'))
      calib = seen['calibrate']
      real_cal = sorted(x for x in calib if not x.startswith('IO:'))
      ctx.check(R, real_cal == sorted(mat_here * 2), cal.node, cal, f'{label}: calibrated {sorted(set(real_cal))} x{2}, quantized {mat_here}',
                f'operators calibrated on the two samples {real_cal} are not exactly the operators quantized in that subgraph {mat_here} (twice): '
                'statistics are missing for a quantized operator, or an operator is calibrated that quantization ignores')
      ctx.check(R, sorted(seen['init']) == sorted(x for x in mat if not x.startswith('IO:')), cal.node, cal, f'{label}: initialised {sorted(seen["init"])}',
                f'operators whose statistics are initialised differ from the operators quantized {sorted(x for x in mat if not x.startswith("IO:"))}')
      # virtual INPUT / OUTPUT operators of the signature's subgraph: the kinds calibrated == the kinds quantized there
      # (calibrate re-attaches them on every sample, so one sample may meet them more than once; folding twice is prevented elsewhere, C09.R3)
      io_q = sorted({x for x in mat if x.startswith('IO:' + prefix)})
      io_c = sorted({x for x in calib if x.startswith('IO:')})
      ctx.check(R, io_c == io_q, cal.node, cal, f'{label}: virtual ops calibrated {io_c}, quantized {io_q}',
                'the virtual INPUT/OUTPUT operators calibrated for this signature differ from those quantized in its subgraph: a rule on INPUT/OUTPUT is honoured by one phase only')
      ctx.check(R, all(mat.count(x) == 1 for x in set(mat)), gen.node, gen, f'{label}: materialised {mat}', 'an operator is materialised more than once in one quantization pass')
  ctx.sample(R, {'rule_lists': len(rule_lists), 'decided': n})


def r9_signature_subgraph_table(ctx, R='C10.R9'):
  """get_signature_main_subgraph_index on a stand-in interpreter whose
  signatures are NOT listed in subgraph order: the index must be the one the
  signature itself declares, whatever the position of its key."""
  from sa import absint  # pylint: disable=g-import-not-at-top
  rs = ctx.rule(R, 'the subgraph of a signature is the one the signature declares, not the position of its key (signatures listed out of subgraph order)', floor=1)
  f = ctx.repo.func('utils.tfl_interpreter_utils:get_signature_main_subgraph_index')
  ctx.instance(R)
  layouts = {'two signatures, reversed': {'alpha': 1, 'beta': 0}, 'one signature on subgraph 2': {'only': 2}, 'three, rotated': {'p': 2, 'q': 0, 'r': 1}}
  rs.exhaustive = True
  for lname, sigs in layouts.items():
    runners = {k: Obj('x:SignatureRunner', {'_subgraph_index': v, 'subgraph_index': v}) for k, v in sigs.items()}

    def get_runner(a, k, kind=None):
      key = a[0] if a else k.get('signature_key')
      if key is None:
        if len(sigs) != 1:
          raise absint._Raise('ValueError', 'signature_key required')  # pylint: disable=protected-access
        key = next(iter(sigs))
      if key not in runners:
        raise absint._Raise('ValueError', 'unknown signature')  # pylint: disable=protected-access
      return runners[key]
    interp = Obj('x:Interpreter', {
        'get_signature_runner': shared._StandIn(get_runner, 'r'),  # pylint: disable=protected-access
        'get_signature_list': shared._StandIn(lambda a, k, kind=None: {key: {'inputs': ['i'], 'outputs': ['o']} for key in sigs}, 'l'),  # pylint: disable=protected-access
        '_get_full_signature_list': shared._StandIn(lambda a, k, kind=None: {key: {'subgraph_index': v, 'inputs': {}, 'outputs': {}} for key, v in sigs.items()}, 'f'),  # pylint: disable=protected-access
    })
    it = absint.Interp(ctx.repo, ctx.ev)
    for key, want in list(sigs.items()) + ([(None, next(iter(sigs.values())))] if len(sigs) == 1 else []):
      o = it.outcomes(f, [interp, key], copy_args=False)
      label = f'{lname}: signature {key!r}'
      if len(o) != 1 or o[0].kind != 'return' or not isinstance(o[0].value, int):
        raise index.AnalysisError(f'{f.fq}: {label} is not decided with the stand-in interpreter ({[x.short()[:80] for x in o]}); the function uses an interpreter API the stand-in does not model')
      ctx.check(R, o[0].value == want, f.node, f, f'{label} -> subgraph {o[0].value}',
                f'signature {key!r} runs on subgraph {want}; calibration and validation would read the tensors (and match the rules against the operators) of subgraph {o[0].value}')


def r8_calibrate_then_plan(ctx, R='C10.R8'):
  """End to end on a label model, with the repository's own calibration,
  content-map, registry functions, materialisers and numeric code (exact array
  model); only the TFLite interpreter object is a stand-in that serves tensor
  details / contents per sample. calibrate() on two samples, then
  generate_quantization_parameters() with the returned statistics, for rule
  lists that select different parts of a graph whose input and output touch
  only an unsupported operator. Oracle: plan generation never fails for
  missing statistics, and every runtime tensor an integer-compute rule
  selects carries parameters."""
  from sa import absint, consteval  # pylint: disable=g-import-not-at-top
  from sa.consteval import Ext, Ref  # pylint: disable=g-import-not-at-top
  from sa.ndarr import NdArr  # pylint: disable=g-import-not-at-top
  from sa.rules import c11  # pylint: disable=g-import-not-at-top
  rs = ctx.rule(R, 'calibrate() then quantization-plan generation, end to end: no rule list of the lattice leaves a selected tensor without statistics', floor=1)
  cal = ctx.repo.func(f'{CAL}.calibrate')
  gen = ctx.repo.func(f'{PG}.generate_quantization_parameters')
  ctx.instance(R)
  BO = consteval.schema_enum('BuiltinOperator')
  code = lambda n: Ext(f'BuiltinOperator.{n}', BO[n])
  OP, ALG, drq, srq, bad = c11._domain(ctx)  # pylint: disable=protected-access
  MM, NOQ = ALG['MIN_MAX_UNIFORM_QUANT'], ALG['NO_QUANTIZE']
  reg = tables.registry(ctx)
  weights = NdArr((2, 2), [5, -7, 2, 9])
  names = ['x', 'a', 'w', 'h', 'out']

  def model():
    tensors = [Obj('x:TensorT', {'name': n.encode(), 'buffer': 1 if n == 'w' else 0, 'type': 0, 'shape': [2, 2] if n == 'w' else [1, 2], 'quantization': None}) for n in names]
    ops = [Obj('x:OperatorT', {'label': 'abs', 'opcodeIndex': 1, 'inputs': [0], 'outputs': [1], 'builtinOptions': None}),      # unknown to the quantizer
           Obj('x:OperatorT', {'label': 'fc', 'opcodeIndex': 0, 'inputs': [1, 2], 'outputs': [3], 'builtinOptions': None}),
           Obj('x:OperatorT', {'label': 'abs2', 'opcodeIndex': 1, 'inputs': [3], 'outputs': [4], 'builtinOptions': None})]
    sg = Obj('x:SubGraphT', {'tensors': tensors, 'operators': ops, 'inputs': [0], 'outputs': [4], 'name': b'main'})
    return Obj('x:ModelT', {'subgraphs': [sg], 'buffers': [Obj('x:BufferT', {'data': None}), Obj('x:BufferT', {'data': 'W'})],
                            'operatorCodes': [Obj('x:OperatorCodeT', {'builtinCode': code('FULLY_CONNECTED')}), Obj('x:OperatorCodeT', {'builtinCode': code('CUSTOM')})]})

  def content(k):
    return {'x': NdArr((1, 2), [k, -2 * k]), 'a': NdArr((1, 2), [k, 2 * k]), 'h': NdArr((1, 2), [10 - 3 * k, k * k]), 'out': NdArr((1, 2), [3 * k, k + 1])}
  cur = {'k': 0}
  details = [{'name': n, 'index': i, 'dtype': 'float32', 'quantization_parameters': {'scales': [], 'zero_points': [], 'quantized_dimension': 0}} for i, n in enumerate(names)]
  interp = Obj('x:Interpreter', {
      'reset_all_variables': shared._StandIn(lambda a, k, kind=None: None, 'r'),            # pylint: disable=protected-access
      'get_tensor_details': shared._StandIn(lambda a, k, kind=None: [dict(d) for d in details], 'd'),  # pylint: disable=protected-access
      'get_tensor': shared._StandIn(lambda a, k, kind=None: (content(cur['k']).get(names[a[0]]) if names[a[0]] != 'w' else weights), 't'),   # pylint: disable=protected-access
  })

  def invoke(a, k):
    cur['k'] = a[1]['k']
    return {}

  def lookup(alg, op, what):
    try:
      return Ref('func', reg[alg][op][what].fq)
    except (KeyError, TypeError):
      raise index.AnalysisError(f'{R}: registry lookup with an undecided key ({alg!r}, {op!r})')
  hooks = {
      c11.CHECK_FQ: (lambda a, k: c11._mk_interp(ctx).hooks[c11.CHECK_FQ](a, k)),  # pylint: disable=protected-access
      'algorithm_manager.get_init_qsv_func': lambda a, k: lookup(a[0], a[1], 'init'),
      'algorithm_manager.get_quantization_func': lambda a, k: lookup(a[0], a[1], 'calibrate' if getattr(a[2], 'name', '') == 'CALIBRATE' else 'materialize'),
      'tfl_interpreter_utils.invoke_interpreter_signature': invoke,
      'tfl_interpreter_utils.get_signature_main_subgraph_index': lambda a, k: 0,
      'tfl_flatbuffer_utils.get_tensor_data': lambda a, k: (weights if a[0].fields.get('buffer') == 1 else None),
      'np.issubdtype': lambda a, k: True,
      f'{PG}._check_tensor_names_are_unique': lambda a, k: None,
  }
  IN, OUT, FC, ALL = OP['INPUT'], OP['OUTPUT'], OP['FULLY_CONNECTED'], OP['ALL_SUPPORTED']
  lists = {
      'everything static-range (*)': [c11._recipe('.*', ALL, MM, srq)],                          # pylint: disable=protected-access
      'INPUT and OUTPUT only': [c11._recipe('.*', IN, MM, srq), c11._recipe('.*', OUT, MM, srq)],   # pylint: disable=protected-access
      'FULLY_CONNECTED only': [c11._recipe('.*', FC, MM, srq)],                                    # pylint: disable=protected-access
      'static * then dynamic FC': [c11._recipe('.*', ALL, MM, srq), c11._recipe('.*', FC, MM, drq)],   # pylint: disable=protected-access
      'OUTPUT only': [c11._recipe('out', OUT, MM, srq)],                                           # pylint: disable=protected-access
  }
  rs.exhaustive = True
  for lname, rules in lists.items():
    store = {}
    for r in rules:
      store.setdefault(r.fields['regex'], []).append(r)
    it = absint.Interp(ctx.repo, ctx.ev, hooks=hooks)
    rm = Obj('recipe_manager:RecipeManager', {'_scope_configs': store})
    calo = Obj(CAL, {'_flatbuffer_model': model(), '_tfl_interpreter': interp, '_tensor_content_map': {}, '_model_qsvs': {}, '_cached_output': []})
    o1 = it.outcomes(cal, [calo, [{'k': 1}, {'k': 2}], rm, None], copy_args=False)
    if len(o1) != 1 or o1[0].kind != 'return':
      ctx.check(R, False, cal.node, cal, lname, f'calibrate: {[x.short()[:120] for x in o1]}')
      continue
    stats = calo.fields['_model_qsvs']
    pg = Obj(PG, {'flatbuffer_model': model(), 'model_quant_results': {}, 'buffer_to_tensors': {}})
    o2 = it.outcomes(gen, [pg, rm, stats], copy_args=False)
    ok = len(o2) == 1 and o2[0].kind == 'return'
    ctx.check(R, ok, gen.node, gen, f'{lname}: statistics for {sorted(k for k, v in stats.items() if v)}',
              f'quantization-plan generation after a successful calibrate(): {[x.short()[:160] for x in o2]} - statistics of a selected tensor are missing')
    if not ok:
      continue
    plan = pg.fields['model_quant_results']
    # every tensor that a static-range rule selects carries parameters
    for name, e in sorted(plan.items()):
      entries = ([e.fields['producer']] if e.fields['producer'] is not None else []) + list(e.fields['consumers'] or [])
      for x in entries:
        kinds = [t.name for t in x.fields['transformations']]
        if any(k in ('ADD_QUANTIZE', 'ADD_DEQUANTIZE', 'QUANTIZE_TENSOR') for k in kinds):
          ctx.check(R, isinstance(x.fields['parameters'], Obj), gen.node, gen, f'{lname}: tensor {name} {kinds}', f'tensor {name} is to be quantized ({kinds}) but has no parameters')


def run(ctx):
  r1_one_scope_function(ctx)
  r2_one_protocol(ctx)
  r3_signature_subgraph(ctx)
  r4_needs_statistics(ctx)
  r5_absent_not_empty(ctx)
  r6_need_calibration_sound(ctx)
  r7_selection_simulation(ctx)
  r8_calibrate_then_plan(ctx)
  r9_signature_subgraph_table(ctx)
  shared.rule_no_swallowed_errors(ctx, 'C10.R10')
  # every README operator, calibrated and then planned under a * rule of each mode: statistics are never missing (runtime second operands included)
  shared.rule_operator_sweep(ctx, 'C10.R11')
