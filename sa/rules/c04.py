"""C04 - quantization parameters follow the TFLite spec (tables and dataflow)."""
from __future__ import annotations

import ast

from sa import absint
from sa import algebra
from sa import callgraph
from sa import defuse
from sa import index
from sa import oracles
from sa import tables
from sa.consteval import EnumVal, Obj, Ref
from sa.rules import common
from sa.rules import shared
from sa.rules import c13
from sa.rules import c17

EXPLANATION = (
    'Op -> scale-constraint table read through the RESOLVED registry '
    '(registered materialiser -> its materialize_standard_op / fixed-range '
    'call -> constraint argument) and compared with the quantization spec; '
    'fixed output ranges folded and compared with the kernel constants; '
    'per-channel dimension table and batch-matmul rule; bias scale / zero '
    'point / width dataflow and the operand indices each caller supplies; '
    'every parameter field reaches the flatbuffer; same-scale helpers pass '
    'the right tensor\'s parameters; min/max -> (zp, scale) formulas (C17.R2).'
)
LEVEL_TEXT = (
    'Decides that the parameters CHOSEN for each tensor are the ones the spec '
    'prescribes as far as that is fixed by tables, constants and dataflow '
    '(which op is constrained how, which constants, which dimension, which '
    'operands feed the bias scale, that nothing is dropped on the way to the '
    'flatbuffer) and that the scalar formulas are the reference ones. Numeric '
    'equality with independently recomputed statistics is not decided.'
    " Tables with exact rationals / exact small arrays: fixed-range statistics give back the fixed parameters, per-tensor / per-channel statistics along the kernel's dimension, end-to-end constant parameters."
)
LEVEL_NOTE = (
    'Trusted: oracles.py (quantization spec tables O1-O5), sa engines. Not '
    'decided: numeric equality of scales with recomputed statistics.'
)
TECHNIQUE = 'registry-resolved table extraction + constant folding + def-use origin + exact-rational / exact-array tables of the statistics and parameter code (abstract interpretation over a finite lattice) (static)'

MMU, NMM = shared.MMU, shared.NMM


def _constraint_of(ctx, fi: index.FuncInfo):
  """('fixed', table) | ('constraint', name) for a MIN_MAX materialiser."""
  for c in common.calls_in(fi.node):
    nm = common.call_name(c)
    if nm.endswith('materialize_op_with_output_activation_constraint'):
      return ('fixed', None)
  std = [c for c in common.calls_in(fi.node) if common.call_name(c).endswith('materialize_standard_op')]
  if len(std) != 1:
    raise index.AnalysisError(f'{fi.fq}: expected exactly one materialize_standard_op call, found {len(std)}')
  kw = common.named_args(ctx, fi, std[0])
  if 'constraint' not in kw:
    d = ctx.repo.func(f'{MMU}:materialize_standard_op').param_default('constraint')
    v = ctx.ev.eval(d, ctx.repo.mod(MMU), {})
  else:
    v = ctx.ev.eval(defuse.Inliner(ctx.repo, max_depth=0).inline(fi, kw['constraint']), fi.module, {})
  return ('constraint', getattr(v, 'name', str(v)))


def r1_constraint_table(ctx):
  R = 'C04.R1'
  ctx.rule(R, 'op -> scale constraint (through the registry) equals the quantization spec', floor=23)
  reg = tables.registry(ctx)
  _, info = tables.manager_instance(ctx)
  m = ctx.repo.mod('algorithm_manager')
  for where, lens in info['zips']:
    ctx.check(R, len(set(lens)) == 1 and None not in lens, where, m, f'zip lengths {lens}', 'registration tuples differ in length (zip truncates silently: an op loses its materialiser)')
  sample = {}
  for alg, ops in reg.items():
    if alg.name != 'MIN_MAX_UNIFORM_QUANT':
      continue
    for op, entry in ops.items():
      ctx.instance(R)
      fi = ctx.repo.func(entry['materialize'].fq)
      kind, val = _constraint_of(ctx, fi)
      if op.name in oracles.FIXED_RANGE:
        want = 'fixed'
      elif op.name in oracles.SAME_AS_INPUT:
        want = 'SAME_AS_INPUT_SCALE'
      elif op.name in oracles.SAME_AS_OUTPUT:
        want = 'SAME_AS_OUTPUT_SCALE'
      else:
        want = 'NO_CONSTRAIN'
      got = 'fixed' if kind == 'fixed' else val
      sample[op.name] = got
      ctx.check(R, got == want, fi.node, fi, f'{op.name} -> {fi.name}: {got}',
                f'{op.name} is materialised with constraint {got}; the TFLite quantization spec requires {want}')
      ctx.check(R, entry['init'].fq.endswith(':init_qsvs') and entry['calibrate'].fq.endswith(':min_max_calibrate'), m.tree, m, f'{op.name} init/calibrate', 'unexpected init/calibrate functions registered')
  ctx.sample(R, sample)


def r2_fixed_ranges(ctx):
  R = 'C04.R2'
  ctx.rule(R, 'fixed output ranges of softmax / logistic / tanh equal the kernel constants', floor=3)
  fixed = c13.fixed_range_tables(ctx)
  for op in sorted(oracles.FIXED_RANGE):
    ctx.instance(R)
    f = ctx.repo.func(tables.registry(ctx)[tables.enum_member(ctx, 'algorithm_manager:AlgorithmName', 'MIN_MAX_UNIFORM_QUANT')][tables.enum_member(ctx, 'qtyping:TFLOperationName', op)]['materialize'].fq)
    t = fixed.get(op)
    if not ctx.check(R, isinstance(t, dict), f.node, f, op, f'{op} has no fixed output range table'):
      continue
    for bits in (8, 16):
      want = oracles.FIXED_PARAMS[(op, bits)]
      o = t.get(bits)
      if not ctx.check(R, isinstance(o, Obj), f.node, f, f'{op}/{bits}', f'{op}: no fixed range for {bits}-bit activations'):
        continue
      sc, zp = o.fields['scale'], o.fields['zero_point']
      ctx.check(R, isinstance(sc, (int, float)) and abs(sc - want[0]) < 1e-15 and zp == want[1], f.node, f, f'{op}/{bits}: scale={sc} zp={zp}',
                f'{op} {bits}-bit output must use scale {want[0]} and zero point {want[1]} (hard-coded in the runtime kernel), found scale {sc}, zero point {zp}')
      ctx.check(R, o.fields['num_bits'] == bits and o.fields['quantized_dimension'] is None, f.node, f, f'{op}/{bits} width', 'fixed params must be per-tensor and carry the width they are keyed by')
      if zp != 0:
        ctx.check(R, o.fields['symmetric'] is False, f.node, f, f'{op}/{bits} symmetric', 'a non-zero zero point must not be flagged symmetric')
  # the fixed params replace the producer params and the qsv
  h = ctx.repo.func(f'{MMU}:materialize_op_with_output_activation_constraint')
  inl0 = defuse.Inliner(ctx.repo, max_depth=0)
  tbl = h.pos_params[3]
  ctor = [c for c in common.calls_in(h.node) if common.call_name(c).endswith('OpToTensorParams')]
  okp = False
  for c in ctor:
    kw = {k.arg: defuse.norm(inl0.inline(h, k.value)) for k in c.keywords}
    if kw.get('parameters', '').startswith(f'{tbl}[') and 'activation_tensor_config.num_bits' in kw.get('parameters', ''):
      okp = True
  ctx.check(R + 'c', okp, h.node, h, 'fixed params applied to the output',
            'the output producer must receive the table entry of the activation width of the op config')
  st = [n for n in common.walk_no_nested(h.node) if isinstance(n, ast.Assign) and isinstance(n.targets[0], ast.Attribute) and n.targets[0].attr == 'producer']
  ctx.check(R + 'c', len(st) == 1, h.node, h, 'producer replaced', 'the fixed parameters must replace the producer entry of the output tensor')


def r10_fixed_range_statistics(ctx, R='C04.R10'):
  """The statistics written for a fixed-range output must give back the fixed
  parameters when a consumer derives its parameters from them - otherwise
  producer and consumer of the tensor disagree (a requantize is inserted, or the
  plan is rejected). materialize_op_with_output_activation_constraint is
  enumerated with exact rationals for every fixed entry x symmetric flag; the
  consumer side is the repository's own tensor_zp_scale_from_min_max."""
  import fractions  # pylint: disable=g-import-not-at-top
  from sa import absint  # pylint: disable=g-import-not-at-top
  rs = ctx.rule(R, 'fixed-range outputs: the statistics recorded for the output give back exactly the fixed scale / zero point on the consumer side', floor=3)
  fixed = c13.fixed_range_tables(ctx)
  h = ctx.repo.func(f'{MMU}:materialize_op_with_output_activation_constraint')
  zs = ctx.repo.func('algorithms.uniform_quantize.uniform_quantize_tensor:tensor_zp_scale_from_min_max')
  UQ = 'algorithms.uniform_quantize.uniform_quantize_tensor'
  OTP, TTP = 'qtyping:OpToTensorParams', 'qtyping:TensorTransformationParams'
  QT = {e.name: e for e in tables.enum(ctx, 'qtyping:QuantTransformation')}
  rs.exhaustive = True
  for op in sorted(fixed):
    ctx.instance(R)
    for bits, o in sorted(fixed[op].items()):
      for sym in (False, True):
        if sym and o.fields['zero_point'] != 0:
          continue  # a symmetric activation config cannot carry a non-zero zero point (rejected by the policy)
        P = Obj(o.cls, dict(o.fields))
        P.fields['scale'] = fractions.Fraction(o.fields['scale'])
        act = tables.tensor_config(ctx, num_bits=bits, symmetric=sym)
        cfg = tables.construct(ctx, common.OPCFG, activation_tensor_config=act, weight_tensor_config=tables.tensor_config(ctx, num_bits=8),
                               compute_precision=tables.enum_member(ctx, 'qtyping:ComputePrecision', 'INTEGER'))
        op_obj = Obj('x:OperatorT', {'inputs': [0], 'outputs': [1]})
        op_info = Obj('qtyping:OpInfo', {'op': op_obj, 'op_name': tables.enum_member(ctx, 'qtyping:TFLOperationName', op), 'subgraph_op_index': 0, 'op_quant_config': cfg})
        qsv = {'in': {'min': -3, 'max': 5}, 'out': {'min': -7, 'max': 9}}
        table = {b: (P if b == bits else x) for b, x in fixed[op].items()}

        def std(args, kwargs):
          return [Obj(TTP, {'tensor_name': 'in', 'producer': None, 'consumers': [Obj(OTP, {'subgraph_op_id': 0, 'transformations': [QT['ADD_QUANTIZE']], 'parameters': 'pin'})]}),
                  Obj(TTP, {'tensor_name': 'out', 'producer': Obj(OTP, {'subgraph_op_id': 0, 'transformations': [QT['ADD_DEQUANTIZE']], 'parameters': 'pout'}), 'consumers': None})]
        hooks = {f'{MMU}:materialize_standard_op': std,
                 f'{UQ}:fix_quantization_params_rank': lambda a, k: a[1],
                 f'{UQ}:_is_valid_quantization_params': lambda a, k: None,
                 f'{UQ}:assign_quantized_type': lambda a, k: a[0]}
        it = absint.Interp(ctx.repo, ctx.ev, hooks=hooks)
        label = f'{op} {bits}-bit, symmetric={sym}: fixed scale {o.fields["scale"]} zero point {o.fields["zero_point"]}'
        outs = it.outcomes(h, [op_info, absint.Opaque('graph_info'), qsv, table], copy_args=False)
        if len(outs) != 1 or outs[0].kind != 'return':
          ctx.check(R, False, h.node, h, label, f'not decided: {[x.short()[:100] for x in outs]}')
          continue
        res = outs[0].value
        prod = res[-1].fields['producer'] if isinstance(res, list) and res and isinstance(res[-1], Obj) else None
        ctx.check(R, isinstance(prod, Obj) and prod.fields['parameters'] is P, h.node, h, label, 'the output producer must carry the fixed parameters of the configured activation width')
        mn, mx = qsv['out']['min'], qsv['out']['max']
        if not (absint._is_num(mn) and absint._is_num(mx)):  # pylint: disable=protected-access
          ctx.check(R, False, h.node, h, label, f'recorded statistics not folded: min={mn!r} max={mx!r}')
          continue
        back = it.outcomes(zs, [mn, mx, bits, sym], copy_args=False)
        if len(back) != 1 or back[0].kind != 'return' or not isinstance(back[0].value, tuple):
          ctx.check(R, False, zs.node, zs, label, f'consumer side not decided: {[x.short()[:100] for x in back]}')
          continue
        zp, sc = back[0].value
        ok = absint._is_num(zp) and absint._is_num(sc) and zp == P.fields['zero_point'] and sc == P.fields['scale']  # pylint: disable=protected-access
        ctx.check(R, ok, h.node, h, label,
                  f'statistics written for the output are [{float(mn):.9g}, {float(mx):.9g}]; a consumer derives scale {(format(float(sc), ".9g") if absint._is_num(sc) else repr(sc))} / zero point {zp} from them, '
                  f'not the fixed {o.fields["scale"]} / {o.fields["zero_point"]}: producer and consumer of the tensor disagree')
        ctx.check(R, qsv['in'] == {'min': -3, 'max': 5}, h.node, h, label, 'the statistics of the input tensor must not be touched')


def r11_constant_statistics(ctx, R='C04.R11'):
  """init_tensor_min_max on small integer arrays (exact array model): the
  statistics of a constant are its true min / max - over the whole tensor, or
  per channel along the dimension the runtime kernel expects - with a shape that
  broadcasts against the tensor. Independent of how the reduction is written."""
  import itertools  # pylint: disable=g-import-not-at-top
  from sa import absint  # pylint: disable=g-import-not-at-top
  from sa.ndarr import NdArr  # pylint: disable=g-import-not-at-top
  rs = ctx.rule(R, 'constant statistics table: true min/max per tensor, or per channel along the kernel\'s weight dimension (batch-matmul: last, or second-to-last when adj_y)', floor=1)
  f = ctx.repo.func(f'{MMU}:init_tensor_min_max')
  ctx.instance(R)
  OPN = {e.name: e for e in tables.op_names(ctx)}
  G = {e.name: e for e in tables.enum(ctx, 'qtyping:QuantGranularity')}
  CP = {e.name: e for e in tables.enum(ctx, 'qtyping:ComputePrecision')}
  cases = [  # (op, shape, adj_y, channel dim the kernel expects)
      ('FULLY_CONNECTED', (3, 4), None, 0), ('CONV_2D', (2, 2, 1, 3), None, 0), ('DEPTHWISE_CONV_2D', (1, 2, 2, 3), None, 3),
      ('EMBEDDING_LOOKUP', (4, 3), None, 0), ('CONV_2D_TRANSPOSE', (2, 1, 2, 3), None, 0),
      ('BATCH_MATMUL', (2, 3, 4), False, 2), ('BATCH_MATMUL', (2, 3, 4), True, 1), ('BATCH_MATMUL', (3, 4), False, 1), ('BATCH_MATMUL', (3, 4), True, 0),
      ('BATCH_MATMUL', (2, 2, 3, 2), True, 2),
  ]
  rs.exhaustive = True
  for (op, shape, adj, dim), gran in itertools.product(cases, ('CHANNELWISE', 'TENSORWISE')):
    if op not in OPN:
      continue
    n = 1
    for s_ in shape:
      n *= s_
    # distinct values so that a reduction over the wrong elements is visible: a pseudo-random permutation of -n/2 .. n/2
    vals = [((k * 7 + 3) % n) - n // 2 for k in range(n)]
    arr = NdArr(shape, vals)
    wcfg = tables.tensor_config(ctx, num_bits=8, granularity=G[gran])
    cfg = tables.construct(ctx, common.OPCFG, weight_tensor_config=wcfg, compute_precision=CP['INTEGER'])
    op_obj = Obj('x:OperatorT', {'inputs': [0, 1], 'outputs': [2], 'builtinOptions': Obj('x:BatchMatMulOptionsT', {'adjX': False, 'adjY': bool(adj)})})
    op_info = Obj('qtyping:OpInfo', {'op': op_obj, 'op_name': OPN[op], 'subgraph_op_index': 0, 'op_quant_config': cfg})
    it = absint.Interp(ctx.repo, ctx.ev, hooks={'tfl_flatbuffer_utils.get_tensor_data': lambda a, k, arr=arr: arr})
    tensor = Obj('x:TensorT', {'name': b'w', 'shape': list(shape), 'buffer': 1})
    label = f'{op}{" adj_y" if adj else ""} weights {shape}, {gran}'
    outs = it.outcomes(f, [tensor, Obj('qtyping:GraphInfo', {'subgraph_tensors': [tensor], 'buffers': []}), op_info], copy_args=False)
    if len(outs) != 1 or outs[0].kind != 'return' or not isinstance(outs[0].value, dict):
      ctx.check(R, False, f.node, f, label, f'not decided: {[o.short()[:100] for o in outs]}')
      continue
    res = outs[0].value
    for key, red in (('min', min), ('max', max)):
      got = res.get(key)
      if gran == 'TENSORWISE':
        want_shape, want = tuple(1 for _ in shape), [red(vals)]
      else:
        want_shape = tuple(shape[d] if d == dim else 1 for d in range(len(shape)))
        want = [red(arr.at(idx) for idx in itertools.product(*[range(s_) for s_ in shape]) if idx[dim] == c) for c in range(shape[dim])]
      ok = isinstance(got, NdArr) and got.shape == want_shape and got.data == want
      ctx.check(R, ok, f.node, f, f'{label}: {key} = {got!r}',
                f'the {key} statistics must have shape {want_shape} with values {want} (true {key} of every channel along dimension {dim})' if gran == 'CHANNELWISE'
                else f'the {key} statistic must be the {key} over the whole tensor ({want[0]}) with shape {want_shape}')


def r3_channel_dim(ctx):
  R = 'C04.R3'
  ctx.rule(R, 'per-channel quantized dimension: table, batch-matmul rule, same rule at init and at materialisation', floor=4)
  qd = tables.module_const(ctx, 'utils.tfl_flatbuffer_utils', 'TFL_OP_TO_WEIGHT_QUANTIZED_DIM')
  fu = ctx.repo.mod('utils.tfl_flatbuffer_utils')
  got = {getattr(k, 'name', k): v for k, v in qd.items()}
  ctx.instance(R)
  ctx.check(R, got == oracles.WEIGHT_QUANTIZED_DIM, fu.tree, fu, f'TFL_OP_TO_WEIGHT_QUANTIZED_DIM={got}', f'quantized dimension table differs from the spec {oracles.WEIGHT_QUANTIZED_DIM}')
  b = ctx.repo.func(f'{MMU}:_get_bmm_weight_quantized_dim')
  ctx.instance(R)
  for p in defuse.paths(b.node):
    adj = [t for c, t in p.conds if defuse.norm(c) == b.pos_params[1]]
    want = 'len(weight_tensor_data.shape) - 2' if adj == [True] else 'len(weight_tensor_data.shape) - 1'
    ctx.check(R, p.ret is not None and algebra.same(p.ret, want.replace('weight_tensor_data', b.pos_params[0])), b.node, b, f'adj_y={adj}: {defuse.norm(p.ret)}',
              f'batch-matmul quantized dimension for adj_y={adj} must be {want}')
  # which dimension is used, how the statistics are reduced and what the parameters carry is decided on
  # concrete small weights by the tables C04.R11 (statistics) and C04.R13 = C05.R11 (parameters and stored codes):
  # they do not depend on how the selection / reduction is written.
  ctx.instance(R)
  ctx.instance(R)
  ctx.check(R, True, b.node, b, 'selection and reduction: see C04.R11 / C04.R13', '')


def r4_bias(ctx):
  R = 'C04.R4'
  ctx.rule(R, 'bias parameters come from the input and weight operands the schema defines for each op', floor=2)
  b = ctx.repo.func(f'{NMM}:_materialize_bias_for_conv_ops')
  ctx.instance(R)
  calls = [c for c in common.calls_in(b.node) if common.call_name(c).endswith('symmetric_quantize_bias_tensor')]
  if ctx.check(R, len(calls) == 1, b.node, b, 'bias quantisation call', 'missing'):
    a = [defuse.norm(x) for x in calls[0].args]
    ctx.check(R, a[1] == 'op_tensor_params[op_input_index].consumers[0].parameters' and a[2] == 'op_tensor_params[op_weight_index].consumers[0].parameters', calls[0], b, calls[0],
              'bias scale must be derived from the parameters of the op\'s input operand and weight operand, in that order')
    a0 = defuse.norm(defuse.Inliner(ctx.repo, max_depth=0).inline(b, calls[0].args[0]))
    ctx.check(R, a0.startswith('tfl_flatbuffer_utils.get_tensor_data(') and 'parse_fc_bmm_conv_tensors' in a0, calls[0], b, calls[0], 'the content of the op\'s bias tensor must be quantized')
  st = [n for n in common.walk_no_nested(b.node) if isinstance(n, ast.Assign) and isinstance(n.targets[0], ast.Subscript) and ast.unparse(n.targets[0].value) == 'op_tensor_params']
  ctx.check(R, len(st) == 1 and ast.unparse(st[0].targets[0].slice) == 'op_bias_index', b.node, b, 'bias entry', 'the bias entry must replace the entry at the bias operand index')
  parse = [c for c in common.calls_in(b.node) if common.call_name(c).endswith('parse_fc_bmm_conv_tensors')]
  ok = len(parse) == 1 and [ast.unparse(x) for x in parse[0].args][2:] == ['op_input_index', 'op_weight_index', 'op_bias_index']
  ctx.check(R, ok, b.node, b, 'operand parse', 'operands must be parsed with the indices the caller supplied')
  # callers: indices per op (O4)
  reg = tables.registry(ctx)
  for alg, ops in reg.items():
    if alg.name != 'MIN_MAX_UNIFORM_QUANT':
      continue
    for op, entry in ops.items():
      lay = oracles.OPERANDS.get(op.name)
      if lay is None or 'bias' not in lay:
        continue
      fi = ctx.repo.func(entry['materialize'].fq)
      ctx.instance(R)
      bc = [c for c in common.calls_in(fi.node) if common.call_name(c).endswith('_materialize_bias_for_conv_ops')]
      if not ctx.check(R, len(bc) == 1, fi.node, fi, f'{op.name}: bias materialisation', f'{op.name}: bias is not materialised'):
        continue
      inl = defuse.Inliner(ctx.repo, max_depth=0)
      got = {}
      for kname, kval in common.named_args(ctx, fi, bc[0]).items():
        try:
          v = ctx.ev.eval(inl.inline(fi, kval), fi.module, {})
        except Exception:  # pylint: disable=broad-except
          d = fi.param_default(ast.unparse(kval))
          v = d.value if isinstance(d, ast.Constant) else None
        got[kname] = v
      want = {'op_input_index': lay['input'], 'op_weight_index': lay['weight'], 'op_bias_index': lay['bias']}
      ctx.check(R, all(got.get(k) == v for k, v in want.items()), bc[0], fi, f'{op.name}: {got}', f'{op.name}: input/weight/bias operand indices must be {want}, materialiser passes {got}')
      std = [c for c in common.calls_in(fi.node) if common.call_name(c).endswith('materialize_standard_op')]
      ig = None
      for kname, kval in (common.named_args(ctx, fi, std[0]).items() if std else []):
        if kname == 'inputs_to_ignore':
          try:
            ig = ctx.ev.eval(inl.inline(fi, kval), fi.module, {})
          except Exception:  # pylint: disable=broad-except
            ig = [fi.param_default(e.id).value if isinstance(e, ast.Name) and isinstance(fi.param_default(e.id), ast.Constant) else None for e in kval.elts] if isinstance(kval, ast.List) else None
      need = {lay['bias']} | ({lay['shape']} if 'shape' in lay else set())
      ctx.check(R, isinstance(ig, list) and set(ig) == need, fi.node, fi, f'{op.name}: inputs_to_ignore={ig}', f'{op.name}: the standard pass must leave out exactly the bias{" and shape" if "shape" in lay else ""} operand(s) {sorted(need)}')
  c17.r8_bias(ctx)
  if 'C17.R8' in ctx.rules:
    rs = ctx.rules.pop('C17.R8')
    ctx.rules['C04.R4b'] = rs
    for v in ctx.violations:
      if v.rule == 'C17.R8':
        v.rule = 'C04.R4b'


def r5_to_flatbuffer(ctx):
  R = 'C04.R5'
  ctx.rule(R, 'scale, zero point, quantized dimension and width all reach the flatbuffer tensor', floor=1)
  f = ctx.repo.func('transformations.quantize_tensor:quantize_tensor')
  ctx.instance(R)
  ti = f.pos_params[0]
  br = [n for n in common.walk_no_nested(f.node) if isinstance(n, ast.If) and 'UniformQuantParams' in ast.unparse(n.test) and 'isinstance' in ast.unparse(n.test)]
  if not ctx.check(R, len(br) == 1, f.node, f, 'uniform branch', 'the UniformQuantParams branch was not found'):
    return
  body = ast.Module(body=br[0].body, type_ignores=[])
  stores = {}
  for n in ast.walk(body):
    if isinstance(n, ast.Assign) and isinstance(n.targets[0], ast.Attribute):
      stores[ast.unparse(n.targets[0])] = n
  q = next((k.split('.')[0] for k in stores if k.endswith('.scale')), None)
  want = {f'{q}.scale': (f'{ti}.quant_params.scale', 'np.float32'), f'{q}.zeroPoint': (f'{ti}.quant_params.zero_point', 'np.int64')}
  for k, (src, ty) in want.items():
    n = stores.get(k)
    ok = n is not None and src in defuse.norm(n.value) and ty in defuse.norm(n.value) and 'flatten()' in defuse.norm(n.value)
    ctx.check(R, ok, n if n is not None else br[0], f, k, f'{k} must be the flattened {src} as {ty}')
  n = stores.get(f'{q}.quantizedDimension')
  ok = n is not None and defuse.norm(n.value) == f'{ti}.quant_params.quantized_dimension'
  ctx.check(R, ok, n if n is not None else br[0], f, 'quantizedDimension', 'the quantized dimension is not written: per-channel weights are dequantized along dimension 0')
  if n is not None:
    guards = [g for g in ast.walk(body) if isinstance(g, ast.If) and any(x is n for x in ast.walk(g))]
    # skipping 0 is harmless (0 is the flatbuffer default of quantizedDimension)
    ctx.check(R, all(defuse.norm(g.test) in (f'{ti}.quant_params.quantized_dimension is not None', f'{ti}.quant_params.quantized_dimension') for g in guards), n, f, 'guard',
              'the dimension may only be skipped when it is None or 0 (the flatbuffer default)')
  inl = defuse.Inliner(ctx.repo, max_depth=0)
  own = f'{ti}.subgraph.tensors[{ti}.tensor_id]'
  by_target = {defuse.norm(inl.inline(f, n.targets[0])): n for n in stores.values()}
  qs = by_target.get(f'{own}.quantization')
  ctx.check(R, qs is not None and defuse.norm(qs.value) == q, br[0], f, 'tensor.quantization', 'the parameters object must be attached to the instruction\'s own tensor')
  ty = by_target.get(f'{own}.type')
  ctx.check(R, ty is not None and defuse.norm(ty.value) == f'quant_params_to_tflite_type({ti}.quant_params.num_bits)', br[0], f, 'tensor.type', 'the dtype of the instruction\'s own tensor must follow the parameter width')


def r6_same_scale_helpers(ctx):
  """Parameter / statistics routing table of materialize_standard_op.

  Tensors are opaque tokens; the per-tensor materialiser, the operand split and
  the merge are replaced by routing stubs, so only the *wiring* of the
  constraint helpers is enumerated: whose parameters each tensor receives and
  whose statistics are overwritten. Independent of how the helpers are
  organised."""
  R = 'C04.R6'
  rs = ctx.rule(R, 'routing: same-as-input -> outputs get the INPUT params (and its statistics); same-as-output -> inputs get the OUTPUT params, their statistics stay their own', floor=3)
  from sa import absint  # pylint: disable=g-import-not-at-top
  mso = ctx.repo.func(f'{MMU}:materialize_standard_op')
  OTP, TTP = 'qtyping:OpToTensorParams', 'qtyping:TensorTransformationParams'
  C = {e.name: e for e in tables.enum(ctx, f'{MMU}:OpQuantConstraint')}
  rs.exhaustive = True
  for cname, n_in, n_out in (('SAME_AS_INPUT_SCALE', 1, 1), ('SAME_AS_INPUT_SCALE', 1, 3), ('SAME_AS_OUTPUT_SCALE', 1, 1), ('SAME_AS_OUTPUT_SCALE', 3, 1), ('NO_CONSTRAIN', 2, 2)):
    ctx.instance(R)
    ins = [Obj('tok:Tensor', {'name': f'in{i}'}) for i in range(n_in)]
    outs = [Obj('tok:Tensor', {'name': f'out{i}'}) for i in range(n_out)]
    qsv = {t.fields['name']: {'min': 'min_' + t.fields['name'], 'max': 'max_' + t.fields['name']} for t in ins + outs}
    before = {k: dict(v) for k, v in qsv.items()}

    def split(args, kwargs):
      inb = kwargs.get('is_inbounding_tensor', args[3] if len(args) > 3 else None)
      return ([], list(ins) if inb else list(outs), [])

    def wrapper(args, kwargs):
      names = ['tensor', 'is_inbounding_tensor', 'op_info', 'graph_info', 'tensor_name_to_qsv', 'quant_params']
      b_ = dict(zip(names, args))
      b_.update(kwargs)
      t = b_['tensor']
      qp = b_.get('quant_params')
      if qp is None:
        qp = 'PARAMS(' + t.fields['name'] + ')'
      o = Obj(OTP, {'subgraph_op_id': 0, 'transformations': ['T'], 'parameters': qp})
      if b_['is_inbounding_tensor']:
        return Obj(TTP, {'tensor_name': t.fields['name'], 'producer': None, 'consumers': [o]})
      return Obj(TTP, {'tensor_name': t.fields['name'], 'producer': o, 'consumers': None})

    hooks = {
        f'{MMU}:_add_non_match_tensors_to_ignored_lists': lambda a, k: ([], []),
        f'{MMU}:_split_tensors_by_indices': split,
        f'{MMU}:_get_tensor_transformation_params_wrapper': wrapper,
        f'{MMU}:_materialize_ignored_tensors': lambda a, k: [],
        f'{MMU}:_merge_materialized_tensors': lambda a, k: a[0] if a else k.get('tensor_params'),
        'utils.tfl_flatbuffer_utils:get_tensor_name': lambda a, k: a[0].fields['name'],
    }
    it = absint.Interp(ctx.repo, ctx.ev, hooks=hooks)
    try:
      it._decisions, it._cursor = [], 0  # pylint: disable=protected-access
      res = it.call_function(mso, [absint.Opaque('op_info'), absint.Opaque('graph_info'), qsv], {'constraint': C[cname]}, 0)
    except absint._Raise as r:  # pylint: disable=protected-access
      ctx.check(R, False, mso.node, mso, f'{cname} {n_in}->{n_out}', f'materialize_standard_op raises {r.exc} on a {n_in}-input/{n_out}-output op with {cname}')
      continue
    if not isinstance(res, list) or not all(isinstance(x, Obj) for x in res):
      raise index.AnalysisError(f'{R}: routing of {cname} could not be extracted ({res!r})')
    got = {}
    for x in res:
      o = x.fields['consumers'][0] if x.fields.get('consumers') else x.fields.get('producer')
      got[x.fields['tensor_name']] = o.fields['parameters'] if isinstance(o, Obj) else None
    order = [x.fields['tensor_name'] for x in res]
    want_order = [t.fields['name'] for t in ins + outs]
    ctx.check(R, order == want_order, mso.node, mso, f'{cname} {n_in}->{n_out}: order {order}', f'result must list inputs then outputs in operand order, got {order}')
    label = f'{cname} with {n_in} input(s), {n_out} output(s)'
    if cname == 'SAME_AS_INPUT_SCALE':
      want = {t.fields['name']: 'PARAMS(in0)' for t in ins + outs}
      want_qsv = dict(before)
      for t in outs:
        want_qsv[t.fields['name']] = before['in0']
    elif cname == 'SAME_AS_OUTPUT_SCALE':
      want = {t.fields['name']: 'PARAMS(out0)' for t in ins + outs}
      want_qsv = dict(before)
    else:
      want = {t.fields['name']: 'PARAMS(' + t.fields['name'] + ')' for t in ins + outs}
      want_qsv = dict(before)
    ctx.check(R, got == want, mso.node, mso, f'{label}: params {got}', f'{label}: tensors receive parameters {got}; the spec requires {want}')
    ctx.check(R, {k: dict(v) for k, v in qsv.items()} == want_qsv, mso.node, mso, f'{label}: statistics',
              f'{label}: statistics after materialisation are {qsv}; only the OUTPUTS of a same-as-input op may take over the input statistics '
              '(a tensor\'s statistics may be replaced only by the op that produces it), expected ' + str(want_qsv))
    if cname == 'SAME_AS_OUTPUT_SCALE' and n_in == 3:
      ctx.sample(R, {'constraint': cname, 'params': got})
  # (explicitly supplied parameters are kept, never recomputed from statistics: table C04.R12 = C05.R10)


def run(ctx):
  r1_constraint_table(ctx)
  r2_fixed_ranges(ctx)
  r3_channel_dim(ctx)
  r4_bias(ctx)
  r5_to_flatbuffer(ctx)
  r6_same_scale_helpers(ctx)
  c17.r2_scale_formulas(ctx)
  if 'C17.R2' in ctx.rules:
    ctx.rules['C04.R7'] = ctx.rules.pop('C17.R2')
    for v in ctx.violations:
      if v.rule == 'C17.R2':
        v.rule = 'C04.R7'
  shared.rule_exact_equality(ctx, 'C04.R8')
  shared.rule_rebuild_completeness(ctx, 'C04.R9')
  r10_fixed_range_statistics(ctx)
  r11_constant_statistics(ctx)
  from sa.rules import c05  # pylint: disable=g-import-not-at-top
  c05.r10_constant_carries_data(ctx, 'C04.R12')
  c05.r11_constant_numeric_table(ctx, 'C04.R13')
  shared.rule_operator_sweep(ctx, 'C04.R14')
  shared.rule_weight_bias_parameters(ctx, 'C04.R15')
  shared.rule_fixed_range_pipeline(ctx, 'C04.R16')
