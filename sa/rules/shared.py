"""Rules that several properties list (evaluated and reported under each)."""
from __future__ import annotations

import ast

from sa import callgraph
from sa import cfg as cfgmod
from sa import defuse
from sa import index
from sa import oracles
from sa import tables
from sa.consteval import EnumVal, Ext, Obj
from sa.rules import common

UQT = 'algorithms.uniform_quantize.uniform_quantize_tensor'
MMU = 'algorithms.utils.min_max_quantize_utils'
NMM = 'algorithms.uniform_quantize.naive_min_max_quantize'
FCAST = 'algorithms.nonlinear_quantize.float_casting'
QTENS = 'transformations.quantize_tensor'

TOLERANT = ('allclose', 'isclose', 'assert_allclose', 'array_equiv', 'assert_array_almost_equal')


# ------------------------------------------------------------------ ladders
def extract_ladder(func: index.FuncInfo, var_pred) -> list[tuple[str, int, str]]:
  """[(op, K, result expr text)] for an `if x <= K: ... elif ...` chain over the
  width variable; the final else is ('else', None, text)."""
  out = []
  node = None
  for st in func.node.body:
    if isinstance(st, ast.If):
      node = st
      break
  while node is not None:
    t = node.test
    if not (isinstance(t, ast.Compare) and len(t.ops) == 1 and var_pred(t.left)
            and isinstance(t.comparators[0], ast.Constant)):
      raise index.AnalysisError(
          f'{func.loc(node)}: width ladder test {ast.unparse(t)!r} is not of the form <width> <op> <int>')
    op = {ast.LtE: '<=', ast.Lt: '<', ast.Eq: '==', ast.GtE: '>=', ast.Gt: '>'}.get(type(t.ops[0]))
    if op is None:
      raise index.AnalysisError(f'{func.loc(node)}: unsupported ladder comparison')
    out.append((op, t.comparators[0].value, _arm_text(node.body)))
    if len(node.orelse) == 1 and isinstance(node.orelse[0], ast.If):
      node = node.orelse[0]
    else:
      out.append(('else', None, _arm_text(node.orelse) if node.orelse else 'fallthrough'))
      node = None
  return out


def _arm_text(body) -> str:
  for st in body:
    if isinstance(st, ast.Return):
      return 'return ' + (ast.unparse(st.value) if st.value is not None else 'None')
    if isinstance(st, ast.Raise):
      return 'raise'
    if isinstance(st, ast.Assign):
      return ast.unparse(st.value)
  return 'fallthrough'


def ladder_eval(ladder, width: int) -> str:
  for op, k, text in ladder:
    if op == 'else':
      return text
    if {'<=': width <= k, '<': width < k, '==': width == k, '>=': width >= k, '>': width > k}[op]:
      return text
  return 'fallthrough'


def rule_ladders(ctx, R: str):
  """Writer/reader agreement of the numpy storage ladder, the TFLite dtype
  ladder and the int4 packing threshold, for every integer width 1..64."""
  rs = ctx.rule(R, 'width ladders agree: numpy storage dtype, TFLite dtype, int4 packing band', floor=4)
  uq = ctx.repo.func(f'{UQT}:assign_quantized_type')
  qt = ctx.repo.func(f'{QTENS}:quant_params_to_tflite_type')
  nl = ctx.repo.func(f'{QTENS}:nonlinear_quant_params_to_tflite_type')
  pk = ctx.repo.func(f'{QTENS}:_pack_data')
  # The four functions are RUN for every width by the path interpreter (so a ladder, a table or a dict lookup are
  # all the same to this rule): which numpy type the data is cast to, which TFLite type annotates it, whether the
  # bytes are nibble-packed.
  from sa import absint, consteval  # pylint: disable=g-import-not-at-top
  from sa.consteval import Ext, Obj  # pylint: disable=g-import-not-at-top
  it = absint.Interp(ctx.repo, ctx.ev)
  TT = consteval.schema_enum('TensorType')
  tt_name = lambda v: next((k for k, x in TT.items() if x == (v.value if isinstance(v, Ext) else v)), None)
  ctx.instance(R, 4)

  def run1(f, args):
    o = it.outcomes(f, args, copy_args=False)
    if len(o) == 1 and o[0].kind == 'raise':
      return 'raise'
    if len(o) == 1 and o[0].kind == 'return':
      return o[0].value
    return absint.Opaque('several outcomes')

  def np_storage(w):
    seen = []
    arr = Obj('x:Array', {'astype': _StandIn(lambda a_, k, kind=None: (seen.append(a_[0] if a_ else k.get('dtype')) or 'CAST'), 'c')})
    r = run1(uq, [arr, Obj(f'{UQT}:IntType', {'num_bits': w, 'signed': True})])
    if r != 'CAST' or len(seen) != 1 or not isinstance(seen[0], Ext):
      return None, f'{r!r} / {seen!r}'
    n = seen[0].name.split('.')[-1]
    return ({'int8': 8, 'int16': 16, 'int32': 32, 'int64': 64}.get(n), n)

  def packed(w):
    token = absint.Opaque('DATA')
    o = it.outcomes(pk, [w, token], copy_args=False)
    if not o or any(x.kind != 'return' for x in o):
      return None
    same = [x.value is token for x in o]
    return False if all(same) else (True if not any(same) else None)
  rs.exhaustive = True
  for w in range(1, 65):
    npb, nptxt = np_storage(w)
    t = run1(qt, [w])
    tname = tt_name(t) if not isinstance(t, (str, absint.Opaque)) else None
    pkd = packed(w)
    ok = True
    msg = ''
    if isinstance(t, absint.Opaque) or pkd is None or (npb is None and 'Opaque' in str(nptxt)):
      ok, msg = False, f'width {w}: not decided (TFLite type {t!r}, storage {nptxt!r}, packed {pkd!r})'
    elif tname is None or tname not in oracles.TYPE_BITS:
      ok, msg = False, f'width {w}: no TFLite dtype ({t})'
    elif npb is None:
      ok, msg = False, f'width {w}: no numpy storage dtype ({nptxt})'
    else:
      tb = oracles.TYPE_BITS[tname]
      if tb < w:
        ok, msg = False, f'width {w}: TFLite dtype {tname} is narrower than the values'
      elif pkd:
        if not (tname == 'INT4' and npb == 8):
          ok, msg = False, f'width {w}: data is nibble-packed but annotated {tname} / stored as int{npb}'
      else:
        if tname == 'INT4':
          ok, msg = False, f'width {w}: annotated INT4 but bytes are not nibble-packed'
        elif npb != tb:
          ok, msg = False, f'width {w}: stored as int{npb} but annotated {tname} (byte length mismatch)'
    ctx.check(R, ok, qt.node, qt, f'width {w}', msg)
  # spec anchor points
  for w, want in ((4, 'INT4'), (8, 'INT8'), (16, 'INT16'), (32, 'INT32'), (64, 'INT64')):
    t = run1(qt, [w])
    got = tt_name(t) if not isinstance(t, (str, absint.Opaque)) else repr(t)
    ctx.check(R, got == want, qt.node, qt, f'width {w} -> {want}', f'{w}-bit parameters are annotated {got}, expected {want}')
  for w, want in ((16, 'FLOAT16'), (32, 'FLOAT32')):
    t = run1(nl, [w])
    got = tt_name(t) if not isinstance(t, (str, absint.Opaque)) else repr(t)
    ctx.check(R, got == want, nl.node, nl, f'float width {w} -> {want}', f'{w}-bit float parameters are annotated {got}, expected {want}')
  for w in (8, 24, 64):
    t = run1(nl, [w])
    ctx.check(R, t == 'raise', nl.node, nl, f'float width {w}', f'unsupported float width {w} must be rejected, got {t!r}')
  # schema codes are the frozen ones (O6): disagreement = analysis error, not a violation
  from sa import consteval  # pylint: disable=g-import-not-at-top
  codes = consteval.schema_enum('TensorType')
  for k, v in oracles.TENSOR_TYPE.items():
    if codes.get(k) != v:
      raise index.AnalysisError(f'installed schema TensorType.{k}={codes.get(k)} differs from the frozen oracle {v}')
  ctx.sample(R, {'widths': '1..64', 'functions': [uq.fq, qt.fq, nl.fq, pk.fq]})


# ------------------------------------------------------- exact params equality
def rule_exact_equality(ctx, R: str):
  """Parameter equality that drives DQ/Q elimination, requantize, grouping and
  buffer-sharing compatibility must be exact on every field."""
  ctx.rule(R, 'quantization-parameter equality is exact and covers every field', floor=2)
  cg = callgraph.get(ctx)
  for cname in ('UniformQuantParams', 'NonLinearQuantParams'):
    ci = ctx.repo.cls(f'qtyping:{cname}')
    ctx.instance(R)
    eq = ci.methods.get('__eq__')
    if eq is None:
      # dataclass-generated __eq__ compares numpy arrays ambiguously
      has_array = any(f.annotation is not None and 'ndarray' in ast.unparse(f.annotation) for f in ci.fields)
      ctx.check(R, not has_array, ci.node, ci.module, f'class {cname}', f'{cname} holds arrays but defines no __eq__ (dataclass equality on arrays is ambiguous)')
      continue
    chain = cg.reachable([eq.fq])
    src_fields = set()
    for fq in chain:
      f = ctx.repo.func(fq)
      for n in ast.walk(f.node):
        if isinstance(n, ast.Call):
          name = common.call_name(n)
          ctx.check(R, not any(name.endswith(t) for t in TOLERANT), n, f, n,
                    f'{cname} equality uses the tolerant comparison {name}: parameters that differ '
                    'are treated as equal, so a DEQUANTIZE/QUANTIZE pair with different scales is '
                    'eliminated instead of requantized')
        if isinstance(n, ast.Attribute) and isinstance(n.value, ast.Name) and n.value.id in ('self', 'other'):
          src_fields.add(n.attr)
    for fld in ci.fields:
      ctx.check(R, fld.name in src_fields, eq.node, eq, f'field {fld.name}', f'{cname}.__eq__ ignores field {fld.name}')
    # array-valued fields must go through an exact array comparison
    for n in ast.walk(eq.node):
      if isinstance(n, ast.Compare) and isinstance(n.left, ast.Attribute) and isinstance(n.left.value, ast.Name) and n.left.value.id == 'self':
        fld = ci.field(n.left.attr)
        if fld is not None and fld.annotation is not None and 'ndarray' in ast.unparse(fld.annotation):
          ctx.check(R, False, n, eq, n, f'array field {fld.name} compared with == (ambiguous truth value / broadcasting)')


# ------------------------------------------------------- consumer rewiring
def insertion_transformations(ctx) -> dict[str, index.FuncInfo]:
  cg = callgraph.get(ctx)
  perf = ctx.repo.cls('transformation_performer:TransformationPerformer')
  d = cg.dict_dispatch(perf, '_transformation_registration')
  if len(d) < 4:
    raise index.AnalysisError('TransformationPerformer._transformation_registration is no longer a dict literal of 4 transformations')
  return d


def find_rewire_stores(ctx, roots: list[index.FuncInfo], attr: str):
  """Stores `<x>.<attr>[i] = v` in the call tree of `roots` -> (func, store stmt)."""
  cg = callgraph.get(ctx)
  chains = cg.reachable([r.fq for r in roots])
  out = []
  for fq in chains:
    f = ctx.repo.func(fq)
    for n in common.walk_no_nested(f.node):
      if isinstance(n, ast.Assign):
        for t in n.targets:
          if isinstance(t, ast.Subscript) and isinstance(t.value, ast.Attribute) and t.value.attr == attr:
            out.append((f, n, t))
  return out


def enclosing_loops(func_node, stmt) -> list[ast.For]:
  """For-loops of func_node that contain stmt, outermost first."""
  out = []

  def rec(node, stack):
    for child in ast.iter_child_nodes(node):
      if child is stmt:
        out.extend(stack)
        return True
      if isinstance(child, (ast.FunctionDef, ast.ClassDef, ast.Lambda)):
        continue
      if rec(child, stack + [child] if isinstance(child, (ast.For, ast.While)) else stack):
        return True
    return False

  rec(func_node, [])
  return out


def rewire_all_occurrences(ctx, f: index.FuncInfo, store: ast.Assign) -> tuple[bool, str]:
  """A: within one pass over a consumer op, every operand equal to the tensor
  is rewired (the operand loop does not stop at the first match)."""
  loops = enclosing_loops(f.node, store)
  if not loops:
    return False, 'store into op.inputs is not inside a loop over the operands'
  inner = loops[-1]
  g = cfgmod.build(f.node)
  sn = g.node_of(store)
  head = g.node_of(inner)
  if sn is None or head is None:
    raise index.AnalysisError(f'{f.loc(store)}: cannot locate rewiring store in the CFG')
  # after the store, the next thing on every path must be the loop head again
  body = g.loop_body_nodes(head.id)
  reach = g.reachable([d for d, _ in g.succ[sn.id]], blocked={head.id})
  leaves = [x for x in reach if x not in body and x != head.id]
  direct_out = [d for d, lab in g.succ[sn.id] if lab in ('break',)]
  for x in list(reach) + [sn.id]:
    for d, lab in g.succ[x]:
      if lab == 'break' and x in body | {sn.id}:
        return False, f'operand loop stops after the first rewired operand (break at line {g.nodes[x].lineno})'
  if any(isinstance(g.nodes[x].ast, ast.Return) for x in reach):
    return False, 'operand loop returns after the first rewired operand'
  return True, ''


def consumers_keep_multiplicity(ctx) -> tuple[bool, str]:
  """B: the per-tensor consumer list keeps one entry per operand occurrence
  (whole-list accumulation in ParamsGenerator._update_model_quant_results)."""
  f = ctx.repo.func('params_generator:ParamsGenerator._update_model_quant_results')
  whole = 0
  for n in common.walk_no_nested(f.node):
    tgt = val = None
    if isinstance(n, ast.Assign) and len(n.targets) == 1:
      tgt, val = n.targets[0], n.value
    elif isinstance(n, ast.AugAssign) and isinstance(n.op, ast.Add):
      tgt, val = n.target, n.value
    if isinstance(tgt, ast.Attribute) and tgt.attr == 'consumers' and val is not None:
      if any(isinstance(x, ast.Attribute) and x.attr == 'consumers' for x in ast.walk(val)):
        whole += 1
      elif not (isinstance(val, (ast.List,)) and not val.elts):
        return False, f'consumer entries are assigned from {ast.unparse(val)[:50]}'
  cond_appends = [n for n in common.walk_no_nested(f.node)
                  if isinstance(n, ast.Call) and isinstance(n.func, ast.Attribute) and n.func.attr in ('append', 'extend', 'insert')
                  and isinstance(n.func.value, ast.Attribute) and n.func.value.attr == 'consumers']
  if cond_appends:
    g = cfgmod.build(f.node)
    for c in cond_appends:
      st = common.stmt_of(f.node, c)
      loops = enclosing_loops(f.node, st)
      if loops:
        head = g.node_of(loops[-1])
        sn = g.node_of(st)
        mn, mx = g.iteration_count(head.id, {sn.id})
        if mn == 0:
          return False, f'consumer entries are appended conditionally (line {c.lineno}): one entry per op instead of one per operand'
  if whole < 1 and not cond_appends:
    return False, 'no accumulation of consumer entries found'
  return True, ''


# ---------------------------------------------------------- clip before cast
def rule_clip_before_cast(ctx, R: str):
  ctx.rule(R, 'values are rounded and clipped to the target type before the integer cast', floor=2)
  m = ctx.repo.mod(UQT)
  n_sites = 0
  for f in m.functions.values():
    if '.' in f.qualname or f.name == 'assign_quantized_type':
      continue
    if not any(common.call_name(c).endswith('assign_quantized_type') for c in common.calls_in(f.node)):
      continue
    ps = defuse.paths(f.node, keep=frozenset({'quantization_params'}))
    for p in ps:
      if p.ret is None:
        continue
      for c in defuse.calls_named(p.ret, ('assign_quantized_type',)):
        n_sites += 1
        ctx.instance(R)
        arg = c.args[0] if c.args else None
        qtype = c.args[1] if len(c.args) > 1 else None
        if isinstance(arg, ast.Call) and common.call_name(arg).endswith('_round_and_clip'):
          same_t = qtype is not None and len(arg.args) > 1 and defuse.norm(arg.args[1]) == defuse.norm(qtype)
          ctx.check(R, same_t, f.node, f, f'{f.name}: cast after clip ({p.cond_text()})',
                    f'value is clipped to {defuse.norm(arg.args[1]) if len(arg.args) > 1 else "?"} but cast to {defuse.norm(qtype) if qtype is not None else "?"}')
          continue
        inner = defuse.norm(arg) if arg is not None else ''
        if f.name == 'tensor_zp_scale_from_min_max':
          # exception with reason: the zero point lies in [qmin, qmax] by
          # construction because zero is forced into the range (C17.R2)
          ctx.check(R, inner.startswith(('np.rint(', 'np.zeros_like(', 'np.ones_like(')), f.node, f,
                    f'zero point cast ({p.cond_text()})', f'zero point {inner[:80]} is cast without rounding')
          continue
        ctx.check(R, False, f.node, f, f'{f.name}: {inner[:80]}',
                  'value is cast to the integer type without a directly preceding _round_and_clip (wraps around instead of saturating)')
  rc = m.func('_round_and_clip')
  src = ast.unparse(rc.node)
  ctx.check(R, 'np.clip' in src and 'np.rint' in src, rc.node, rc, '_round_and_clip', '_round_and_clip no longer rounds to nearest and clips')
  if n_sites < 3:
    raise index.AnalysisError(f'{R}: only {n_sites} integer cast sites found')


# ------------------------------------------------- copy-construction completeness
def rule_rebuild_completeness(ctx, R: str, modules=None):
  """A dataclass object rebuilt from the fields of another instance of the same
  class must carry over EVERY field: an omitted field silently falls back to
  its default (e.g. symmetric=True)."""
  ctx.rule(R, 'objects rebuilt field-by-field from an instance carry over every field (no silent fall-back to defaults)', floor=2)
  mods = modules or [UQT, MMU, NMM, FCAST, 'transformation_instruction_generator', 'params_generator', 'transformations.quant_insert']
  n_sites = 0
  for short in mods:
    m = ctx.repo.mod(short)
    for f in m.functions.values():
      for c in common.calls_in(f.node, nested=False):
        s = ctx.repo.resolve_expr(m, c.func) if isinstance(c.func, (ast.Name, ast.Attribute)) else None
        if s is None or s.kind != 'class' or not s.obj.is_dataclass:
          continue
        ci = s.obj
        names = [fl.name for fl in ci.fields]
        given = {}
        for nme, a in zip(names, c.args):
          given[nme] = a
        for k in c.keywords:
          if k.arg:
            given[k.arg] = k.value
        # how many fields are copied from one source object?
        sources = {}
        for nme, v in given.items():
          if isinstance(v, ast.Attribute) and v.attr == nme:
            sources.setdefault(ast.unparse(v.value), []).append(nme)
        src = max(sources.items(), key=lambda kv: len(kv[1]), default=(None, []))
        if len(src[1]) < 2:
          continue
        # the source must be an instance of the very class being constructed
        env = callgraph.get(ctx).type_env(f)
        try:
          st = env.type_of(ast.parse(src[0], mode='eval').body, callgraph.get(ctx))
        except SyntaxError:
          st = None
        if st is None or st.kind != 'instance':
          # untyped source: decide by the field names - the only repository
          # dataclass having all the copied fields must be the constructed one
          cands = [k.fq for mm in ctx.repo.modules.values() for k in mm.classes.values()
                   if k.is_dataclass and all(k.field(nm) is not None for nm in src[1])]
          if cands != [ci.fq]:
            ctx.unresolved(R)
            continue
        elif st.obj.fq != ci.fq:
          continue
        n_sites += 1
        ctx.instance(R)
        missing = [fl.name for fl in ci.fields if fl.name not in given and fl.default is not None]
        ctx.check(R, not missing, c, f, f'{ci.name}(...) rebuilt from {src[0]}',
                  f'{ci.name} is rebuilt from `{src[0]}` but {missing} are not carried over and fall back to their defaults '
                  f'({", ".join(fl.name + "=" + ast.unparse(fl.default) for fl in ci.fields if fl.name in missing)})')
  if n_sites < 2:
    raise index.AnalysisError(f'{R}: only {n_sites} rebuild sites found')


# --------------------------------------------------- single traversal of Iterables
TRAVERSING_BUILTINS = {'list', 'tuple', 'set', 'sorted', 'iter', 'next', 'enumerate', 'zip', 'sum', 'min', 'max', 'any', 'all', 'frozenset', 'reversed', 'map', 'filter', 'dict'}


def _iterable_vars(f: index.FuncInfo):
  """{name: how it is bound} for variables that hold a user-supplied Iterable."""
  out = {}
  for p in f.params:
    name = p.lstrip('*')
    ann = f.param_annotation(name)
    if ann is None:
      continue
    t = ast.unparse(ann).replace('Optional[', '').replace('typing.', '')
    if t.startswith('Iterable['):
      out[name] = 'param'
    elif 'Iterable[' in t and t.startswith(('dict[', 'Dict[', 'Mapping[')):
      out[name] = 'dict-of-iterables'
  # values of dict-of-iterables bound by `for k, v in p.items()`
  for n in common.walk_no_nested(f.node):
    if isinstance(n, ast.For) and isinstance(n.iter, ast.Call) and isinstance(n.iter.func, ast.Attribute) and n.iter.func.attr in ('items', 'values'):
      base = n.iter.func.value
      if isinstance(base, ast.Name) and out.get(base.id) == 'dict-of-iterables':
        tgt = n.target
        if n.iter.func.attr == 'items' and isinstance(tgt, ast.Tuple) and isinstance(tgt.elts[1], ast.Name):
          out[tgt.elts[1].id] = 'loop-value'
        elif n.iter.func.attr == 'values' and isinstance(tgt, ast.Name):
          out[tgt.id] = 'loop-value'
  return {k: v for k, v in out.items() if v != 'dict-of-iterables'}


def traversal_summaries(ctx) -> dict[str, set[str]]:
  """fq -> set of parameter names the function (transitively) traverses."""
  def build():
    cg = callgraph.get(ctx)
    summ: dict[str, set[str]] = {f.fq: set() for f in ctx.repo.all_functions()}
    for _ in range(6):
      changed = False
      for f in ctx.repo.all_functions():
        params = {p.lstrip('*') for p in f.params}
        for name in params:
          if name in summ[f.fq]:
            continue
          if _traversal_sites(ctx, f, name, summ, cg):
            summ[f.fq].add(name)
            changed = True
      if not changed:
        break
    return summ
  return ctx.cached('traversal_summaries', build)


def _traversal_sites(ctx, f, var, summ, cg):
  """AST nodes of f at which `var` is (partially) traversed."""
  sites = []
  site_map = {id(s.node): s for s in cg.sites.get(f.fq, [])}
  for n in common.walk_no_nested(f.node):
    if isinstance(n, (ast.For, ast.comprehension)) and isinstance(n.iter, ast.Name) and n.iter.id == var:
      sites.append(n)
    elif isinstance(n, ast.Call):
      nm = common.call_name(n)
      if nm in TRAVERSING_BUILTINS and any(isinstance(a, ast.Name) and a.id == var for a in n.args):
        # next(iter(x)) counts once (the inner iter call is the site)
        if nm == 'next' and n.args and isinstance(n.args[0], ast.Call):
          continue
        sites.append(n)
      s = site_map.get(id(n))
      if s is not None and s.callees:
        for callee in s.callees:
          pos = callee.pos_params
          off = 1 if (callee.cls is not None and callee.is_method and (s.receiver_self or s.kind in ('resolved-by-name', 'constructor'))) else 0
          for i, a in enumerate(n.args):
            if isinstance(a, ast.Name) and a.id == var and i + off < len(pos) and pos[i + off] in summ.get(callee.fq, set()):
              sites.append(n)
          for k in n.keywords:
            if isinstance(k.value, ast.Name) and k.value.id == var and k.arg in summ.get(callee.fq, set()):
              sites.append(n)
  return sites


def rule_single_traversal(ctx, R: str, root_fqs: list[str]):
  """A user-supplied Iterable (possibly a one-shot generator) is traversed at
  most once on every path: peeking at it, or looping twice, silently drops or
  loses samples."""
  ctx.rule(R, 'user-supplied Iterables (datasets) are traversed at most once on every path', floor=1)
  cg = callgraph.get(ctx)
  summ = traversal_summaries(ctx)
  chains = cg.reachable(root_fqs)
  n_vars = 0
  for fq in sorted(chains):
    f = ctx.repo.func(fq)
    ivars = _iterable_vars(f)
    if not ivars:
      continue
    g = cfgmod.build(f.node)
    for var, how in ivars.items():
      sites = _traversal_sites(ctx, f, var, summ, cg)
      n_vars += 1
      ctx.instance(R)
      if not sites:
        ctx.check(R, True, f.node, f, var, '')
        continue
      # CFG nodes of the sites
      def node_of(site):
        if isinstance(site, ast.For):
          return g.node_of(site)
        st = common.stmt_of(f.node, site) if not isinstance(site, ast.comprehension) else None
        if st is None:
          for cand in ast.walk(f.node):
            if isinstance(cand, ast.stmt) and any(x is site for x in ast.walk(cand)):
              st = cand
        # compound statement heads: the expression sits in the head node
        nd = g.node_of(st) if st is not None else None
        return nd
      nodes = [(s, node_of(s)) for s in sites]
      nodes = [(s, n) for s, n in nodes if n is not None]
      rebind = {n.id for n in g.nodes if n.kind == 'for' and var in defuse.names_in(n.ast.target)}
      rebind |= {n.id for n in g.nodes if n.kind == 'stmt' and isinstance(n.ast, ast.Assign) and any(var in defuse.names_in(t) for t in n.ast.targets)}
      tset = {n.id for _, n in nodes}
      bad = None
      for s, n in nodes:
        if n.kind == 'for' and isinstance(s, ast.For):
          starts = [d for d, lab in g.succ[n.id] if lab in ('exit', 'break')]
          inner = g.reachable([d for d, lab in g.succ[n.id] if lab == 'loop'], blocked={n.id} | rebind)
          if inner & (tset - {n.id}):
            bad = (s, 'is traversed again inside the loop over it')
          after = g.reachable(starts, blocked=rebind)
        else:
          after = g.reachable([d for d, _ in g.succ[n.id]], blocked=rebind)
          # two sites in one statement
          same = [x for x, m in nodes if m.id == n.id]
          if len(same) > 1:
            bad = (s, 'is traversed twice in one statement')
        hit = after & tset
        if hit:
          other = next(x for x, m in nodes if m.id in hit)
          bad = (s, f'is traversed at line {getattr(s, "lineno", "?")} and again at line {getattr(other, "lineno", "?")}')
      ctx.check(R, bad is None, (bad[0] if bad else f.node), f, f'{var} in {f.name}',
                f'`{var}` is a user-supplied Iterable (may be a one-shot generator) and {bad[1] if bad else ""}: '
                'the first traversal consumes samples the second one never sees')
  if n_vars < 1:
    raise index.AnalysisError(f'{R}: no Iterable-typed variable found in the call tree')


# ------------------------------------------------ performer id translation
class _Capture:
  """A Python-level stand-in for a registered transformation: records the input it is given."""
  sa_hook = True

  def __init__(self, info):
    self.info = info
    self.seen = []

  def __call__(self, args, kwargs):
    self.seen.append((args, kwargs))
    return self.info


class _StandIn:
  sa_hook = True

  def __init__(self, fn, kind):
    self.fn, self.kind = fn, kind

  def __call__(self, args, kwargs):
    return self.fn(args, kwargs, kind=self.kind)


def rule_performer_translation(ctx, R: str):
  """Decision table of TransformationPerformer._apply_single_transformation:
  the producer / consumer ids handed to the transformation are the image of the
  instruction's ids under the current op-id maps, one entry per entry, the
  pseudo id -1 (graph input / graph output) passed through."""
  from sa import absint  # pylint: disable=g-import-not-at-top
  from sa.consteval import Obj  # pylint: disable=g-import-not-at-top
  rs = ctx.rule(R, 'ids handed to a transformation = image of the instruction ids under the op-id maps; -1 (graph output / input) passed through, one entry per entry', floor=1)
  PERF = 'transformation_performer:TransformationPerformer'
  f = ctx.repo.func(f'{PERF}._apply_single_transformation')
  ctx.instance(R)
  QT = {m.name: m for m in tables.enum(ctx, 'qtyping:QuantTransformation')}
  orig, added = [0, 2, 3, 5], [1, 4]   # two ops were added already (positions 1 and 4)
  prod_lattice = [None, -1, 0, 2, 3, 4, 5]
  cons_lattice = [[-1], [0], [3], [1, -1], [-1, 1], [0, 2], [2, 2], [2, 2, -1], [0, 1, 2, 3], [3, -1, 0]]
  rs.exhaustive = True
  n = 0
  for p in prod_lattice:
    for cons in cons_lattice:
      info = Obj('transformations.transformation_utils:TransformationInfo', {'op_id': 1, 'num_ops_added': 1, 'output_tensor_id': 9})
      cap = _Capture(info)
      hooks = {f'{PERF}._update_instructions': lambda a, k: None, f'{PERF}._update_op_id_map': lambda a, k: None,
               f'{PERF}._first_original_op_at_or_after': lambda a, k: 0}
      it = absint.Interp(ctx.repo, ctx.ev, hooks=hooks)
      inst = Obj('qtyping:TransformationInst', {'transformation': QT['ADD_DEQUANTIZE'], 'tensor_id': 7, 'producer': p, 'consumers': list(cons), 'parameters': None})
      insts = Obj('qtyping:TensorTransformationInsts', {'tensor_name': 't', 'subgraph_id': 1, 'instructions': [inst]})
      selfo = it.construct(PERF, [], {}, None, 0)   # the class's own __init__, so that new attributes exist
      if not isinstance(selfo, Obj):
        raise index.AnalysisError(f'{PERF}.__init__ is not interpretable')
      selfo.fields['_original_op_id_map'] = [[0], list(orig)]
      selfo.fields['_added_op_id_map'] = [[], list(added)]
      selfo.fields['_transformation_registration'] = {QT['ADD_DEQUANTIZE']: cap}
      sg0, sg1 = Obj('x:SubGraphT', {'name': 'sg0'}), Obj('x:SubGraphT', {'name': 'sg1'})
      model = Obj('x:ModelT', {'operatorCodes': ['codes'], 'buffers': ['buffers'], 'subgraphs': [sg0, sg1]})
      outs = it.outcomes(f, [selfo, insts, 0, model], copy_args=False)
      label = f'producer={p}, consumers={cons}'
      if len(outs) != 1 or outs[0].kind != 'return' or len(cap.seen) != 1:
        ctx.check(R, False, f.node, f, label, f'not decided: {[o.short() for o in outs]} / {len(cap.seen)} dispatches')
        continue
      args, kwargs = cap.seen[0]
      ti = args[0] if args else None
      if not (isinstance(ti, Obj) and ti.cls.endswith('TransformationInput')):
        ctx.check(R, False, f.node, f, label, 'the transformation is not given a TransformationInput')
        continue
      want_p = -1 if p is None or p < 0 else (orig[p] if p < len(orig) else added[p - len(orig)])
      want_c = sorted(-1 if x < 0 else orig[x] for x in cons)
      got_p, got_c = ti.fields['producer'], ti.fields['consumers']
      n += 1
      ctx.check(R, got_p == want_p, f.node, f, label, f'producer handed to the transformation is {got_p!r}, the op-id maps say {want_p}')
      ok = isinstance(got_c, list) and not any(isinstance(x, absint.Opaque) for x in got_c) and sorted(got_c) == want_c
      ctx.check(R, ok, f.node, f, label,
                f'consumers handed to the transformation are {got_c!r}; the instruction says {cons} -> {want_c} under the current op-id map. '
                'A dropped -1 means the graph output is not rewired to the new tensor (the model output changes type); a dropped or duplicated '
                'operator id leaves a consumer reading the wrong tensor')
      ctx.check(R, ti.fields['tensor_id'] == 7 and ti.fields['subgraph'] is sg1 and ti.fields['quant_params'] is None and ti.fields['op_codes'] == ['codes'] and ti.fields['buffers'] == ['buffers'],
                f.node, f, label, 'tensor id / subgraph / op codes / buffers / parameters handed to the transformation are not those of the instruction')
  ctx.sample(R, {'orig_map': orig, 'added_map': added, 'producer_lattice': [repr(x) for x in prod_lattice], 'consumer_lattice': cons_lattice, 'rows': n})


# ------------------------------------------ performer bookkeeping simulation
def rule_performer_simulation(ctx, R: str):
  """transform_graph is enumerated on label models: operators are labels, the
  registered transformations are stand-ins that insert a labelled op where
  the real ones would (right after the producer / before the first consumer)
  and report (position, 1, fresh tensor id). At every dispatch the ids handed
  over must name, in the *current* operator list, the operators the plan
  named in the *original* one - or, for a chained instruction, the op added
  by the previous instruction of the same tensor. Covers _create_op_id_map,
  _apply_transformations, _apply_single_transformation, _update_instructions,
  _update_op_id_map and _first_original_op_at_or_after together, for two
  subgraphs, whatever their implementation."""
  from sa import absint  # pylint: disable=g-import-not-at-top
  from sa.consteval import Obj  # pylint: disable=g-import-not-at-top
  rs = ctx.rule(R, 'op-id bookkeeping: after any sequence of insertions every later transformation is handed ids that still name the operators the plan named (label-model simulation of transform_graph)', floor=1)
  PERF = 'transformation_performer:TransformationPerformer'
  tg = ctx.repo.func(f'{PERF}.transform_graph')
  ctx.instance(R)
  QT = {m.name: m for m in tables.enum(ctx, 'qtyping:QuantTransformation')}
  ins_kinds = ('ADD_QUANTIZE', 'ADD_DEQUANTIZE')

  def I(kind, tensor, producer, consumers, token):
    return Obj('qtyping:TransformationInst', {'transformation': QT[kind], 'tensor_id': tensor, 'producer': producer, 'consumers': list(consumers), 'parameters': token})

  # plans: {tensor name: (subgraph, [instruction specs])}; spec = (kind, tensor, producer, consumers)
  plans = {
      'single insert': [(0, [('ADD_QUANTIZE', 1, 0, [1])])],
      'two tensors, later one behind the first insertion': [(0, [('ADD_QUANTIZE', 1, 0, [1])]), (0, [('ADD_DEQUANTIZE', 2, 1, [2, 3])])],
      'two tensors, later one in front of the first insertion': [(0, [('ADD_DEQUANTIZE', 2, 1, [2, 3])]), (0, [('ADD_QUANTIZE', 1, 0, [1])])],
      'chain on one tensor (DQ then Q for the same consumers)': [(0, [('ADD_DEQUANTIZE', 1, 0, [1, 2]), ('ADD_QUANTIZE', 1, 0, [1, 2])]), (0, [('ADD_QUANTIZE', 3, 2, [3])])],
      'two consumer groups on one tensor': [(0, [('ADD_QUANTIZE', 1, 0, [1]), ('ADD_DEQUANTIZE', 1, 0, [2, 3])]), (0, [('ADD_QUANTIZE', 4, 3, [-1])])],
      'graph input and graph output': [(0, [('ADD_QUANTIZE', 0, -1, [0])]), (0, [('ADD_DEQUANTIZE', 5, 3, [-1])]), (0, [('ADD_DEQUANTIZE', 2, 1, [2, -1])])],
      'replacement before insertion in plan order': [(0, [('QUANTIZE_TENSOR', 7, -1, [1]), ('ADD_QUANTIZE', 1, 0, [1])]), (0, [('ADD_QUANTIZE', 2, 1, [2])])],
      'two subgraphs': [(1, [('ADD_QUANTIZE', 1, 0, [1])]), (0, [('ADD_QUANTIZE', 1, 0, [1, 2])]), (1, [('ADD_DEQUANTIZE', 2, 1, [2])]), (0, [('ADD_DEQUANTIZE', 3, 2, [3])])],
      'chain in the second subgraph after an insertion in the first': [(0, [('ADD_QUANTIZE', 1, 0, [1])]), (1, [('ADD_DEQUANTIZE', 1, 0, [1, 2]), ('ADD_QUANTIZE', 1, 0, [1, 2])]), (1, [('ADD_QUANTIZE', 2, 1, [2])])],
      'operator replaced by a pattern, then its output and a later operator': [(0, [('EMULATED_SUBCHANNEL', 9, -1, [1])]), (0, [('ADD_QUANTIZE', 2, 1, [-1])]), (0, [('ADD_DEQUANTIZE', 3, 2, [3])])],
      'insertion in front, then a replacement, then the replaced operator as producer': [(0, [('ADD_QUANTIZE', 0, -1, [0])]), (0, [('EMULATED_SUBCHANNEL', 9, -1, [2])]), (0, [('ADD_DEQUANTIZE', 3, 2, [3, -1])])],
      'same operator twice then a later tensor': [(0, [('ADD_QUANTIZE', 1, 0, [1]), ('ADD_QUANTIZE', 1, 0, [2])]), (0, [('ADD_QUANTIZE', 1, 0, [3])]), (0, [('ADD_DEQUANTIZE', 2, 2, [3])])],
  }
  rs.exhaustive = True
  for pname, plan in plans.items():
    ops = {0: ['a0', 'a1', 'a2', 'a3'], 1: ['b0', 'b1', 'b2']}
    orig = {k: list(v) for k, v in ops.items()}
    sgs = [Obj('x:SubGraphT', {'operators': ops[0], 'tag': 0}), Obj('x:SubGraphT', {'operators': ops[1], 'tag': 1})]
    model = Obj('x:ModelT', {'subgraphs': sgs, 'operatorCodes': [], 'buffers': []})
    expect = {}      # token -> (subgraph, kind, expected producer label, expected consumer labels, expected tensor id)
    insts = {}
    fresh = [100]
    problems = []
    seen_tokens = []
    for ti, (sg, specs) in enumerate(plan):
      objs = []
      for ii, (kind, tensor, prod, cons) in enumerate(specs):
        token = f't{ti}i{ii}'
        objs.append(I(kind, tensor, prod, cons, token))
        expect[token] = {'sg': sg, 'kind': kind, 'tensor': tensor, 'prod': prod, 'cons': list(cons), 'tname': ti, 'idx': ii}
      insts[f'tensor{ti}'] = Obj('qtyping:TensorTransformationInsts', {'tensor_name': f'tensor{ti}', 'subgraph_id': sg, 'instructions': objs})
    added_by = {}     # token -> (label, output tensor)

    def stand_in(args, kwargs, kind=None):
      ti_obj = args[0]
      f = ti_obj.fields
      token = f['quant_params']
      e = expect.get(token)
      if e is None:
        problems.append(f'unknown instruction token {token!r}')
        return Obj('qtyping:TransformationInfo', {'op_id': 0, 'num_ops_added': 0, 'output_tensor_id': 0})
      seen_tokens.append(token)
      sg = e['sg']
      cur = ops[sg]
      if f['subgraph'] is not sgs[sg]:
        problems.append(f'{token}: handed subgraph {getattr(f["subgraph"], "fields", {}).get("tag")} instead of {sg}')
      # which earlier instruction of the same tensor feeds this one?
      feeder = None
      for tok2, e2 in expect.items():
        if e2['tname'] == e['tname'] and e2['idx'] < e['idx'] and tok2 in added_by and set(e2['cons']) & set(e['cons']):
          feeder = tok2
      want_tensor = added_by[feeder][1] if feeder else e['tensor']
      want_prod = added_by[feeder][0] if feeder else (orig[sg][e['prod']] if e['prod'] is not None and e['prod'] >= 0 else None)
      got_p = f['producer']
      got_prod = None if (isinstance(got_p, int) and got_p < 0) else (cur[got_p] if isinstance(got_p, int) and got_p < len(cur) else f'<bad {got_p!r}>')
      if got_prod != want_prod:
        problems.append(f'{token}: producer position {got_p!r} is {got_prod} in the current graph {cur}; the plan means {want_prod}')
      if f['tensor_id'] != want_tensor:
        problems.append(f'{token}: tensor id {f["tensor_id"]!r}; expected {want_tensor}')
      want_cons = sorted('OUT' if c < 0 else orig[sg][c] for c in e['cons'])
      gc = f['consumers']
      got_cons = sorted(('OUT' if (isinstance(c, int) and c < 0) else (cur[c] if isinstance(c, int) and c < len(cur) else f'<bad {c!r}>')) for c in gc) if isinstance(gc, list) else f'<{gc!r}>'
      if got_cons != want_cons:
        problems.append(f'{token}: consumer positions {gc!r} are {got_cons} in the current graph {cur}; the plan means {want_cons}')
      if kind == 'EMULATED_SUBCHANNEL':
        # op replacement: the consuming operator is replaced by a pattern of three operators, the last of which produces the old output
        pos_c = [c for c in gc if isinstance(c, int) and 0 <= c < len(cur)] if isinstance(gc, list) else []
        if not pos_c:
          problems.append(f'{token}: replacement without a consumer position')
          return Obj('qtyping:TransformationInfo', {'op_id': 0, 'num_ops_added': 0, 'output_tensor_id': f['tensor_id']})
        pos = pos_c[0]
        n_rep = sum(1 for x in cur if x.startswith('e'))
        cur[pos:pos + 1] = [f'e{n_rep}a', f'e{n_rep}b', cur[pos]]
        return Obj('qtyping:TransformationInfo', {'op_id': pos, 'num_ops_added': 2, 'output_tensor_id': f['tensor_id']})
      if kind not in ins_kinds:
        return Obj('qtyping:TransformationInfo', {'op_id': 0, 'num_ops_added': 0, 'output_tensor_id': f['tensor_id']})
      pos_c = [c for c in gc if isinstance(c, int) and c >= 0] if isinstance(gc, list) else []
      pos = min(pos_c) if pos_c else ((got_p + 1) if isinstance(got_p, int) and got_p >= 0 else len(cur))
      if isinstance(got_p, int) and got_p >= 0:
        pos = max(pos, got_p + 1)
      pos = min(max(pos, 0), len(cur))
      label = f'n{len(added_by)}'
      cur.insert(pos, label)
      fresh[0] += 1
      added_by[token] = (label, fresh[0])
      return Obj('qtyping:TransformationInfo', {'op_id': pos, 'num_ops_added': 1, 'output_tensor_id': fresh[0]})

    it = absint.Interp(ctx.repo, ctx.ev)
    selfo = it.construct(PERF, [], {}, None, 0)   # the class's own __init__: registry keys and pass membership are the repository's
    reg = selfo.fields.get('_transformation_registration') if isinstance(selfo, Obj) else None
    if not isinstance(reg, dict) or not reg:
      raise index.AnalysisError(f'{PERF}.__init__: transformation registry not folded')
    for key in list(reg):
      reg[key] = _StandIn(stand_in, key.name)
    # a second transform_graph call must not see the maps of the first
    selfo.fields['_original_op_id_map'] = [[5, 6, 7, 8]]
    selfo.fields['_added_op_id_map'] = [[2]]
    outs = it.outcomes(tg, [selfo, insts, model], copy_args=False)
    if len(outs) != 1 or outs[0].kind != 'return':
      ctx.check(R, False, tg.node, tg, pname, f'not decided: {[o.short()[:100] for o in outs]}')
      continue
    missing = [t for t, e in expect.items() if e['kind'] != 'NO_QUANTIZE' and t not in seen_tokens]
    if missing:
      problems.append(f'instructions never applied: {missing}')
    if len(seen_tokens) != len(set(seen_tokens)):
      problems.append(f'instructions applied more than once: {seen_tokens}')
    ctx.check(R, not problems, tg.node, tg, f'plan "{pname}"', '; '.join(problems[:3]))
  ctx.sample(R, {'plans': list(plans)})


def _opcode(builtin):
  """An OperatorCodeT as the converter writes it: codes that do not fit the old int8 field carry
  deprecatedBuiltinCode = 127 (PLACEHOLDER_FOR_GREATER_OP_CODES), the others repeat the code there."""
  from sa.consteval import Ext, Obj  # pylint: disable=g-import-not-at-top
  v = builtin.value if isinstance(builtin, Ext) else builtin
  return Obj('x:OperatorCodeT', {'builtinCode': builtin, 'deprecatedBuiltinCode': min(v, 127) if isinstance(v, int) else 0, 'version': 1, 'customCode': None})


# ----------------------------------------- graph rewrite simulation (real transformations)
def _mk_graph(spec):
  """spec = (ops [(label, inputs, outputs)], graph inputs, graph outputs, n tensors) -> (subgraph Obj, model Obj)"""
  from sa.consteval import Obj  # pylint: disable=g-import-not-at-top
  ops, gin, gout, nt = spec
  # every tensor has its own shape; odd ones have a dynamic first dimension whose exported extent is not 1
  tensors = [Obj('x:TensorT', {'name': f't{k}'.encode(), 'shape': [k + 2, 4], 'shapeSignature': [-1, 4] if k % 2 else None, 'type': 'F32', 'buffer': 0, 'quantization': None}) for k in range(nt)]
  operators = [Obj('x:OperatorT', {'label': lab, 'opcodeIndex': 0, 'inputs': list(i), 'outputs': list(o)}) for lab, i, o in ops]
  sg = Obj('x:SubGraphT', {'tensors': tensors, 'operators': operators, 'inputs': list(gin), 'outputs': list(gout), 'name': b'main'})
  return sg


def rule_graph_rewrite_simulation(ctx, R: str, title: str = None):
  """transform_graph with the repository's own insert_quant / insert_dequant on
  small label graphs (only quantize_tensor - the annotation of one tensor - is a
  stand-in). The resulting graph is compared with an independently computed
  reference rewriting, modulo the position of the new operators, which only
  has to be topologically valid."""
  from sa import absint  # pylint: disable=g-import-not-at-top
  from sa.consteval import Obj, Ext  # pylint: disable=g-import-not-at-top
  from sa import consteval  # pylint: disable=g-import-not-at-top
  rs = ctx.rule(R, title or 'graph rewriting: after transform_graph the listed consumers (all occurrences) and, iff covered, the graph outputs read the new tensors; everything else is untouched; the graph is topologically valid', floor=1)
  PERF = 'transformation_performer:TransformationPerformer'
  tg = ctx.repo.func(f'{PERF}.transform_graph')
  ctx.instance(R)
  QT = {m.name: m for m in tables.enum(ctx, 'qtyping:QuantTransformation')}
  BO = consteval.schema_enum('BuiltinOperator')
  KIND_CODE = {'ADD_QUANTIZE': BO['QUANTIZE'], 'ADD_DEQUANTIZE': BO['DEQUANTIZE']}
  # graphs ---------------------------------------------------------------
  chain = ([('A', [0, 1], [2]), ('B', [2, 3], [4]), ('C', [4], [5])], [0], [5], 6)
  fan = ([('A', [0], [1]), ('B', [1], [2]), ('C', [1, 1], [3]), ('D', [2, 3], [4])], [0], [4, 1], 5)       # t1: two consumers, twice in C, also a graph output
  inout = ([('A', [0], [1])], [0], [1, 0], 2)                                                                  # input is also an output
  tail = ([('A', [0], [1]), ('B', [1], [2]), ('C', [1, 2], [3])], [0], [1, 3], 4)                              # t1 is an output AND read by the last operator
  second = ([('P', [0], [1]), ('Q', [1], [2])], [0], [2], 3)
  single = ([('S', [0], [1])], [0], [1], 2)
  long5 = ([('L1', [0], [1]), ('L2', [1], [2]), ('L3', [2], [3]), ('L4', [3], [4]), ('L5', [4], [5])], [0], [5], 6)
  S = lambda spec, plan: ([spec], {(0, t): v for t, v in plan.items()})
  cases = [
      ('quantize the input of A',) + S(chain, {0: [('ADD_QUANTIZE', [0])]}),
      ('dequantize a weight for B',) + S(chain, {3: [('ADD_DEQUANTIZE', [1])]}),
      ('SRQ island around B',) + S(chain, {2: [('ADD_QUANTIZE', [1])], 4: [('ADD_DEQUANTIZE', [2])]}),
      ('output dequantized',) + S(chain, {5: [('ADD_DEQUANTIZE', [-1])]}),
      ('every activation, in plan order',) + S(chain, {0: [('ADD_QUANTIZE', [0])], 2: [('ADD_DEQUANTIZE', [1])], 4: [('ADD_QUANTIZE', [2])], 5: [('ADD_DEQUANTIZE', [-1])]}),
      ('every activation, in reverse plan order',) + S(chain, {5: [('ADD_DEQUANTIZE', [-1])], 4: [('ADD_QUANTIZE', [2])], 2: [('ADD_DEQUANTIZE', [1])], 0: [('ADD_QUANTIZE', [0])]}),
      ('output quantized first, then inner tensors',) + S(chain, {5: [('ADD_QUANTIZE', [-1])], 2: [('ADD_QUANTIZE', [1])], 4: [('ADD_DEQUANTIZE', [2])]}),
      ('repeated operand (listed once per occurrence, as plan generation does), one of two consumers',) + S(fan, {1: [('ADD_QUANTIZE', [2, 2])]}),
      ('consumers listed out of execution order (they come from a set)',) + S(fan, {1: [('ADD_QUANTIZE', [2, 2, 1])]}),
      ('consumers listed out of execution order, dequantize, output first',) + S(fan, {1: [('ADD_DEQUANTIZE', [-1, 2, 1, 2])]}),
      ('consumer and graph output covered',) + S(fan, {1: [('ADD_DEQUANTIZE', [1, -1])]}),
      ('consumer covered, graph output not',) + S(fan, {1: [('ADD_DEQUANTIZE', [1])]}),
      ('two groups on one tensor',) + S(fan, {1: [('ADD_QUANTIZE', [1]), ('ADD_DEQUANTIZE', [2, 2, -1])]}),
      ('chain DQ then Q for the same consumers',) + S(fan, {1: [('ADD_DEQUANTIZE', [1, 2, 2]), ('ADD_QUANTIZE', [1, 2, 2])], 2: [('ADD_QUANTIZE', [3])]}),
      ('chain on the graph output after another insertion',) + S(chain, {2: [('ADD_QUANTIZE', [1])], 5: [('ADD_DEQUANTIZE', [-1]), ('ADD_QUANTIZE', [-1])], 4: [('ADD_DEQUANTIZE', [2])]}),
      ('graph output only; the last operator also reads the tensor',) + S(tail, {1: [('ADD_DEQUANTIZE', [-1])]}),
      ('graph output and the first reader; the last operator keeps the source',) + S(tail, {1: [('ADD_QUANTIZE', [1, -1])], 2: [('ADD_QUANTIZE', [2])]}),
      ('requantize for the LAST operator, then dequantize for the graph output (two groups, -1 is not the last operator)',) + S(tail, {1: [('ADD_QUANTIZE', [2]), ('ADD_DEQUANTIZE', [-1])]}),
      ('dequantize for the graph output, then requantize for the LAST operator',) + S(tail, {1: [('ADD_DEQUANTIZE', [-1]), ('ADD_QUANTIZE', [2])]}),
      ('requantize for the last operator and the first reader, then the graph output',) + S(tail, {1: [('ADD_QUANTIZE', [1, 2]), ('ADD_DEQUANTIZE', [-1])], 2: [('ADD_QUANTIZE', [2])]}),
      ('graph input that is a graph output',) + S(inout, {0: [('ADD_QUANTIZE', [0, -1])]}),
      ('graph input that is a graph output, output not covered',) + S(inout, {0: [('ADD_QUANTIZE', [0])], 1: [('ADD_DEQUANTIZE', [-1])]}),
      ('weight quantized in place next to insertions',) + S(chain, {1: [('QUANTIZE_TENSOR', [0])], 2: [('ADD_QUANTIZE', [1])]}),
      ('chain on the graph input (first op inserted at position 0)',) + S(chain, {0: [('ADD_QUANTIZE', [0]), ('ADD_DEQUANTIZE', [0])], 2: [('ADD_QUANTIZE', [1])]}),
      ('two subgraphs, interleaved plan', [chain, second], {(0, 2): [('ADD_QUANTIZE', [1])], (1, 0): [('ADD_QUANTIZE', [0])], (1, 1): [('ADD_QUANTIZE', [1])], (1, 2): [('ADD_DEQUANTIZE', [-1]), ('ADD_QUANTIZE', [-1])], (0, 4): [('ADD_DEQUANTIZE', [2])], (0, 5): [('ADD_DEQUANTIZE', [-1])]}),
      ('one operator next to five (very different lengths)', [long5, single], {(1, 0): [('ADD_QUANTIZE', [0])], (0, 2): [('ADD_QUANTIZE', [2])], (1, 1): [('ADD_DEQUANTIZE', [-1])], (0, 5): [('ADD_DEQUANTIZE', [-1])]}),
      ('one operator before five (very different lengths)', [single, long5], {(0, 0): [('ADD_QUANTIZE', [0])], (1, 0): [('ADD_QUANTIZE', [0])], (0, 1): [('ADD_DEQUANTIZE', [-1])], (1, 3): [('ADD_QUANTIZE', [3]), ('ADD_DEQUANTIZE', [3])]}),
      ('two subgraphs, second first', [chain, second], {(0, 0): [('ADD_QUANTIZE', [0])], (1, 1): [('ADD_DEQUANTIZE', [1])], (0, 2): [('ADD_DEQUANTIZE', [1])], (1, 2): [('ADD_QUANTIZE', [-1])]}),
  ]
  rs.exhaustive = True
  hooks_proto = {
      'schema_py_generated.OperatorT': lambda a, k: Obj('x:OperatorT', {'label': None, 'opcodeIndex': None, 'inputs': None, 'outputs': None}),
      'schema_py_generated.TensorT': lambda a, k: Obj('x:TensorT', {'name': None, 'shape': None, 'type': None, 'buffer': None, 'quantization': None}),
      'schema_py_generated.OperatorCodeT': lambda a, k: Obj('x:OperatorCodeT', {'builtinCode': None}),
  }
  quantized = []

  def annotate(args, kwargs):
    f = args[0].fields
    quantized.append((f['subgraph'], f['tensor_id'], f['quant_params']))
    return Obj('qtyping:TransformationInfo', {'op_id': 0, 'num_ops_added': 0, 'output_tensor_id': f['tensor_id']})
  it = absint.Interp(ctx.repo, ctx.ev, hooks=dict(hooks_proto, **{'transformations.quantize_tensor:quantize_tensor': annotate}))
  selfo = it.construct(PERF, [], {}, None, 0)   # ONE performer for all cases: a later call must not see the maps of an earlier one
  for cname, specs, plan in cases:
    del quantized[:]
    sgs = [_mk_graph(sp) for sp in specs]
    model = Obj('x:ModelT', {'subgraphs': sgs, 'operatorCodes': [Obj('x:OperatorCodeT', {'builtinCode': Ext('BuiltinOperator.ADD', BO['ADD'])})], 'buffers': [Obj('x:BufferT', {'data': None})]})
    producer_of = []
    for ops, gin, gout, nt in specs:
      d = {}
      for oi, (lab, i, o) in enumerate(ops):
        for t in o:
          d[t] = oi
      producer_of.append(d)
    insts = {}
    for (g, t), lst in plan.items():
      objs = [Obj('qtyping:TransformationInst', {'transformation': QT[k], 'tensor_id': t, 'producer': producer_of[g].get(t, -1), 'consumers': list(c), 'parameters': f'p{g}.{t}.{n}'}) for n, (k, c) in enumerate(lst)]
      insts[f'g{g}t{t}'] = Obj('qtyping:TensorTransformationInsts', {'tensor_name': f'g{g}t{t}', 'subgraph_id': g, 'instructions': objs})
    # reference rewriting ---------------------------------------------------
    ref_ops = [{lab: (list(i), list(o)) for lab, i, o in sp[0]} for sp in specs]
    ref_out = [list(sp[2]) for sp in specs]
    ref_new = [[] for _ in specs]      # (kind, in tensor, out tensor)
    ref_quantized = []                 # (subgraph, tensor, params token)
    n_t = [sp[3] for sp in specs]
    for (g, t), lst in plan.items():
      added = []   # (consumers, out tensor)
      for n, (k, c) in enumerate(lst):
        cur = t
        for pc, pt in added:
          if set(pc) & set(c):
            cur = pt
        if k == 'QUANTIZE_TENSOR':
          ref_quantized.append((g, cur, f'p{g}.{t}.{n}'))
          continue
        new = n_t[g]
        n_t[g] += 1
        ref_new[g].append((k, cur, new))
        ref_quantized.append((g, new if k == 'ADD_QUANTIZE' else cur, f'p{g}.{t}.{n}'))
        for ci in c:
          if ci < 0:
            ref_out[g] = [new if x == cur else x for x in ref_out[g]]
          else:
            lab = specs[g][0][ci][0]
            ref_ops[g][lab] = ([new if x == cur else x for x in ref_ops[g][lab][0]], ref_ops[g][lab][1])
        added.append((c, new))
    # run the repository code ------------------------------------------------
    outs = it.outcomes(tg, [selfo, insts, model], copy_args=False)
    if len(outs) != 1 or outs[0].kind != 'return':
      ctx.check(R, False, tg.node, tg, cname, f'not decided: {[o.short()[:120] for o in outs]}')
      selfo = it.construct(PERF, [], {}, None, 0)
      continue
    problems = []
    codes = model.fields['operatorCodes']
    for g, sg in enumerate(sgs):
      ops, gin, gout, nt = specs[g]
      tag = f'subgraph {g}: ' if len(sgs) > 1 else ''
      cur_ops = sg.fields['operators']
      got_new = []
      produced = set(gin) | {t for t in range(nt) if t not in producer_of[g]}
      order = []
      for op in cur_ops:
        f = op.fields
        if not isinstance(f['inputs'], list) or not isinstance(f['outputs'], list):
          problems.append(f'{tag}operator with unfolded operands {f}')
          continue
        for x in f['inputs']:
          if x != -1 and x not in produced:
            problems.append(f'{tag}operator {f["label"] or "new"} reads tensor {x} before it is produced (operator order {[(o.fields["label"] or "new") for o in cur_ops]})')
        for x in f['outputs']:
          if x in produced and x != -1:
            problems.append(f'{tag}tensor {x} has two producers')
          produced.add(x)
        if f['label'] is None:
          code = codes[f['opcodeIndex']].fields['builtinCode'] if isinstance(f['opcodeIndex'], int) and f['opcodeIndex'] < len(codes) else None
          val = code.value if isinstance(code, Ext) else code
          kind = next((k for k, v in KIND_CODE.items() if v == val), f'<code {val}>')
          got_new.append((kind, f['inputs'][0] if len(f['inputs']) == 1 else tuple(f['inputs']), f['outputs'][0] if len(f['outputs']) == 1 else tuple(f['outputs'])))
          TS = sg.fields['tensors']
          ok_idx = all(isinstance(x, int) and 0 <= x < len(TS) for x in f['inputs'][:1] + f['outputs'][:1])
          if ok_idx and f['inputs'] and f['outputs']:
            si, so = TS[f['inputs'][0]].fields['shape'], TS[f['outputs'][0]].fields['shape']
            if not isinstance(si, (list, tuple)) or not isinstance(so, (list, tuple)) or list(si) != list(so):
              problems.append(f'{tag}inserted {kind} turns shape {si!r} into {so!r}: the new tensor must have the shape of its source')
        else:
          order.append(f['label'])
          want = ref_ops[g][f['label']]
          if (f['inputs'], f['outputs']) != want:
            problems.append(f'{tag}operator {f["label"]} reads {f["inputs"]} / writes {f["outputs"]}; expected {want[0]} / {want[1]}')
      if order != [lab for lab, _, _ in ops]:
        problems.append(f'{tag}original operators reordered or lost: {order}')
      if sorted(got_new) != sorted(ref_new[g]):
        problems.append(f'{tag}inserted operators (kind, in, out) {sorted(got_new)}; expected {sorted(ref_new[g])}')
      if sg.fields['outputs'] != ref_out[g]:
        problems.append(f'{tag}graph outputs {sg.fields["outputs"]}; expected {ref_out[g]}')
      if sg.fields['inputs'] != list(gin):
        problems.append(f'{tag}graph inputs {sg.fields["inputs"]}; expected {list(gin)}')
      if len(sg.fields['tensors']) != n_t[g]:
        problems.append(f'{tag}{len(sg.fields["tensors"])} tensors; expected {n_t[g]}')
      for k in range(min(nt, len(sg.fields['tensors']))):
        tf_ = sg.fields['tensors'][k].fields
        if tf_['shape'] != [k + 2, 4] or tf_['name'] != f't{k}'.encode():
          problems.append(f'{tag}original tensor {k} is now named {tf_["name"]!r} with shape {tf_["shape"]!r}')
      names = [t.fields['name'] for t in sg.fields['tensors']]
      if len(set(names)) != len(names) and not any(isinstance(x, absint.Opaque) for x in names):
        problems.append(f'{tag}tensor names not unique: {names}')
    got_q = sorted((sgs.index(a) if a in sgs else -9, b, c) for a, b, c in quantized)
    if got_q != sorted(ref_quantized):
      problems.append(f'tensors annotated as quantized (subgraph, tensor, params) {got_q}; expected {sorted(ref_quantized)}')
    ctx.check(R, not problems, tg.node, tg, f'case "{cname}"', '; '.join(problems[:3]))
  ctx.sample(R, {'cases': [c[0] for c in cases]})


# ------------------------------------------------- whole-pipeline simulation
def rule_pipeline_simulation(ctx, R: str, title: str = None):
  """calibrate -> plan -> instructions -> graph rewrite, all with the
  repository's own code on label models (exact array model for the numerics;
  stand-ins only for the TFLite interpreter object and the flatbuffer classes).
  The oracle is the property itself, read off the resulting graph: an operator
  the rule list selects for static-range integer compute reads and writes
  integer activations and an integer constant weight; a dynamic-range operator
  keeps float activations and reads an integer constant; a weight-only operator
  reads its weight through a DEQUANTIZE of an integer constant; every other
  operator (unselected, unknown) still reads and writes float tensors; graph
  inputs / outputs stay float unless INPUT / OUTPUT is selected; the graph is
  topologically valid and inserted QUANTIZE / DEQUANTIZE convert between the
  types of their neighbours."""
  import re as _re  # pylint: disable=g-import-not-at-top
  from sa import absint, consteval  # pylint: disable=g-import-not-at-top
  from sa.consteval import Obj, Ext, Ref  # pylint: disable=g-import-not-at-top
  from sa.ndarr import NdArr  # pylint: disable=g-import-not-at-top
  from sa.rules import c11, c19  # pylint: disable=g-import-not-at-top
  rs = ctx.rule(R, title or 'whole pipeline on label models: each operator ends up in exactly the mode its rule selects, everything else stays float, the graph stays valid', floor=1)
  CAL, PG = 'calibrator:Calibrator', 'params_generator:ParamsGenerator'
  TIG, PERF = 'transformation_instruction_generator:TransformationInstructionsGenerator', 'transformation_performer:TransformationPerformer'
  cal = ctx.repo.func(f'{CAL}.calibrate')
  gen = ctx.repo.func(f'{PG}.generate_quantization_parameters')
  q2i = ctx.repo.func(f'{TIG}.quant_params_to_transformation_insts')
  tg = ctx.repo.func(f'{PERF}.transform_graph')
  ctx.instance(R)
  BO, TT = consteval.schema_enum('BuiltinOperator'), consteval.schema_enum('TensorType')
  code = lambda n: Ext(f'BuiltinOperator.{n}', BO[n])
  OP, ALG, drq, srq, bad = c11._domain(ctx)  # pylint: disable=protected-access
  MM = ALG['MIN_MAX_UNIFORM_QUANT']
  CP = {e.name: e for e in tables.enum(ctx, 'qtyping:ComputePrecision')}
  wonly = tables.construct(ctx, common.OPCFG, weight_tensor_config=tables.tensor_config(ctx, num_bits=8), compute_precision=CP['FLOAT'], explicit_dequantize=True)
  reg = tables.registry(ctx)
  CFG = {'srq': srq, 'drq': drq, 'wonly': wonly}
  KIND = {'fc': 'FULLY_CONNECTED', 'abs': 'CUSTOM', 'sm': 'SOFTMAX', 'cat': 'CONCATENATION', 'add': 'ADD', 'rs': 'RESHAPE'}
  KINDS = list(KIND)
  # models: tensors (name, is_const), ops (label, kind, inputs, outputs), graph inputs, outputs
  M1 = ([('x', 0), ('a', 0), ('w', 1), ('h', 0), ('out', 0)], [('abs1', 'abs', [0], [1]), ('fc', 'fc', [1, 2], [3]), ('abs2', 'abs', [3], [4])], [0], [4])
  M2 = ([('x', 0), ('w1', 1), ('h', 0), ('w2', 1), ('out', 0)], [('fc1', 'fc', [0, 1], [2]), ('fc2', 'fc', [2, 3], [4])], [0], [4])
  M3 = ([('x', 0), ('w1', 1), ('h', 0), ('w2', 1), ('o1', 0), ('o2', 0)], [('fc1', 'fc', [0, 1], [2]), ('fc2', 'fc', [2, 3], [4]), ('abs', 'abs', [2], [5])], [0], [4, 5, 2])
  M4 = ([('x', 0), ('s', 0), ('w', 1), ('out', 0)], [('sm', 'sm', [0], [1]), ('fc', 'fc', [1, 2], [3])], [0], [3])
  M5 = ([('x', 0), ('z', 0), ('c', 1), ('out', 0)], [('cat', 'cat', [0, 0, 1, 2], [3])], [0, 1], [3])
  M6 = ([('x', 0), ('y', 0), ('out', 0)], [('add', 'add', [0, 0], [1]), ('rs', 'rs', [1], [2])], [0], [2])
  # rule lists: (regex, operator kind or '*' / 'INPUT' / 'OUTPUT', mode)
  cases = [
      ('M1 FC static', M1, [('.*', 'fc', 'srq')]),
      ('M1 FC dynamic', M1, [('.*', 'fc', 'drq')]),
      ('M1 FC weight-only', M1, [('.*', 'fc', 'wonly')]),
      ('M1 FC static + OUTPUT static', M1, [('.*', 'fc', 'srq'), ('.*', 'OUTPUT', 'srq')]),
      ('M1 FC static + INPUT static', M1, [('.*', 'fc', 'srq'), ('.*', 'INPUT', 'srq')]),
      ('M1 a * rule whose regex names the graph output tensor (produced by an unknown operator)', M1, [('out;', '*', 'srq')]),
      ('M2 a * rule whose regex names the graph output tensor: selects the FC producing it, not the OUTPUT operator', M2, [('out;', '*', 'srq')]),
      ('M2 a * rule whose regex names the graph input tensor: selects the INPUT operator only', M2, [('^x;', '*', 'srq')]),
      ('M2 both FC static', M2, [('.*', 'fc', 'srq')]),
      ('M2 first FC static only', M2, [('h;', 'fc', 'srq')]),
      ('M2 second FC static only', M2, [('out;', 'fc', 'srq')]),
      ('M2 first static, second dynamic', M2, [('.*', 'fc', 'srq'), ('out;', 'fc', 'drq')]),
      ('M2 both static, INPUT and OUTPUT static', M2, [('.*', 'fc', 'srq'), ('.*', 'INPUT', 'srq'), ('.*', 'OUTPUT', 'srq')]),
      ('M3 both FC static, fan-out with an unknown reader and three outputs', M3, [('.*', 'fc', 'srq')]),
      ('M3 first FC static only', M3, [('h;', 'fc', 'srq')]),
      ('M3 second FC weight-only, first static', M3, [('h;', 'fc', 'srq'), ('o1;', 'fc', 'wonly')]),
      ('M3 nothing selected', M3, [('nomatch', 'fc', 'srq')]),
      ('M4 softmax (fixed output range) feeding a FC, everything static', M4, [('.*', '*', 'srq')]),
      ('M4 softmax static only', M4, [('.*', 'sm', 'srq')]),
      ('M5 concatenation of a repeated runtime operand and a constant, everything static', M5, [('.*', '*', 'srq')]),
      ('M5 concatenation static only', M5, [('.*', 'cat', 'srq')]),
      ('M6 add(x, x) then reshape (same-scale op), everything static', M6, [('.*', '*', 'srq')]),
      ('M6 reshape static only', M6, [('.*', 'rs', 'srq')]),
      # stale statistics: calibrated for a narrower rule list than the one quantized with - the request must be
      # rejected, or every selected operator must still end up in its mode (never silently left float)
      ('M2 both FC static with statistics calibrated for the first FC only', M2, [('.*', 'fc', 'srq')], [('h;', 'fc', 'srq')]),
      ('M1 FC and OUTPUT static with statistics calibrated for the FC only', M1, [('.*', 'fc', 'srq'), ('.*', 'OUTPUT', 'srq')], [('.*', 'fc', 'srq')]),
  ]
  F32, I8 = TT['FLOAT32'], TT['INT8']
  tval = lambda t: t.value if isinstance(t, Ext) else t
  rs.exhaustive = True
  for case in cases:
    cname, (tensors, ops, gin, gout), rules = case[:3]
    cal_rules = case[3] if len(case) > 3 else None
    names = [n for n, _ in tensors]
    wts = {n: NdArr((2, 2), [5 + i, -7, 2, 9 - i]) for i, (n, c) in enumerate(tensors) if c}

    def model():
      # like the converter: every tensor has its own buffer (empty for runtime tensors); buffer 0 is the reserved empty one
      # runtime tensors have a dynamic first dimension whose exported extent is 3 (the schema does not say it is 1)
      ts = [Obj('x:TensorT', {'name': n.encode(), 'buffer': i + 1, 'type': F32, 'shape': [2, 2] if c else [3, 2], 'shapeSignature': None if c else [-1, 2], 'quantization': None})
            for i, (n, c) in enumerate(tensors)]
      os_ = [Obj('x:OperatorT', {'label': lab, 'opcodeIndex': KINDS.index(k), 'inputs': list(i), 'outputs': list(o), 'builtinOptions': None}) for lab, k, i, o in ops]
      sg = Obj('x:SubGraphT', {'tensors': ts, 'operators': os_, 'inputs': list(gin), 'outputs': list(gout), 'name': b'main'})
      bufs = [Obj('x:BufferT', {'data': None, 'offset': 0, 'size': 0})] + [Obj('x:BufferT', {'data': (f'float-bytes-of-{n}' if c else None), 'offset': 0, 'size': 0}) for n, c in tensors]
      return Obj('x:ModelT', {'subgraphs': [sg], 'buffers': bufs, 'signatureDefs': None,
                              'operatorCodes': [_opcode(code(KIND[k])) for k in KINDS]})
    cur = {'k': 0}

    def content(k):
      return {n: NdArr((1, 2), [k + i, -2 * k - i]) for i, (n, c) in enumerate(tensors) if not c}
    details = [{'name': n, 'index': i, 'dtype': 'float32', 'quantization_parameters': {'scales': [], 'zero_points': [], 'quantized_dimension': 0}} for i, n in enumerate(names)]
    interp = Obj('x:Interpreter', {
        'reset_all_variables': _StandIn(lambda a, k, kind=None: None, 'r'),
        'get_tensor_details': _StandIn(lambda a, k, kind=None: [dict(d) for d in details], 'd'),
        'get_tensor': _StandIn(lambda a, k, kind=None: (wts[names[a[0]]] if names[a[0]] in wts else content(cur['k'])[names[a[0]]]), 't'),
    })

    def invoke(a, k):
      cur['k'] = a[1]['k']
      return {}

    def lookup(alg, op, what):
      try:
        return Ref('func', reg[alg][op][what].fq)
      except (KeyError, TypeError):
        raise index.AnalysisError(f'{R}: registry lookup with an undecided key ({alg!r}, {op!r})')

    def tensor_data(a, k):
      t = a[0].fields
      nm = t['name'].decode() if isinstance(t.get('name'), bytes) else None
      return wts.get(nm)
    hooks = {
        c11.CHECK_FQ: (lambda a, k: c11._mk_interp(ctx).hooks[c11.CHECK_FQ](a, k)),  # pylint: disable=protected-access
        'algorithm_manager.get_init_qsv_func': lambda a, k: lookup(a[0], a[1], 'init'),
        'algorithm_manager.get_quantization_func': lambda a, k: lookup(a[0], a[1], 'calibrate' if getattr(a[2], 'name', '') == 'CALIBRATE' else 'materialize'),
        'tfl_interpreter_utils.invoke_interpreter_signature': invoke,
        'tfl_interpreter_utils.get_signature_main_subgraph_index': lambda a, k: 0,
        'tfl_flatbuffer_utils.get_tensor_data': tensor_data,
        'np.issubdtype': lambda a, k: True,
        'schema_py_generated.OperatorT': lambda a, k: Obj('x:OperatorT', {'label': None, 'opcodeIndex': None, 'inputs': None, 'outputs': None, 'builtinOptions': None}),
        'schema_py_generated.TensorT': lambda a, k: Obj('x:TensorT', {'name': None, 'shape': None, 'type': None, 'buffer': None, 'quantization': None}),
        'schema_py_generated.OperatorCodeT': lambda a, k: Obj('x:OperatorCodeT', {'builtinCode': None}),
        'schema_py_generated.QuantizationParametersT': lambda a, k: Obj('x:QuantizationParametersT', {'scale': None, 'zeroPoint': None, 'quantizedDimension': 0}),
    }
    it = absint.Interp(ctx.repo, ctx.ev, hooks=hooks)
    store = {}
    for rx, kind, mode in rules:
      opn = OP[KIND[kind]] if kind in KIND else OP[kind if kind != '*' else 'ALL_SUPPORTED']
      if opn.name == 'CUSTOM':
        continue
      store.setdefault(rx, []).append(c11._recipe(rx, opn, MM, CFG[mode]))  # pylint: disable=protected-access
    rm = Obj('recipe_manager:RecipeManager', {'_scope_configs': store})
    rm_cal = rm
    if cal_rules is not None:
      store_c = {}
      for rx, kind, mode in cal_rules:
        opn = OP[KIND[kind]] if kind in KIND else OP[kind if kind != '*' else 'ALL_SUPPORTED']
        store_c.setdefault(rx, []).append(c11._recipe(rx, opn, MM, CFG[mode]))  # pylint: disable=protected-access
      rm_cal = Obj('recipe_manager:RecipeManager', {'_scope_configs': store_c})
    need = any(m == 'srq' for _, _, m in rules)
    stats = None
    if need:
      calo = Obj(CAL, {'_flatbuffer_model': model(), '_tfl_interpreter': interp, '_tensor_content_map': {}, '_model_qsvs': {}, '_cached_output': []})
      o1 = it.outcomes(cal, [calo, [{'k': 1}, {'k': 2}], rm_cal, None], copy_args=False)
      if len(o1) != 1 or o1[0].kind != 'return':
        ctx.check(R, False, cal.node, cal, cname, f'calibrate: {[x.short()[:120] for x in o1]}')
        continue
      stats = calo.fields['_model_qsvs']
    m = model()
    from sa.rules import c15 as _c15  # pylint: disable=g-import-not-at-top
    b2t = it.outcomes(ctx.repo.func('utils.tfl_flatbuffer_utils:buffer_to_tensors'), [m], copy_args=False)
    pg = Obj(PG, {'flatbuffer_model': model(), 'model_quant_results': {}, 'buffer_to_tensors': b2t[0].value if len(b2t) == 1 and b2t[0].kind == 'return' else {}})
    o2 = it.outcomes(gen, [pg, rm, stats], copy_args=False)
    if cal_rules is not None and len(o2) == 1 and o2[0].kind == 'raise':
      ctx.check(R, True, gen.node, gen, f'{cname}: rejected ({o2[0].exc})', '')
      continue   # stale statistics are refused: fine
    if len(o2) != 1 or o2[0].kind != 'return':
      ctx.check(R, False, gen.node, gen, cname, f'plan generation: {[x.short()[:160] for x in o2]}')
      continue
    plan = pg.fields['model_quant_results']
    tig = Obj(TIG, {'TensorGraphInfo': c19._Ctor(f'{TIG}.TensorGraphInfo', ['tensor_id', 'subgraph_id', 'producer', 'consumers']), 'flatbuffer_model': None, '_tensor_name_to_graph_info': {}})  # pylint: disable=protected-access
    o3 = it.outcomes(q2i, [tig, plan, m], copy_args=False)
    if len(o3) != 1 or o3[0].kind != 'return':
      ctx.check(R, False, q2i.node, q2i, cname, f'instruction generation: {[x.short()[:160] for x in o3]}')
      continue
    perf = it.construct(PERF, [], {}, None, 0)
    o4 = it.outcomes(tg, [perf, o3[0].value, m], copy_args=False)
    if len(o4) != 1 or o4[0].kind != 'return':
      ctx.check(R, False, tg.node, tg, cname, f'graph rewrite: {[x.short()[:160] for x in o4]}')
      continue
    # ---------------------------------------------------------------- oracle
    sg = m.fields['subgraphs'][0]
    T = sg.fields['tensors']
    codes = m.fields['operatorCodes']
    problems = []

    def mode_of(label, kind, outs):
      scope = ''.join(names[o] + ';' for o in outs if o != -1) if kind in KIND else ''
      got = None
      for rx, k, md in rules:
        if (k == kind or (k == '*' and kind != 'abs')) and _re.search(rx, scope):
          got = md
      return got

    def io_mode(kind, tensor_ids):
      # the scope of an operator is made of its OUTPUT tensor names: the virtual INPUT operator produces the graph inputs,
      # the virtual OUTPUT operator produces nothing (empty scope)
      scope = ''.join(names[o] + ';' for o in tensor_ids) if kind == 'INPUT' else ''
      got = None
      for rx, k, md in rules:
        if (k == kind or k == '*') and _re.search(rx, scope):
          got = md
      return got
    ttype = lambda i: tval(T[i].fields['type'])
    producer_pos = {}
    for pos, op in enumerate(sg.fields['operators']):
      for o in op.fields['outputs']:
        if o in producer_pos:
          problems.append(f'tensor {o} has two producers')
        producer_pos[o] = pos
    for pos, op in enumerate(sg.fields['operators']):
      f = op.fields
      for i in f['inputs']:
        if i != -1 and i in producer_pos and producer_pos[i] >= pos:
          problems.append(f'operator at {pos} ({f["label"] or "inserted"}) reads tensor {T[i].fields["name"]} before it is produced')
      bad_idx = [x for x in list(f['inputs']) + list(f['outputs']) if x != -1 and not (isinstance(x, int) and 0 <= x < len(T))]
      if bad_idx or (f['label'] is None and not (isinstance(f['opcodeIndex'], int) and 0 <= f['opcodeIndex'] < len(codes))):
        problems.append(f'operator at {pos} ({f["label"] or "inserted"}) refers to tensors {bad_idx} / operator code {f["opcodeIndex"]} that do not exist')
        continue
      if f['label'] is None:
        c = codes[f['opcodeIndex']].fields['builtinCode']
        cv = c.value if isinstance(c, Ext) else c
        it_, ot_ = ttype(f['inputs'][0]), ttype(f['outputs'][0])
        si, so = T[f['inputs'][0]].fields['shape'], T[f['outputs'][0]].fields['shape']
        if not isinstance(si, (list, tuple)) or not isinstance(so, (list, tuple)) or list(si) != list(so):
          problems.append(f'inserted operator at {pos} turns shape {si!r} into {so!r} (C02: no tensor is reshaped, graph inputs / outputs keep their shapes)')
        if cv == BO['QUANTIZE']:
          if not (it_ == F32 and ot_ != F32) and not (it_ != F32 and ot_ != F32):
            problems.append(f'QUANTIZE at {pos} converts type {it_} to {ot_}')
        elif cv == BO['DEQUANTIZE']:
          if not (it_ != F32 and ot_ == F32):
            problems.append(f'DEQUANTIZE at {pos} converts type {it_} to {ot_}')
        else:
          problems.append(f'inserted operator at {pos} has code {cv}')
        continue
      lab, kind, oi, oo = next(x for x in ops if x[0] == f['label'])
      md = mode_of(lab, kind, oo)
      for slot, (orig_t, cur_t) in enumerate(zip(oi, f['inputs'])):
        is_const = bool(tensors[orig_t][1])
        ty = ttype(cur_t)
        if is_const:
          if md in ('srq', 'drq'):
            if not (ty == I8 and T[cur_t].fields['quantization'] is not None and m.fields['buffers'][T[cur_t].fields['buffer']].fields['data'] not in (None, f'float-bytes-of-{names[orig_t]}')):
              problems.append(f'{lab} ({md}): weight operand {T[cur_t].fields["name"]} has type {ty}, expected an INT8 constant with parameters')
          elif md == 'wonly':
            src = next((q for q in sg.fields['operators'] if cur_t in q.fields['outputs']), None)
            okw = ty == F32 and src is not None and src.fields['label'] is None and ttype(src.fields['inputs'][0]) == I8 and m.fields['buffers'][T[src.fields['inputs'][0]].fields['buffer']].fields['data'] is not None
            if not okw:
              problems.append(f'{lab} (weight-only): weight operand {T[cur_t].fields["name"]} must be the float output of a DEQUANTIZE of an INT8 constant')
          elif ty != F32 or T[cur_t].fields['quantization'] is not None:
            problems.append(f'{lab} (not selected): constant {T[cur_t].fields["name"]} has type {ty} / parameters, must stay float')
        else:
          want = I8 if md == 'srq' else F32
          if ty != want:
            problems.append(f'{lab} ({md or "not selected"}): activation input {T[cur_t].fields["name"]} has type {ty}, expected {want}')
      for orig_t, cur_t in zip(oo, f['outputs']):
        want = I8 if md == 'srq' else F32
        if ttype(cur_t) != want:
          problems.append(f'{lab} ({md or "not selected"}): output {T[cur_t].fields["name"]} has type {ttype(cur_t)}, expected {want}')
    want_in = I8 if io_mode('INPUT', gin) == 'srq' else F32
    for t in sg.fields['inputs']:
      if ttype(t) != want_in:
        problems.append(f'graph input {T[t].fields["name"]} has type {ttype(t)}, expected {want_in}')
    want_out = I8 if io_mode('OUTPUT', gout) == 'srq' else F32
    for t in sg.fields['outputs']:
      if ttype(t) != want_out:
        problems.append(f'graph output {T[t].fields["name"]} has type {ttype(t)}, expected {want_out}')
    if len(sg.fields['outputs']) != len(gout) or sg.fields['inputs'] != list(gin):
      problems.append(f'graph inputs / outputs changed arity: {sg.fields["inputs"]} / {sg.fields["outputs"]}')
    labels = [o.fields['label'] for o in sg.fields['operators'] if o.fields['label'] is not None]
    if labels != [x[0] for x in ops]:
      problems.append(f'original operators reordered or lost: {labels}')
    nm = [t.fields['name'] for t in T]
    if len(set(nm)) != len(nm):
      problems.append(f'tensor names not unique: {nm}')
    for i, t in enumerate(T):
      ty = tval(t.fields['type'])
      if (ty != F32) != (t.fields['quantization'] is not None):
        problems.append(f'tensor {t.fields["name"]}: type {ty} but parameters {"present" if t.fields["quantization"] is not None else "absent"}')
    ctx.check(R, not problems, tg.node, tg, f'case "{cname}": operators {[(o.fields["label"] or "new") for o in sg.fields["operators"]]}', '; '.join(problems[:3]))
  ctx.sample(R, {'cases': [c[0] for c in cases]})


# ------------------------------------- multi-subgraph pipeline: independence
def _stage_why(stage, outs):
  """'refused ...' when the stage raises on its only path (a decided refusal), 'undecided ...' otherwise."""
  if len(outs) == 1 and outs[0].kind == 'raise':
    return f'refused in {stage}: {outs[0].exc} {outs[0].msg[:100]} (line {outs[0].line})'
  return f'undecided in {stage}: {[(x.short()[:120], x.msg[:80], x.line) for x in outs]}'


def _pipeline_multi(ctx, R, graphs, rules, data=None, via_modifier=False):
  """Runs calibrate (one signature per subgraph, in order) -> plan ->
  instructions -> rewrite on a label model made of `graphs`. Returns
  (model Obj, None) or (None, reason)."""
  from sa import absint, consteval  # pylint: disable=g-import-not-at-top
  from sa.consteval import Obj, Ext, Ref  # pylint: disable=g-import-not-at-top
  from sa.ndarr import NdArr  # pylint: disable=g-import-not-at-top
  from sa.rules import c11, c19  # pylint: disable=g-import-not-at-top
  CAL, PG = 'calibrator:Calibrator', 'params_generator:ParamsGenerator'
  TIG, PERF = 'transformation_instruction_generator:TransformationInstructionsGenerator', 'transformation_performer:TransformationPerformer'
  cal = ctx.repo.func(f'{CAL}.calibrate')
  gen = ctx.repo.func(f'{PG}.generate_quantization_parameters')
  q2i = ctx.repo.func(f'{TIG}.quant_params_to_transformation_insts')
  tg = ctx.repo.func(f'{PERF}.transform_graph')
  BO, TT = consteval.schema_enum('BuiltinOperator'), consteval.schema_enum('TensorType')
  code = lambda n: Ext(f'BuiltinOperator.{n}', BO[n])
  OP, ALG, drq, srq, bad = c11._domain(ctx)  # pylint: disable=protected-access
  MM = ALG['MIN_MAX_UNIFORM_QUANT']
  reg = tables.registry(ctx)
  KIND = {'fc': 'FULLY_CONNECTED', 'abs': 'CUSTOM', 'sm': 'SOFTMAX'}
  for g in graphs:
    for op in g[1]:
      if op[1] not in KIND:
        KIND[op[1]] = op[1]          # a README operator named by its TFLite name
  KINDS = list(KIND)
  name_to_code = {getattr(k, 'name', k): v for k, v in tables.module_const(ctx, 'utils.tfl_flatbuffer_utils', 'TFL_OP_NAME_TO_CODE').items()}
  _code = code

  def code(n):   # pylint: disable=function-redefined
    if n in BO:
      return _code(n)
    if n in name_to_code:
      return name_to_code[n]       # the repository's own name -> builtin code table (e.g. CONV_2D_TRANSPOSE -> TRANSPOSE_CONV)
    raise index.AnalysisError(f'{R}: no builtin operator code for {n}')
  F32, I32 = TT['FLOAT32'], TT['INT32']
  CP = {e.name: e for e in tables.enum(ctx, 'qtyping:ComputePrecision')}
  wonly = tables.construct(ctx, common.OPCFG, weight_tensor_config=tables.tensor_config(ctx, num_bits=8), compute_precision=CP['FLOAT'], explicit_dequantize=True)
  # tensor spec: (name, kind[, shape]); kind 0 = float runtime, 1 = float constant, 'i' = int32 constant (shape / axis / indices), 'r' = int32 runtime
  def tspec(t):
    n, k = t[0], t[1]
    shape = list(t[2]) if len(t) > 2 and t[2] is not None else ([2, 2] if k == 1 else [1, 2])
    return n, k, shape
  # an optional 4th component names the constant whose BUFFER this constant shares (tied weights, also across subgraphs)
  alias = {t[0]: t[3] for g in graphs for t in g[0] if len(t) > 3}
  owner = lambda n: alias.get(n, n)
  # weights and runtime contents depend on the tensor NAME only, so that a subgraph sees the same numbers alone and in company
  seed = lambda n: sum(ord(c) for c in n) % 11

  def weight(n, shape):
    cnt = 1
    for s_ in shape:
      cnt *= s_
    return NdArr(shape, [((j * 5 + seed(n)) % 13) - 6 for j in range(cnt)])
  wts = {tspec(t)[0]: weight(owner(tspec(t)[0]), tspec(t)[2]) for g in graphs for t in g[0] if tspec(t)[1] == 1}
  wts.update((data or {}).get('weights', {}))   # a rule may supply its own constants / runtime contents
  idx = {tspec(t)[0]: NdArr(tspec(t)[2], [1] * max(1, len(tspec(t)[2]) and __import__('functools').reduce(lambda a, b: a * b, tspec(t)[2], 1))) for g in graphs for t in g[0] if tspec(t)[1] == 'i'}

  def model():
    sgs, bufs = [], [Obj('x:BufferT', {'data': None, 'offset': 0, 'size': 0})]
    buf_of = {}
    for gi, (tensors, ops, gin, gout) in enumerate(graphs):
      ts = []
      for t in tensors:
        n, c, shape = tspec(t)
        if n in alias and alias[n] in buf_of:
          bi = buf_of[alias[n]]
        else:
          bufs.append(Obj('x:BufferT', {'data': (f'float-bytes-of-{n}' if c == 1 else f'int-bytes-of-{n}' if c == 'i' else None), 'offset': 0, 'size': 0}))
          bi = len(bufs) - 1
        buf_of[n] = bi
        ts.append(Obj('x:TensorT', {'name': n.encode(), 'buffer': bi, 'type': I32 if c in ('i', 'r') else F32, 'shape': shape, 'quantization': None}))
      os_ = [Obj('x:OperatorT', {'label': op[0], 'opcodeIndex': KINDS.index(op[1]), 'inputs': list(op[2]), 'outputs': list(op[3]),
                                 'builtinOptions': (Obj('x:Options', dict(op[4])) if len(op) > 4 else None)}) for op in ops]
      sgs.append(Obj('x:SubGraphT', {'tensors': ts, 'operators': os_, 'inputs': list(gin), 'outputs': list(gout), 'name': f'sg{gi}'.encode()}))
    return Obj('x:ModelT', {'subgraphs': sgs, 'buffers': bufs, 'signatureDefs': None,
                            'operatorCodes': [_opcode(code(KIND[k])) for k in KINDS]})
  cur = {'k': 0}

  def content(n, k):
    own = (data or {}).get('content')
    if own is not None and own(n, k) is not None:
      return own(n, k)
    return NdArr((1, 2), [k + seed(n), -2 * k - seed(n)])

  def details(a, k, kind=None):
    g = a[0] if a else k.get('subgraph_index', 0)
    return [{'name': tspec(t)[0], 'index': i, 'dtype': 'float32', 'quantization_parameters': {'scales': [], 'zero_points': [], 'quantized_dimension': 0}} for i, t in enumerate(graphs[g][0])]

  def get_tensor(a, k, kind=None):
    g = a[1] if len(a) > 1 else k.get('subgraph_index', 0)
    n, c, shape = tspec(graphs[g][0][a[0]])
    if n in wts:
      return wts[n]
    if n in idx:
      return idx[n]
    if c == 'r':
      return NdArr(shape, [0] * len(NdArr(shape, [0] * __import__('functools').reduce(lambda x, y: x * y, shape, 1)).data))
    return content(n, cur['k'])
  interp = Obj('x:Interpreter', {'reset_all_variables': _StandIn(lambda a, k, kind=None: None, 'r'), 'get_tensor_details': _StandIn(details, 'd'), 'get_tensor': _StandIn(get_tensor, 't')})

  def invoke(a, k):
    cur['k'] = a[1]['k']
    return {}

  def lookup(alg, op, what):
    try:
      return Ref('func', reg[alg][op][what].fq)
    except (KeyError, TypeError):
      raise index.AnalysisError(f'{R}: registry lookup with an undecided key ({alg!r}, {op!r})')

  def tensor_data(a, k):
    t = a[0].fields
    nm = t['name'].decode() if isinstance(t.get('name'), bytes) else None
    return wts.get(nm) if nm in wts else idx.get(nm)
  hooks = {
      c11.CHECK_FQ: (lambda a, k: c11._mk_interp(ctx).hooks[c11.CHECK_FQ](a, k)),  # pylint: disable=protected-access
      'algorithm_manager.get_init_qsv_func': lambda a, k: lookup(a[0], a[1], 'init'),
      'algorithm_manager.get_quantization_func': lambda a, k: lookup(a[0], a[1], 'calibrate' if getattr(a[2], 'name', '') == 'CALIBRATE' else 'materialize'),
      'tfl_interpreter_utils.invoke_interpreter_signature': invoke,
      'tfl_interpreter_utils.get_signature_main_subgraph_index': lambda a, k: int(a[1][1:]),
      'tfl_flatbuffer_utils.get_tensor_data': tensor_data,
      'np.issubdtype': lambda a, k: True,
      'schema_py_generated.OperatorT': lambda a, k: Obj('x:OperatorT', {'label': None, 'opcodeIndex': None, 'inputs': None, 'outputs': None, 'builtinOptions': None}),
      'schema_py_generated.TensorT': lambda a, k: Obj('x:TensorT', {'name': None, 'shape': None, 'type': None, 'buffer': None, 'quantization': None}),
      'schema_py_generated.OperatorCodeT': lambda a, k: Obj('x:OperatorCodeT', {'builtinCode': None}),
      'schema_py_generated.QuantizationParametersT': lambda a, k: Obj('x:QuantizationParametersT', {'scale': None, 'zeroPoint': None, 'quantizedDimension': 0}),
      'schema_py_generated.BufferT': lambda a, k: Obj('x:BufferT', {'data': None, 'offset': 0, 'size': 0}),
  }
  for optn in ('ReshapeOptionsT', 'BatchMatMulOptionsT', 'MulOptionsT', 'ReducerOptionsT', 'AddOptionsT'):
    hooks[f'schema_py_generated.{optn}'] = lambda a, k: Obj('x:Options', {})
  it = absint.Interp(ctx.repo, ctx.ev, hooks=hooks)
  store = {}
  for rx, kind, cfg in rules:
    opn = OP[KIND[kind]] if kind in KIND else OP[kind if kind != '*' else 'ALL_SUPPORTED']
    if cfg == 'block':
      G = {e.name: e for e in tables.enum(ctx, 'qtyping:QuantGranularity')}
      block = tables.construct(ctx, common.OPCFG, weight_tensor_config=tables.tensor_config(ctx, num_bits=4, granularity=G['BLOCKWISE'], block_size=2),
                               compute_precision=CP['FLOAT'], explicit_dequantize=True, skip_checks=True)
      store.setdefault(rx, []).append(c11._recipe(rx, opn, MM, block))  # pylint: disable=protected-access
      continue
    if cfg == 'srqc':   # static range with per-channel weights
      G_ = {e.name: e for e in tables.enum(ctx, 'qtyping:QuantGranularity')}
      srqc = tables.construct(ctx, common.OPCFG, weight_tensor_config=tables.tensor_config(ctx, num_bits=8, granularity=G_['CHANNELWISE']),
                              activation_tensor_config=tables.tensor_config(ctx, num_bits=8, symmetric=False), compute_precision=CP['INTEGER'])
      store.setdefault(rx, []).append(c11._recipe(rx, opn, MM, srqc))  # pylint: disable=protected-access
      continue
    store.setdefault(rx, []).append(c11._recipe(rx, opn, MM, {'srq': srq, 'drq': drq, 'wonly': wonly}[cfg]))  # pylint: disable=protected-access
  rm = Obj('recipe_manager:RecipeManager', {'_scope_configs': store})
  # as Quantizer.calibrate does for a multi-signature model: one call per signature, each with a NEW Calibrator on the float
  # model, resumed from (a deep copy of) the result of the previous call
  import copy as _copy  # pylint: disable=g-import-not-at-top
  qsvs = {}
  for gi in range(len(graphs)):
    calo = Obj(CAL, {'_flatbuffer_model': model(), '_tfl_interpreter': interp, '_tensor_content_map': {}, '_model_qsvs': _copy.deepcopy(qsvs), '_cached_output': []})
    o1 = it.outcomes(cal, [calo, [{'k': 1}, {'k': 2}], rm, f's{gi}'], copy_args=False)
    if len(o1) != 1 or o1[0].kind != 'return':
      return None, _stage_why(f'calibrate(signature of subgraph {gi})', o1)
    qsvs = calo.fields['_model_qsvs']
  m = model()
  b2t = it.outcomes(ctx.repo.func('utils.tfl_flatbuffer_utils:buffer_to_tensors'), [m], copy_args=False)
  pg = Obj(PG, {'flatbuffer_model': model(), 'model_quant_results': {}, 'buffer_to_tensors': b2t[0].value if len(b2t) == 1 and b2t[0].kind == 'return' else {}})
  o2 = it.outcomes(gen, [pg, rm, calo.fields['_model_qsvs']], copy_args=False)
  if len(o2) != 1 or o2[0].kind != 'return':
    return None, _stage_why('plan generation', o2)
  tig = Obj(TIG, {'TensorGraphInfo': c19._Ctor(f'{TIG}.TensorGraphInfo', ['tensor_id', 'subgraph_id', 'producer', 'consumers']), 'flatbuffer_model': None, '_tensor_name_to_graph_info': {}})  # pylint: disable=protected-access
  if via_modifier:
    # through ModelModifier.modify_model itself: the source bytes are "parsed" into the label model (with one signature
    # per subgraph), the serialisers hand the transformed object back
    src_model = model()
    src_model.fields['signatureDefs'] = [
        Obj('x:SignatureDefT', {'signatureKey': f's{gi}'.encode(), 'subgraphIndex': gi,
                                'inputs': [Obj('x:TensorMapT', {'name': f'in{k}'.encode(), 'tensorIndex': t}) for k, t in enumerate(g_[2])],
                                'outputs': [Obj('x:TensorMapT', {'name': f'out{k}'.encode(), 'tensorIndex': t}) for k, t in enumerate(g_[3])]})
        for gi, g_ in enumerate(graphs)]
    MMC = 'model_modifier:ModelModifier'
    it.hooks['flatbuffer_utils.read_model_from_bytearray'] = lambda a, k: src_model
    it.hooks[f'{MMC}._process_constant_map'] = lambda a, k: (2 ** 33 if via_modifier == 'large' else 0)   # the size that selects the serialiser
    it.hooks[f'{MMC}._serialize_small_model'] = lambda a, k: a[1]
    it.hooks[f'{MMC}._serialize_large_model'] = lambda a, k: a[1]
    mmo = Obj(MMC, {'_model_content': 'SOURCE-BYTES', '_constant_map': [], '_transformation_instruction_generator': tig, '_transformation_performer': it.construct(PERF, [], {}, None, 0)})
    om = it.outcomes(ctx.repo.func(f'{MMC}.modify_model'), [mmo, pg.fields['model_quant_results']], copy_args=False)
    if len(om) != 1 or om[0].kind != 'return' or not isinstance(om[0].value, Obj):
      return None, _stage_why('modify_model', om)
    return om[0].value, None
  o3 = it.outcomes(q2i, [tig, pg.fields['model_quant_results'], m], copy_args=False)
  if len(o3) != 1 or o3[0].kind != 'return':
    return None, _stage_why('instruction generation', o3)
  perf = it.construct(PERF, [], {}, None, 0)
  o4 = it.outcomes(tg, [perf, o3[0].value, m], copy_args=False)
  if len(o4) != 1 or o4[0].kind != 'return':
    return None, _stage_why('graph rewrite', o4)
  return m, None


def _subgraph_fingerprint(model, g):
  """What a subgraph looks like after quantization, independent of model-wide indices."""
  from sa.consteval import Ext, Obj  # pylint: disable=g-import-not-at-top
  from sa.ndarr import NdArr  # pylint: disable=g-import-not-at-top
  import fractions  # pylint: disable=g-import-not-at-top
  sg = model.fields['subgraphs'][g]
  codes = model.fields['operatorCodes']
  tv = lambda t: t.value if isinstance(t, Ext) else t

  def num(x):
    if isinstance(x, NdArr):
      return tuple(round(float(v), 12) for v in x.data)
    if isinstance(x, list):
      return tuple(round(float(v), 12) for v in x)
    return x
  ops = []
  for op in sg.fields['operators']:
    f = op.fields
    c = codes[f['opcodeIndex']].fields['builtinCode'] if isinstance(f['opcodeIndex'], int) and 0 <= f['opcodeIndex'] < len(codes) else None
    ops.append((f['label'], tv(c), tuple(f['inputs']), tuple(f['outputs'])))
  tensors = []
  for t in sg.fields['tensors']:
    f = t.fields
    q = f['quantization']
    qd = None if q is None else (num(q.fields['scale']), num(q.fields['zeroPoint']), q.fields['quantizedDimension'])
    data = model.fields['buffers'][f['buffer']].fields['data'] if isinstance(f['buffer'], int) else None
    tensors.append((f['name'], tv(f['type']), qd, 'rewritten' if (data is not None and not (isinstance(data, str) and data.startswith('float-bytes'))) else ('float' if data is not None else 'none')))
  return {'operators': ops, 'tensors': tensors, 'inputs': list(sg.fields['inputs']), 'outputs': list(sg.fields['outputs'])}


def rule_subgraph_independence(ctx, R: str):
  """C19 as a table: a model of several subgraphs (different layouts, one
  signature each) is pushed through the whole pipeline; every subgraph must come
  out exactly as when it is quantized as the only subgraph of a model - same
  operators in the same order, same operand wiring, same tensor types, same
  scales and zero points, same constants rewritten."""
  rs = ctx.rule(R, 'every subgraph of a multi-subgraph model is quantized exactly as if it stood alone (whole pipeline on label models, two and three subgraphs, any order)', floor=1)
  tg = ctx.repo.func('transformation_performer:TransformationPerformer.transform_graph')
  ctx.instance(R)
  A = ([('ax', 0), ('aw1', 1), ('ah', 0), ('aw2', 1), ('aout', 0)], [('afc1', 'fc', [0, 1], [2]), ('afc2', 'fc', [2, 3], [4])], [0], [4])
  B = ([('bx', 0), ('ba', 0), ('bw', 1), ('bh', 0), ('bout', 0)], [('babs1', 'abs', [0], [1]), ('bfc', 'fc', [1, 2], [3]), ('babs2', 'abs', [3], [4])], [0], [4])
  C = ([('cx', 0), ('cs', 0), ('cw', 1), ('cout', 0)], [('csm', 'sm', [0], [1]), ('cfc', 'fc', [1, 2], [3])], [0], [3, 1])
  D = ([('dx', 0), ('dw', 1), ('dout', 0)], [('dfc', 'fc', [0, 1], [2])], [0], [2])
  E = ([('ex', 0), ('e1', 0), ('ew', 1), ('e2', 0), ('e3', 0), ('e4', 0), ('eout', 0)],
       [('eabs1', 'abs', [0], [1]), ('efc', 'fc', [1, 2], [3]), ('eabs2', 'abs', [3], [4]), ('esm', 'sm', [4], [5]), ('eabs3', 'abs', [5], [6])], [0], [6])
  rule_lists = {'FC static': [('.*', 'fc', 'srq')], 'everything static': [('.*', '*', 'srq')], 'FC dynamic': [('.*', 'fc', 'drq')], 'FC static in one subgraph only (regex)': [('bh;', 'fc', 'srq')]}
  alone = {}
  rs.exhaustive = True
  for lname, rules in rule_lists.items():
    for gname, g in (('A', A), ('B', B), ('C', C), ('D', D), ('E', E)):
      m, why = _pipeline_multi(ctx, R, [g], rules)
      if m is None:
        ctx.check(R, False, tg.node, tg, f'{lname}: subgraph {gname} alone', why)
        alone[(lname, gname)] = None
        continue
      alone[(lname, gname)] = _subgraph_fingerprint(m, 0)
    for combo in (('A', 'B'), ('B', 'A'), ('C', 'A', 'B'), ('E', 'D'), ('D', 'E', 'A')):   # the last two: one operator next to five
      gs = [dict(A=A, B=B, C=C, D=D, E=E)[x] for x in combo]
      m, why = _pipeline_multi(ctx, R, gs, rules)
      label = f'{lname}: model of subgraphs {combo}'
      if m is None:
        ctx.check(R, False, tg.node, tg, label, why)
        continue
      for pos, gname in enumerate(combo):
        want = alone.get((lname, gname))
        if want is None:
          continue
        got = _subgraph_fingerprint(m, pos)
        diff = [k for k in want if want[k] != got[k]]
        detail = ''
        if diff:
          k = diff[0]
          pairs = [(a, b) for a, b in zip(want[k], got[k]) if a != b] if isinstance(want[k], list) and len(want[k]) == len(got[k]) else [(want[k], got[k])]
          detail = f'{k}: alone {pairs[0][0]!r}, in the model {pairs[0][1]!r}'
        ctx.check(R, not diff, tg.node, tg, f'{label}: subgraph {gname} at position {pos}', f'subgraph {gname} is quantized differently than when it stands alone - {detail}')


# ------------------------------------ blockwise weights: operator replacement
def rule_blockwise_replacement(ctx, R: str, independence: bool = False):
  """A FULLY_CONNECTED whose weight is quantized BLOCKWISE is REPLACED (reshape
  -> batch_matmul -> mul -> sum -> reshape [-> add] [-> relu]) by the real
  emulated_subchannel transformation, reached through the real calibrate ->
  plan -> instructions -> transform_graph. The result must be a well-formed
  graph that computes the same dataflow: index ranges, unique names, one
  producer, execution order, the chain wired from the FC input to the FC
  output, element counts preserved by the reshapes, every other operator
  untouched. With `independence` the subgraphs of a two-subgraph model are
  compared with the same subgraphs quantized alone (C19)."""
  from sa.consteval import Ext  # pylint: disable=g-import-not-at-top
  from sa import consteval  # pylint: disable=g-import-not-at-top
  title = ('blockwise FULLY_CONNECTED replacement: every subgraph comes out as when it stands alone' if independence else
           'blockwise FULLY_CONNECTED replacement through the whole pipeline leaves a well-formed graph wired from the FC input to the FC output (bias / RELU / neighbours / two in a row / two subgraphs)')
  rs = ctx.rule(R, title, floor=1)
  tg = ctx.repo.func('transformation_performer:TransformationPerformer.transform_graph')
  ctx.instance(R)
  BO, TT = consteval.schema_enum('BuiltinOperator'), consteval.schema_enum('TensorType')
  tv = lambda t: t.value if isinstance(t, Ext) else t
  FC = lambda lab, i, o, act=0: (lab, 'FULLY_CONNECTED', i, o, {'fusedActivationFunction': act, 'keepNumDims': False})
  plain = ([('px', 0, (1, 1, 8)), ('pw', 1, (3, 8)), ('pout', 0, (1, 1, 3))], [FC('pfc', [0, 1], [2])], [0], [2])
  bias = ([('qx', 0, (1, 1, 4)), ('qw', 1, (2, 4)), ('qb', 1, (2,)), ('qout', 0, (1, 1, 2))], [FC('qfc', [0, 1, 2], [3])], [0], [3])
  nobias = ([('nx', 0, (1, 1, 4)), ('nw', 1, (2, 4)), ('nout', 0, (1, 1, 2))], [FC('nfc', [0, 1, -1], [2])], [0], [2])
  relu = ([('rx', 0, (1, 2, 4)), ('rw', 1, (3, 4)), ('rout', 0, (1, 2, 3))], [FC('rfc', [0, 1], [2], 1)], [0], [2])
  mid = ([('mx', 0, (1, 1, 4)), ('mh', 0, (1, 1, 4)), ('mw', 1, (2, 4)), ('my', 0, (1, 1, 2)), ('mout', 0, (1, 1, 2))],
         [('mabs1', 'abs', [0], [1]), FC('mfc', [1, 2], [3], 1), ('mabs2', 'abs', [3], [4])], [0], [4])
  midb = ([('bx', 0, (1, 1, 4)), ('bh', 0, (1, 1, 4)), ('bw', 1, (2, 4)), ('bb', 1, (2,)), ('by', 0, (1, 1, 2)), ('bout', 0, (1, 1, 2))],
          [('babs1', 'abs', [0], [1]), FC('bfc', [1, 2, 3], [4], 1), ('babs2', 'abs', [4], [5])], [0], [5])
  two = ([('tx', 0, (1, 1, 4)), ('tw1', 1, (4, 4)), ('th', 0, (1, 1, 4)), ('tw2', 1, (2, 4)), ('tout', 0, (1, 1, 2))],
         [FC('tfc1', [0, 1], [2], 1), FC('tfc2', [2, 3, -1], [4])], [0], [4])
  fan = ([('fx', 0, (1, 1, 4)), ('fw1', 1, (2, 4)), ('fy1', 0, (1, 1, 2)), ('fw2', 1, (4, 4)), ('fy2', 0, (1, 1, 4)), ('fz', 0, (1, 1, 2))],
         [FC('ffc1', [0, 1], [2]), FC('ffc2', [0, 3], [4], 1), ('fabs', 'abs', [2], [5])], [0], [5, 4])
  after = ([('sx', 0, (1, 1, 4)), ('sw', 1, (2, 4)), ('sy', 0, (1, 1, 2)), ('sout', 0, (1, 1, 2))], [FC('sfc', [0, 1], [2], 1), ('ssm', 'sm', [2], [3])], [0], [3])
  before = ([('ux', 0, (1, 1, 4)), ('uh', 0, (1, 1, 4)), ('uw', 1, (2, 4)), ('uout', 0, (1, 1, 2))], [('usm', 'sm', [0], [1]), FC('ufc', [1, 2], [3])], [0], [3])
  both = ([('vx', 0, (1, 1, 4)), ('vh', 0, (1, 1, 4)), ('vw', 1, (2, 4)), ('vy', 0, (1, 1, 2)), ('vout', 0, (1, 1, 2))],
          [('vsm1', 'sm', [0], [1]), FC('vfc', [1, 2], [3], 1), ('vsm2', 'sm', [3], [4])], [0], [4])
  after2 = ([('wx', 0, (1, 1, 4)), ('ww', 1, (2, 4)), ('wy', 0, (1, 1, 2)), ('wz', 0, (1, 1, 2)), ('wout', 0, (1, 1, 2))],
            [FC('wfc', [0, 1], [2], 1), ('wsm1', 'sm', [2], [3]), ('wsm2', 'sm', [3], [4])], [0], [4])
  rules = [('.*', 'FULLY_CONNECTED', 'block')]
  mixed_rules = rules + [('.*', 'sm', 'srq')]
  mixed = {'followed by a static-range SOFTMAX': after, 'preceded by a static-range SOFTMAX': before, 'between two static-range SOFTMAX': both, 'followed by two static-range SOFTMAX': after2}
  named = {'plain': plain, 'bias': bias, 'optional bias absent (-1)': nobias, 'RELU': relu, 'between two other operators, RELU': mid,
           'between two other operators, bias and RELU': midb, 'two in a row': two, 'two on one input, one feeds a graph output': fan}
  rs.exhaustive = True

  def well_formed(m, pos, g, tag, is_mixed=False):
    tensors, ops, gin, gout = g
    sg = m.fields['subgraphs'][pos]
    T, O = sg.fields['tensors'], sg.fields['operators']
    codes, bufs = m.fields['operatorCodes'], m.fields['buffers']
    problems = []
    cnt = lambda shp: __import__('functools').reduce(lambda a, b: a * b, list(shp), 1)
    const = set()
    for i, t in enumerate(T):
      b = t.fields['buffer']
      if not isinstance(b, int) or not 0 <= b < len(bufs):
        problems.append(f'tensor {t.fields["name"]}: buffer index {b!r} out of range')
      elif b != 0 and bufs[b].fields['data'] is not None:
        const.add(i)
      if tv(t.fields['type']) not in TT.values():
        problems.append(f'tensor {t.fields["name"]}: type {t.fields["type"]!r}')
    names = [t.fields['name'] for t in T]
    if len(set(names)) != len(names):
      problems.append(f'tensor names not unique: {sorted(n for n in set(names) if names.count(n) > 1)}')
    produced = set(sg.fields['inputs']) | const
    producer = {}
    for k, op in enumerate(O):
      f = op.fields
      oc = f['opcodeIndex']
      if not isinstance(oc, int) or not 0 <= oc < len(codes):
        problems.append(f'operator {k}: opcode index {oc!r} out of range')
      if not isinstance(f['inputs'], list) or not isinstance(f['outputs'], list):
        problems.append(f'operator {k}: operands not folded')
        continue
      for x in f['inputs']:
        if x == -1:
          continue
        if not isinstance(x, int) or not 0 <= x < len(T):
          problems.append(f'operator {k}: input {x!r} out of range')
        elif x not in produced:
          problems.append(f'operator {k} ({f["label"] or "new"}) reads {T[x].fields["name"]} before it is produced')
      for x in f['outputs']:
        if not isinstance(x, int) or not 0 <= x < len(T):
          problems.append(f'operator {k}: output {x!r} out of range')
          continue
        if x in producer or x in const or x in sg.fields['inputs']:
          problems.append(f'tensor {T[x].fields["name"]} has two producers / is a constant or an input that gets written')
        producer[x] = k
        produced.add(x)
    for x in list(sg.fields['inputs']) + list(sg.fields['outputs']):
      if not isinstance(x, int) or not 0 <= x < len(T):
        problems.append(f'graph input / output {x!r} out of range')
    for x in sg.fields['outputs']:
      if x not in produced:
        problems.append(f'graph output {x} is produced by no operator')
    if (sg.fields['inputs'] != list(gin) or sg.fields['outputs'] != list(gout)) if not is_mixed else (len(sg.fields['inputs']) != len(gin) or len(sg.fields['outputs']) != len(gout)):
      problems.append(f'graph inputs / outputs {sg.fields["inputs"]} / {sg.fields["outputs"]}; expected {list(gin)} / {list(gout)}')
    if problems:
      return problems
    code_of = lambda op: tv(codes[op.fields['opcodeIndex']].fields['builtinCode'])
    want_labels = [o[0] for o in ops if o[1] != 'FULLY_CONNECTED']
    if [o.fields['label'] for o in O if o.fields['label'] is not None] != want_labels:
      problems.append(f'original operators kept {[o.fields["label"] for o in O if o.fields["label"] is not None]}; expected {want_labels} (every blockwise FULLY_CONNECTED is replaced, nothing else is)')
    by_label = {o.fields['label']: o for o in O if o.fields['label'] is not None}
    used = set()
    for o in ops:
      lab, kind, ins, outs = o[:4]
      if kind != 'FULLY_CONNECTED':
        if is_mixed and kind == 'sm' and lab in by_label:
          io = [tv(T[x].fields['type']) for x in by_label[lab].fields['inputs'] + by_label[lab].fields['outputs']]
          if any(x != TT['INT8'] for x in io):
            problems.append(f'static-range operator {lab} reads / writes tensors of types {io}; expected INT8 (C03)')
        if not is_mixed and lab in by_label and (by_label[lab].fields['inputs'], by_label[lab].fields['outputs']) != (list(ins), list(outs)):
          problems.append(f'operator {lab} now reads {by_label[lab].fields["inputs"]} / writes {by_label[lab].fields["outputs"]}; expected {list(ins)} / {list(outs)}')
        continue
      has_bias = len(ins) > 2 and ins[2] != -1
      act = o[4]['fusedActivationFunction']
      want = ['RESHAPE', 'BATCH_MATMUL', 'MUL', 'SUM', 'RESHAPE'] + (['ADD'] if has_bias else []) + (['RELU'] if act == 1 else [])
      cur, chain = ins[0], []
      if is_mixed:   # the FC may read its input through an inserted DEQUANTIZE
        for q in O:
          if q.fields['label'] is None and code_of(q) == BO['DEQUANTIZE'] and q.fields['inputs'] == [ins[0]] and any(
              r.fields['label'] is None and code_of(r) == BO['RESHAPE'] and r.fields['inputs'][0] == q.fields['outputs'][0] for r in O):
            cur = q.fields['outputs'][0]
      for _ in range(len(want) + 2):
        nxt = [k for k, q in enumerate(O) if q.fields['label'] is None and k not in used and q.fields['inputs'] and q.fields['inputs'][0] == cur]
        if not nxt:
          break
        k = nxt[0]
        used.add(k)
        chain.append(k)
        cur = O[k].fields['outputs'][0]
        if cur == outs[0]:
          break
      got = [next((n for n, v in BO.items() if v == code_of(O[k])), '?') for k in chain]
      if got != want or cur != outs[0]:
        problems.append(f'{lab}: replaced by the chain {got} ending in tensor {T[cur].fields["name"]}; expected {want} ending in {T[outs[0]].fields["name"]}')
        continue
      if chain != list(range(chain[0], chain[0] + len(chain))):
        problems.append(f'{lab}: the replacement operators are not contiguous: positions {chain}')
      wt = T[ins[1]]
      wdata = bufs[wt.fields['buffer']].fields['data']
      if O[chain[1]].fields['inputs'][1:] != [ins[1]] or tv(wt.fields['type']) != TT['INT4'] or wdata is None or (isinstance(wdata, str) and wdata.startswith('float-bytes')):
        problems.append(f'{lab}: BATCH_MATMUL must read the weight {wt.fields["name"]} as an INT4 constant with rewritten data (reads {O[chain[1]].fields["inputs"]}, type {wt.fields["type"]!r})')
      if cnt(wt.fields['shape']) != cnt(tspec_shape(tensors[ins[1]])):
        problems.append(f'{lab}: weight {wt.fields["name"]} has shape {list(wt.fields["shape"])}: element count differs from the original {tspec_shape(tensors[ins[1]])}')
      sc = O[chain[2]].fields['inputs'][1] if len(O[chain[2]].fields['inputs']) == 2 else None
      if sc not in const or tv(T[sc].fields['type']) != TT['FLOAT32']:
        problems.append(f'{lab}: MUL must read a FLOAT32 scale constant (reads {O[chain[2]].fields["inputs"]})')
      ax = O[chain[3]].fields['inputs'][1] if len(O[chain[3]].fields['inputs']) == 2 else None
      if ax not in const or tv(T[ax].fields['type']) != TT['INT32']:
        problems.append(f'{lab}: SUM must read an INT32 axis constant (reads {O[chain[3]].fields["inputs"]})')
      for k in (chain[0], chain[4]):
        a, b = T[O[k].fields['inputs'][0]].fields['shape'], T[O[k].fields['outputs'][0]].fields['shape']
        shp = O[k].fields['inputs'][1] if len(O[k].fields['inputs']) == 2 else None
        if shp not in const or tv(T[shp].fields['type']) != TT['INT32']:
          problems.append(f'{lab}: RESHAPE at {k} must read an INT32 shape constant (reads {O[k].fields["inputs"]})')
        if not isinstance(a, (list, tuple)) or not isinstance(b, (list, tuple)) or cnt(a) != cnt(b):
          problems.append(f'{lab}: RESHAPE at {k} turns shape {a!r} into {b!r}: element counts differ')
      if has_bias and O[chain[5]].fields['inputs'][1:] != [ins[2]]:
        problems.append(f'{lab}: ADD must read the bias {T[ins[2]].fields["name"]} (reads {O[chain[5]].fields["inputs"]})')
      for k in chain[1:4]:
        a, b = T[O[k].fields['inputs'][0]].fields['shape'], T[O[k].fields['outputs'][0]].fields['shape']
        if not isinstance(a, (list, tuple)) or not isinstance(b, (list, tuple)) or len(a) != 4 or len(b) != 4 or list(a)[0] != list(b)[0]:
          problems.append(f'{lab}: operator at {k}: intermediate shapes {a!r} -> {b!r} are not 4-d with one batch')
    stray = [k for k, q in enumerate(O) if q.fields['label'] is None and k not in used and not (is_mixed and code_of(q) in (BO['QUANTIZE'], BO['DEQUANTIZE']))]
    if stray:
      problems.append(f'new operators outside any replacement chain at positions {stray}')
    return problems

  def tspec_shape(t):
    return list(t[2]) if len(t) > 2 else ([2, 2] if t[1] == 1 else [1, 2])
  alone, refused = {}, []
  for name, g in named.items():
    m, why = _pipeline_multi(ctx, R, [g], rules)
    if m is None:
      # C01 allows a refusal (quantize() raises); only an undecided run is a problem of the analysis
      ctx.check(R, why.startswith('refused'), tg.node, tg, f'case "{name}"', why)
      if why.startswith('refused'):
        refused.append(name)
      continue
    alone[name] = _subgraph_fingerprint(m, 0)
    if not independence:
      pr = well_formed(m, 0, g, name)
      ctx.check(R, not pr, tg.node, tg, f'case "{name}": operators {[(o.fields["label"] or "new") for o in m.fields["subgraphs"][0].fields["operators"]]}', '; '.join(pr[:3]))
  if not independence:
    for name, g in mixed.items():
      m, why = _pipeline_multi(ctx, R, [g], mixed_rules)
      if m is None:
        ctx.check(R, why.startswith('refused'), tg.node, tg, f'case "{name}"', why)
        if why.startswith('refused'):
          refused.append(name)
        continue
      pr = well_formed(m, 0, g, name, True)
      ctx.check(R, not pr, tg.node, tg, f'case "{name}": operators {[(o.fields["label"] or "new") for o in m.fields["subgraphs"][0].fields["operators"]]}', '; '.join(pr[:3]))
  for combo in (('plain', 'RELU'), ('two in a row', 'between two other operators, RELU'), ('two on one input, one feeds a graph output', 'plain', 'two in a row')):
    if any(c in refused for c in combo):
      continue
    gs = [named[c] for c in combo]
    m, why = _pipeline_multi(ctx, R, gs, rules)
    label = f'model of subgraphs {combo}'
    if m is None:
      ctx.check(R, False, tg.node, tg, label, f'every subgraph is accepted alone, the model is not: {why}')
      continue
    for pos, c in enumerate(combo):
      if independence:
        want = alone.get(c)
        if want is None:
          continue
        got = _subgraph_fingerprint(m, pos)
        diff = [k for k in want if want[k] != got[k]]
        detail = ''
        if diff:
          k = diff[0]
          pairs = [(a, b) for a, b in zip(want[k], got[k]) if a != b] if isinstance(want[k], list) and len(want[k]) == len(got[k]) else [(want[k], got[k])]
          detail = f'{k}: alone {pairs[0][0]!r}, in the model {pairs[0][1]!r}'
        ctx.check(R, not diff, tg.node, tg, f'{label}: subgraph "{c}" at position {pos}', f'quantized differently than when it stands alone - {detail}')
      else:
        pr = well_formed(m, pos, named[c], c)
        ctx.check(R, not pr, tg.node, tg, f'{label}: subgraph "{c}" at position {pos}', '; '.join(pr[:3]))
  ctx.sample(R, {'cases': list(named) + ([] if independence else list(mixed)), 'refused (allowed by C01)': refused, 'models': 3})


# ---------------------------------- weight and bias parameters on extreme data
def rule_weight_bias_parameters(ctx, R: str):
  """C04 on values chosen so that everything that could "help" the bias is tempting: a FULLY_CONNECTED under static
  range (per-tensor and per-channel weights) whose first output channel has all-zero weights, with tiny activations and
  an ordinary bias - the bias does not fit into 32 bits at input scale x weight scale. The property fixes the
  parameters regardless: weight scale per channel = max(|min|, |max|, 1e-4) / 127 of that channel's TRUE min / max,
  zero point 0; bias scale = input scale x weight scale, zero point 0, INT32."""
  import fractions  # pylint: disable=g-import-not-at-top
  from sa import consteval  # pylint: disable=g-import-not-at-top
  from sa.consteval import Ext  # pylint: disable=g-import-not-at-top
  from sa.ndarr import NdArr  # pylint: disable=g-import-not-at-top
  rs = ctx.rule(R, 'weight scale = max(|min|,|max|,1e-4)/127 of the true per-channel range and bias scale = input scale x weight scale, also when the bias does not fit (zero channel, tiny activations)', floor=1)
  tg = ctx.repo.func('transformation_performer:TransformationPerformer.transform_graph')
  ctx.instance(R)
  F = fractions.Fraction
  TT = consteval.schema_enum('TensorType')
  tv = lambda t: t.value if isinstance(t, Ext) else t
  vals = lambda x: [float(v) for v in (x.data if isinstance(x, NdArr) else (x if isinstance(x, (list, tuple)) else [x]))]
  g = ([('x', 0, (1, 2)), ('w', 1, (2, 2)), ('b', 1, (2,)), ('out', 0, (1, 2))], [('FULLY_CONNECTED', 'FULLY_CONNECTED', [0, 1, 2], [3])], [0], [3])
  W = NdArr((2, 2), [0, 0, 3, -5])          # output channel 0 is all zero
  Bv = NdArr((2,), [2, -1])
  tiny = F(1, 10 ** 6)
  data = {'weights': {'w': W, 'b': Bv}, 'content': lambda n, k: NdArr((1, 2), [tiny * k, -tiny * k], 'f') if n == 'x' else None}
  rs.exhaustive = True
  for mode in ('srq', 'srqc'):
    m, why = _pipeline_multi(ctx, R, [g], [('.*', 'FULLY_CONNECTED', mode)], data=data)
    label = f'FULLY_CONNECTED {"per-channel" if mode == "srqc" else "per-tensor"} weights, zero channel, activations of 1e-6, bias [2, -1]'
    if m is None:
      ctx.check(R, False, tg.node, tg, label, why)
      continue
    sg = m.fields['subgraphs'][0]
    T = sg.fields['tensors']
    op = next((o for o in sg.fields['operators'] if o.fields['label'] == 'FULLY_CONNECTED'), None)
    if op is None or len(op.fields['inputs']) != 3:
      ctx.check(R, False, tg.node, tg, label, 'the operator or one of its operands disappeared')
      continue
    xi, wi, bi = op.fields['inputs']
    try:
      xs, ws, bs = vals(T[xi].fields['quantization'].fields['scale']), vals(T[wi].fields['quantization'].fields['scale']), vals(T[bi].fields['quantization'].fields['scale'])
      wz, bz = vals(T[wi].fields['quantization'].fields['zeroPoint']), vals(T[bi].fields['quantization'].fields['zeroPoint'])
    except (AttributeError, TypeError):
      ctx.check(R, False, tg.node, tg, label, 'not decided: scales of input / weight / bias are not folded')
      continue
    want_w = [max(0.0, 0.0, 1e-4) / 127, 5 / 127] if mode == 'srqc' else [5 / 127]
    close = lambda a, b: len(a) == len(b) and all(abs(x - y) <= 1e-9 * max(abs(y), 1e-30) for x, y in zip(a, b))
    ctx.check(R, close(ws, want_w) and all(z == 0 for z in wz), tg.node, tg, f'{label}: weight scale {ws}, zero point {wz}',
              f'the weight scale must be {want_w} (max(|min|, |max|, 1e-4) / 127 of the true range) with zero point 0 - whatever the bias needs')
    want_b = [xs[0] * w for w in ws] if len(ws) > 1 else [xs[0] * ws[0]] * len(bs)
    ctx.check(R, close(bs, want_b) and all(z == 0 for z in bz) and tv(T[bi].fields['type']) == TT['INT32'], tg.node, tg, f'{label}: bias scale {bs}',
              f'the bias must be INT32 with zero point 0 and scale input scale x weight scale = {want_b}')


# --------------------------------------- signatures through ModelModifier itself
def rule_signature_contract(ctx, R: str, large: bool = False):
  """C02, signature clause, through ModelModifier.modify_model (parse -> deep copy -> instructions -> rewrite ->
  signature update -> serialise): after quantization every signature input / output denotes the same tensor as the
  corresponding subgraph input / output, for one and two subgraphs, with the model outputs covered or not."""
  rs = ctx.rule(R, ('large-model path of modify_model (constants above the threshold): ' if large else 'through modify_model: ') +
                'every signature input / output is the corresponding subgraph input / output after the rewrite (one and two subgraphs)', floor=1)
  mm = ctx.repo.func('model_modifier:ModelModifier.modify_model')
  ctx.instance(R)
  A = ([('ax', 0), ('aw', 1, (2, 2)), ('ah', 0), ('aout', 0)], [('afc', 'fc', [0, 1], [2]), ('asm', 'sm', [2], [3])], [0], [3, 2])
  B = ([('bx', 0), ('bw', 1, (2, 2)), ('bout', 0)], [('bfc', 'fc', [0, 1], [2])], [0], [2])
  cases = [
      ('one subgraph, static range, model outputs float', [A], [('.*', '*', 'srq')]),
      ('one subgraph, only the FULLY_CONNECTED static', [A], [('.*', 'fc', 'srq')]),
      ('two subgraphs, static range', [A, B], [('.*', '*', 'srq')]),
      ('two subgraphs (other order), static range', [B, A], [('.*', '*', 'srq')]),
      ('two subgraphs, weight-only', [A, B], [('.*', 'fc', 'wonly')]),
  ]
  rs.exhaustive = True
  for cname, graphs, rules in cases:
    m, why = _pipeline_multi(ctx, R, graphs, rules, via_modifier='large' if large else True)
    label = f'case "{cname}"'
    if m is None:
      ctx.check(R, False, mm.node, mm, label, why)
      continue
    problems = []
    sigs = m.fields.get('signatureDefs') or []
    if len(sigs) != len(graphs):
      problems.append(f'{len(sigs)} signatures, expected {len(graphs)}')
    for sd in sigs:
      f = sd.fields
      gi = f['subgraphIndex']
      sg = m.fields['subgraphs'][gi]
      outs = [t.fields['tensorIndex'] for t in f['outputs']]
      ins = [t.fields['tensorIndex'] for t in f['inputs']]
      if outs != list(sg.fields['outputs']):
        problems.append(f'signature {f["signatureKey"]!r}: outputs denote tensors {outs}, the subgraph outputs are {sg.fields["outputs"]} (a signature runner returns a stale tensor)')
      if ins != list(sg.fields['inputs']):
        problems.append(f'signature {f["signatureKey"]!r}: inputs denote tensors {ins}, the subgraph inputs are {sg.fields["inputs"]}')
      if [t.fields['name'] for t in f['outputs']] != [f'out{k}'.encode() for k in range(len(outs))] or f['signatureKey'] != f's{gi}'.encode():
        problems.append(f'signature {f["signatureKey"]!r}: key or argument names changed')
    ctx.check(R, not problems, mm.node, mm, label, '; '.join(problems[:3]))


# ------------------------------ fixed-range producers feeding a scale-imposing consumer
def rule_fixed_range_pipeline(ctx, R: str):
  """SOFTMAX / LOGISTIC / TANH write with parameters that are hard-coded in their kernels. When the only reader
  imposes other parameters on the same tensor (a CONCATENATION that shares its output scale with a wide-range second
  input), the quantized graph must still give the fixed-range operator an output tensor with the kernel's parameters -
  a requantize goes in between; storing the tensor with the reader's parameters makes the runtime reject the model."""
  from sa import consteval  # pylint: disable=g-import-not-at-top
  from sa.consteval import Ext  # pylint: disable=g-import-not-at-top
  from sa.ndarr import NdArr  # pylint: disable=g-import-not-at-top
  rs = ctx.rule(R, 'a fixed-range operator (SOFTMAX / LOGISTIC / TANH) keeps the kernel\'s output parameters when its only reader imposes others (whole pipeline, static range)', floor=1)
  tg = ctx.repo.func('transformation_performer:TransformationPerformer.transform_graph')
  ctx.instance(R)
  TT = consteval.schema_enum('TensorType')
  tv = lambda t: t.value if isinstance(t, Ext) else t
  vals = lambda x: [float(v) for v in (x.data if isinstance(x, NdArr) else (x if isinstance(x, (list, tuple)) else [x]))]
  rs.exhaustive = True
  for opname in ('SOFTMAX', 'LOGISTIC', 'TANH'):
    g = ([('x', 0), ('s', 0), ('b', 0), ('out', 0, (1, 4))], [(opname, opname, [0], [1]), ('CONCATENATION', 'CONCATENATION', [1, 2], [3])], [0, 2], [3])
    wide = {'content': lambda n, k: NdArr((1, 2), [40 * k, -60 * k], 'f') if n in ('b', 'out') else (NdArr((1, 2), [0.25, 0.75], 'f') if n == 's' else None)}
    m, why = _pipeline_multi(ctx, R, [g], [('.*', '*', 'srq')], data=wide)
    label = f'{opname} -> CONCATENATION(s, b) with a wide-range b, everything static range'
    if m is None:
      ctx.check(R, False, tg.node, tg, label, why)
      continue
    sg = m.fields['subgraphs'][0]
    T, O = sg.fields['tensors'], sg.fields['operators']
    op = next((o for o in O if o.fields['label'] == opname), None)
    cat = next((o for o in O if o.fields['label'] == 'CONCATENATION'), None)
    if op is None or cat is None:
      ctx.check(R, False, tg.node, tg, label, 'an operator disappeared')
      continue
    out_t = T[op.fields['outputs'][0]]
    q = out_t.fields['quantization']
    want = oracles.FIXED_PARAMS[(opname, 8)]
    try:
      sc, zp = vals(q.fields['scale']), vals(q.fields['zeroPoint'])
    except (AttributeError, TypeError):
      ctx.check(R, False, tg.node, tg, label, f'not decided: parameters of {out_t.fields["name"]} are not folded ({q!r})')
      continue
    ok = tv(out_t.fields['type']) == TT['INT8'] and len(sc) == 1 and abs(sc[0] - want[0]) < 1e-12 and zp == [float(want[1])]
    ctx.check(R, ok, tg.node, tg, f'{label}: {opname} writes {out_t.fields["name"]} with scale {sc}, zero point {zp}',
              f'the kernel of {opname} only produces scale {want[0]}, zero point {want[1]}: its output tensor must carry exactly these parameters (the runtime refuses the model otherwise)')
    # the CONCATENATION reads INT8 tensors that all carry ITS output parameters, and everything is produced before it is read
    cq = T[cat.fields['outputs'][0]].fields['quantization']
    for k_ in cat.fields['inputs']:
      iq = T[k_].fields['quantization']
      same = iq is not None and cq is not None and vals(iq.fields['scale']) == vals(cq.fields['scale']) and vals(iq.fields['zeroPoint']) == vals(cq.fields['zeroPoint'])
      ctx.check(R, tv(T[k_].fields['type']) == TT['INT8'] and same, tg.node, tg, f'{label}: CONCATENATION reads {T[k_].fields["name"]}',
                'every input of a CONCATENATION must be INT8 with the parameters of its output (a requantize is needed in front of it)')
    produced = set(sg.fields['inputs']) | {i for i, t in enumerate(T) if isinstance(t.fields['buffer'], int) and t.fields['buffer'] != 0 and m.fields['buffers'][t.fields['buffer']].fields['data'] is not None}
    order_ok = True
    for o in O:
      if any(x != -1 and x not in produced for x in o.fields['inputs']):
        order_ok = False
      produced.update(o.fields['outputs'])
    ctx.check(R, order_ok, tg.node, tg, f'{label}: execution order', 'an operator reads a tensor before it is produced')


# ------------------------------------------- tied constants through the pipeline
def rule_shared_constant_pipeline(ctx, R: str):
  """C15 on label models: constants that share one buffer (two tensors of one
  subgraph, one tensor read by several operators, the same weights in two
  subgraphs) go through the whole pipeline under recipes that give the sharers
  equal, different or no quantization. Either a stage refuses (allowed), or in
  the result: the graph is executable (operands produced before they are read,
  one producer per tensor); all tensors on one buffer have one dtype and one set
  of parameters; a buffer holds rewritten bytes iff its tensors are integer
  typed; an operator that computes in float (weight-only, not selected) reads a
  FLOAT32 weight, a dynamic- / static-range operator reads an INT8 constant."""
  from sa import consteval  # pylint: disable=g-import-not-at-top
  from sa.consteval import Ext  # pylint: disable=g-import-not-at-top
  from sa.ndarr import NdArr  # pylint: disable=g-import-not-at-top
  rs = ctx.rule(R, 'tied constants through the whole pipeline: refused, or executable graph, sharers agree on dtype / parameters / bytes, float consumers read float, integer consumers read INT8', floor=1)
  tg = ctx.repo.func('transformation_performer:TransformationPerformer.transform_graph')
  ctx.instance(R)
  TT = consteval.schema_enum('TensorType')
  F32, I8 = TT['FLOAT32'], TT['INT8']
  tv = lambda t: t.value if isinstance(t, Ext) else t
  tied = ([('x', 0), ('wa', 1, (2, 2)), ('h1', 0), ('wb', 1, (2, 2), 'wa'), ('h2', 0), ('out', 0)],
          [('fc1', 'fc', [0, 1], [2]), ('fc2', 'fc', [2, 3], [4]), ('fc3', 'fc', [4, 1], [5])], [0], [5])
  gA = ([('ax', 0), ('aw', 1, (2, 2)), ('aout', 0)], [('afc', 'fc', [0, 1], [2])], [0], [2])
  gB = ([('bx', 0), ('bh', 0), ('bw', 1, (2, 2), 'aw'), ('bout', 0)], [('babs', 'abs', [0], [1]), ('bfc', 'fc', [1, 2], [3])], [0], [3])
  cases = [
      ('one subgraph, all weight-only', [tied], [('.*', 'fc', 'wonly')], {'fc1': 'wonly', 'fc2': 'wonly', 'fc3': 'wonly'}),
      ('one subgraph, all dynamic-range', [tied], [('.*', 'fc', 'drq')], {'fc1': 'drq', 'fc2': 'drq', 'fc3': 'drq'}),
      ('one subgraph, all static-range', [tied], [('.*', 'fc', 'srq')], {'fc1': 'srq', 'fc2': 'srq', 'fc3': 'srq'}),
      ('one subgraph, first dynamic-range, the others weight-only', [tied], [('h1;', 'fc', 'drq'), ('h2;|out;', 'fc', 'wonly')], {'fc1': 'drq', 'fc2': 'wonly', 'fc3': 'wonly'}),
      ('one subgraph, first weight-only, the others dynamic-range', [tied], [('h1;', 'fc', 'wonly'), ('h2;|out;', 'fc', 'drq')], {'fc1': 'wonly', 'fc2': 'drq', 'fc3': 'drq'}),
      ('one subgraph, middle weight-only, the others dynamic-range', [tied], [('h2;', 'fc', 'wonly'), ('h1;|out;', 'fc', 'drq')], {'fc1': 'drq', 'fc2': 'wonly', 'fc3': 'drq'}),
      ('one subgraph, first not selected, the others weight-only', [tied], [('h2;|out;', 'fc', 'wonly')], {'fc1': None, 'fc2': 'wonly', 'fc3': 'wonly'}),
      ('one subgraph, last not selected, the others dynamic-range', [tied], [('h1;|h2;', 'fc', 'drq')], {'fc1': 'drq', 'fc2': 'drq', 'fc3': None}),
      ('two subgraphs, all weight-only', [gA, gB], [('.*', 'fc', 'wonly')], {'afc': 'wonly', 'bfc': 'wonly'}),
      ('two subgraphs, dynamic-range and weight-only', [gA, gB], [('aout;', 'fc', 'drq'), ('bout;', 'fc', 'wonly')], {'afc': 'drq', 'bfc': 'wonly'}),
      ('two subgraphs (other order), weight-only and dynamic-range', [gB, gA], [('aout;', 'fc', 'drq'), ('bout;', 'fc', 'wonly')], {'afc': 'drq', 'bfc': 'wonly'}),
      ('two subgraphs, only the second selected', [gA, gB], [('bout;', 'fc', 'drq')], {'afc': None, 'bfc': 'drq'}),
  ]
  rs.exhaustive = True
  refused = []
  for cname, graphs, rules, modes in cases:
    m, why = _pipeline_multi(ctx, R, graphs, rules)
    label = f'case "{cname}"'
    if m is None:
      ctx.check(R, why.startswith('refused'), tg.node, tg, label, why)   # a refusal is what the property allows
      if why.startswith('refused'):
        refused.append(cname)
      continue
    problems = []
    bufs = m.fields['buffers']
    if bufs and bufs[0].fields['data'] is not None:
      problems.append('buffer 0 (the empty buffer every activation points at) now holds data')
    by_buffer = {}
    for gi, sg in enumerate(m.fields['subgraphs']):
      T, O = sg.fields['tensors'], sg.fields['operators']
      tensors, ops, gin, gout = graphs[gi]
      produced = set(sg.fields['inputs'])
      for i, t in enumerate(T):
        b = t.fields['buffer']
        if isinstance(b, int) and b != 0 and 0 <= b < len(bufs) and bufs[b].fields['data'] is not None:
          produced.add(i)
          by_buffer.setdefault(b, []).append((gi, i, t))
      seen_out = set()
      for k, op in enumerate(O):
        f = op.fields
        if not isinstance(f['inputs'], list) or not isinstance(f['outputs'], list):
          problems.append(f'subgraph {gi}: operator {k} has unfolded operands')
          continue
        for x in f['inputs']:
          if x != -1 and not (isinstance(x, int) and 0 <= x < len(T)):
            problems.append(f'subgraph {gi}: operator {k} reads tensor {x!r}, which does not exist')
          elif x != -1 and x not in produced:
            problems.append(f'subgraph {gi}: operator {k} ({f["label"] or "new"}) reads {T[x].fields["name"]} before it is produced')
        for x in f['outputs']:
          if x in seen_out:
            problems.append(f'subgraph {gi}: tensor {T[x].fields["name"]} has two producers')
          seen_out.add(x)
          produced.add(x)
      for lab, kind, ins, outs in [o[:4] for o in ops]:
        if kind != 'fc':
          continue
        cur = next((q for q in O if q.fields['label'] == lab), None)
        if cur is None:
          problems.append(f'subgraph {gi}: operator {lab} disappeared')
          continue
        wt = T[cur.fields['inputs'][1]]
        ty = tv(wt.fields['type'])
        md = modes.get(lab)
        if md in ('wonly', None) and ty != F32:
          problems.append(f'{lab} computes in float ({md or "not selected"}) but reads its weight {wt.fields["name"]} as type {ty}: a float consumer reads integer bytes')
        if md in ('drq', 'srq') and ty != I8:
          problems.append(f'{lab} ({md}) reads its weight {wt.fields["name"]} as type {ty}, expected an INT8 constant')
    for b, users in by_buffer.items():
      data = bufs[b].fields['data']
      rewritten = not (isinstance(data, str) and data.startswith('float-bytes'))
      sig = set()
      for gi, i, t in users:
        q = t.fields['quantization']
        ty = tv(t.fields['type'])
        num = lambda x: tuple(round(float(v), 12) for v in (x.data if isinstance(x, NdArr) else x)) if isinstance(x, (NdArr, list)) else x
        sig.add((ty, None if q is None else (num(q.fields['scale']), num(q.fields['zeroPoint']))))
        if (ty != F32) != rewritten:
          problems.append(f'tensor {t.fields["name"]} has type {ty} but its buffer {b} holds {"quantized" if rewritten else "float"} bytes')
      if len(sig) > 1:
        problems.append(f'the tensors on buffer {b} ({[u[2].fields["name"] for u in users]}) disagree on dtype / parameters: {sorted(map(str, sig))}')
    ctx.check(R, not problems, tg.node, tg, f'{label}: operators {[[(o.fields["label"] or "new") for o in sg.fields["operators"]] for sg in m.fields["subgraphs"]]}', '; '.join(problems[:3]))
  ctx.sample(R, {'cases': [c[0] for c in cases], 'refused (allowed)': refused})


# ------------------------------------------------------- error discipline
SWALLOW_ALLOWED = {
    # (the ONLY repository call a handler guards, exception type): why swallowing its refusal is the documented behaviour.
    # Keyed by what is guarded, not by where the handler stands: the handler may live in an extracted helper.
    ('check_op_quantization_config', 'ValueError'): 'a rule whose config the op does not support does not apply (what resolution then returns is decided by the tables C11.R2 / C13.R6)',
    ('get_tensor_data', 'ValueError'): 'tensors the interpreter cannot return (no data) are not constants',
}


def rule_no_swallowed_errors(ctx, R: str):
  """Every rejection in the pipeline is a raised error (missing statistics,
  unsupported config, invalid instructions ...). A handler that catches one and
  carries on turns "the request is refused" into "the request is silently
  changed". In the call tree of the public API only the two documented skips may
  swallow; every other handler must re-raise on all its paths."""
  rs = ctx.rule(R, 'no exception is swallowed in the call tree of the public API (two documented skips excepted): a refusal is never turned into a silent downgrade', floor=2)
  cg = callgraph.get(ctx)
  q = ctx.repo.cls('quantizer:Quantizer')
  roots = [m.fq for n, m in q.methods.items() if not n.startswith('_')]
  seen_allowed = set()
  for fq in sorted(cg.reachable(roots)):
    f = ctx.repo.func(fq)
    for n in common.walk_no_nested(f.node):
      if not isinstance(n, ast.Try):
        continue
      for h in n.handlers:
        ctx.instance(R)
        ty = ast.unparse(h.type) if h.type is not None else 'BaseException'
        g = cfgmod.build(ast.FunctionDef(name='h', args=ast.arguments(posonlyargs=[], args=[], kwonlyargs=[], kw_defaults=[], defaults=[]), body=h.body, decorator_list=[], lineno=h.lineno, col_offset=0))
        # a handler re-raises iff its normal exit is unreachable without passing a raise
        normal_exit = g.exit.id in g.reachable([g.entry.id], blocked={x.id for x in g.nodes if isinstance(getattr(x, 'ast', None), ast.Raise)})
        leaves_loop = any(isinstance(x, (ast.Continue, ast.Break, ast.Return)) for st in h.body for x in ast.walk(st))
        swallows = normal_exit or leaves_loop
        tried = sorted({common.call_name(c) for st in n.body for c in common.calls_in(st)})[:4]
        # the calls of the try body that lead into repository code which can raise
        guarded_names = set()
        for s in cg.sites.get(fq, []):
          if any(s.node is c for st in n.body for c in common.calls_in(st)) and s.callees:
            if any(any(isinstance(x, ast.Raise) for x in common.walk_no_nested(ctx.repo.func(sub).node)) for cal_ in s.callees for sub in cg.reachable([cal_.fq])):
              guarded_names.add(common.call_name(s.node).split('.')[-1])
        only = next(iter(guarded_names)) if len(guarded_names) == 1 else None
        key = (only, ty.split('.')[-1])
        if swallows and only is None and not guarded_names:
          # no repository callee that raises: e.g. the interpreter's own get_tensor refusing (external)
          ext = {x.split('.')[-1] for x in tried}
          key = next(((k, ty.split('.')[-1]) for k in ext if (k, ty.split('.')[-1]) in SWALLOW_ALLOWED), key)
        if swallows and key in SWALLOW_ALLOWED:
          seen_allowed.add(key)
          ctx.check(R, True, h, f, f'{ty}: {SWALLOW_ALLOWED[key]}', '')
          continue
        # only handlers around repository code that can refuse (an explicit raise somewhere below the guarded calls, or a registry / function-valued call)
        guarded = False
        for s in cg.sites.get(fq, []):
          if any(s.node is c for st in n.body for c in common.calls_in(st)):
            if not s.callees and isinstance(s.node.func, ast.Name) and (
                s.node.func.id in defuse.own_assignments(f.node) or s.node.func.id in [p.lstrip('*') for p in f.params]):
              guarded = True   # call through a local function value (e.g. a registered materialiser)
            for callee in s.callees:
              for sub_fq in cg.reachable([callee.fq]):
                if any(isinstance(x, ast.Raise) for x in common.walk_no_nested(ctx.repo.func(sub_fq).node)):
                  guarded = True
                  break
        if not guarded:
          ctx.check(R, True, h, f, f'except {ty}: guards no repository code that raises', '')
          continue
        ctx.check(R, not swallows, h, f, f'except {ty} around {tried}',
                  f'{f.name} catches {ty} raised by {tried} and carries on: what the pipeline refuses (missing statistics, unsupported config) is silently turned into another result')
  if len(seen_allowed) < 2:
    raise index.AnalysisError(f'{R}: the documented skip handlers were not found ({sorted(seen_allowed)})')


# ------------------------------------------------ per-operator sweep (README table)
from sa.absint import Opaque as absint_Opaque  # pylint: disable=g-import-not-at-top,g-bad-import-order


def rule_operator_sweep(ctx, R: str):
  """Every operator of the README coverage table, alone in a minimal graph with
  the operand layout of the TFLite schema (weights, bias, int32 shape / axis /
  index operands), pushed through the whole pipeline under a `*` rule of each
  mode. Whether the mode applies to the operator is taken from the policy
  check (C13 decides that check against the policy text). Oracle: no stage
  raises; a selected operator's float activations become INT8 (static range) or
  stay float (dynamic range / weight-only); its weight becomes an INT8 constant
  (read through a DEQUANTIZE when weight-only); a static-range bias becomes an
  INT32 constant; int32 operands are never touched; an operator the mode does
  not apply to stays float."""
  from sa import consteval  # pylint: disable=g-import-not-at-top
  from sa.consteval import Ext  # pylint: disable=g-import-not-at-top
  from sa.rules import c11  # pylint: disable=g-import-not-at-top
  rs = ctx.rule(R, 'every README operator x {static, dynamic, weight-only} * rule: the pipeline raises nothing and the operator ends up typed as its mode requires (int32 operands untouched, bias INT32)', floor=15)
  tg = ctx.repo.func('transformation_performer:TransformationPerformer.transform_graph')
  TT = consteval.schema_enum('TensorType')
  F32, I8, I32 = TT['FLOAT32'], TT['INT8'], TT['INT32']
  OP, ALG, drq, srq, bad = c11._domain(ctx)  # pylint: disable=protected-access
  MM = ALG['MIN_MAX_UNIFORM_QUANT']
  CP = {e.name: e for e in tables.enum(ctx, 'qtyping:ComputePrecision')}
  wonly = tables.construct(ctx, common.OPCFG, weight_tensor_config=tables.tensor_config(ctx, num_bits=8), compute_precision=CP['FLOAT'], explicit_dequantize=True)
  CFG = {'srq': srq, 'drq': drq, 'wonly': wonly}
  X, Y, O = ('x', 0), ('y', 0), ('out', 0)
  unary = lambda k: ([X, O], [(k, k, [0], [1])], [0], [1])
  binary = lambda k, opts=None: ([X, Y, O], [(k, k, [0, 1], [2]) + ((opts,) if opts else ())], [0, 1], [2])
  graphs = {
      'FULLY_CONNECTED': ([X, ('w', 1, (2, 2)), ('b', 1, (2,)), O], [('FULLY_CONNECTED', 'FULLY_CONNECTED', [0, 1, 2], [3])], [0], [3]),
      'CONV_2D': ([('x', 0, (1, 2, 2, 1)), ('w', 1, (2, 1, 1, 1)), ('b', 1, (2,)), ('out', 0, (1, 2, 2, 2))], [('CONV_2D', 'CONV_2D', [0, 1, 2], [3])], [0], [3]),
      'DEPTHWISE_CONV_2D': ([('x', 0, (1, 2, 2, 2)), ('w', 1, (1, 1, 1, 2)), ('b', 1, (2,)), ('out', 0, (1, 2, 2, 2))], [('DEPTHWISE_CONV_2D', 'DEPTHWISE_CONV_2D', [0, 1, 2], [3])], [0], [3]),
      'CONV_2D_TRANSPOSE': ([('s', 'i', (4,)), ('w', 1, (2, 1, 1, 1)), ('x', 0, (1, 2, 2, 1)), ('b', 1, (2,)), ('out', 0, (1, 2, 2, 2))], [('CONV_2D_TRANSPOSE', 'CONV_2D_TRANSPOSE', [0, 1, 2, 3], [4])], [2], [4]),
      'EMBEDDING_LOOKUP': ([('ids', 'r', (2,)), ('w', 1, (4, 2)), O], [('EMBEDDING_LOOKUP', 'EMBEDDING_LOOKUP', [0, 1], [2])], [0], [2]),
      'BATCH_MATMUL': binary('BATCH_MATMUL', {'adjX': False, 'adjY': False}),
      'BATCH_MATMUL (constant rhs)': ([X, ('w', 1, (2, 2)), O], [('BATCH_MATMUL', 'BATCH_MATMUL', [0, 1], [2], {'adjX': False, 'adjY': False})], [0], [2]),
      'RESHAPE': ([X, ('shape', 'i', (2,)), O], [('RESHAPE', 'RESHAPE', [0, 1], [2])], [0], [2]),
      'TRANSPOSE': ([X, ('perm', 'i', (2,)), O], [('TRANSPOSE', 'TRANSPOSE', [0, 1], [2])], [0], [2]),
      'MEAN': ([X, ('axis', 'i', (1,)), O], [('MEAN', 'MEAN', [0, 1], [2])], [0], [2]),
      'STRIDED_SLICE': ([X, ('b', 'i', (2,)), ('e', 'i', (2,)), ('st', 'i', (2,)), O], [('STRIDED_SLICE', 'STRIDED_SLICE', [0, 1, 2, 3], [4])], [0], [4]),
      'SPLIT': ([('axis', 'i', ()), X, ('o1', 0), ('o2', 0)], [('SPLIT', 'SPLIT', [0, 1], [2, 3])], [1], [2, 3]),
      'CONCATENATION': binary('CONCATENATION'),
  }
  for k in ('AVERAGE_POOL_2D', 'SOFTMAX', 'TANH', 'LOGISTIC', 'GELU', 'RSQRT'):
    graphs[k] = unary(k)
  for k in ('ADD', 'SUB', 'MUL'):
    graphs[k] = binary(k)
  graphs['MUL (the same tensor twice)'] = ([X, O], [('MUL', 'MUL', [0, 0], [1])], [0], [1])
  graphs['FULLY_CONNECTED feeding both operands of an unselected MUL'] = ([X, ('w', 1, (2, 2)), Y, O], [('FULLY_CONNECTED', 'FULLY_CONNECTED', [0, 1], [2]), ('MUL', 'MUL', [2, 2], [3])], [0], [3])
  missing = [o for o in oracles.SUPPORTED_OPS if o not in graphs]
  if missing:
    raise index.AnalysisError(f'{R}: no minimal graph for README operators {missing}')
  tval = lambda t: t.value if isinstance(t, Ext) else t
  rs.exhaustive = True
  for gname, g in graphs.items():
    opname = g[1][0][1]
    if opname not in OP:
      raise index.AnalysisError(f'{R}: operator {opname} of the README table is not a TFLOperationName member')
    ctx.instance(R)
    for mode in ('srq', 'srqc', 'drq', 'wonly'):
      if mode == 'srqc' and opname not in oracles.WEIGHT_QUANTIZED_DIM:
        continue
      applies, _ = tables.accepts(ctx, MM, OP[opname], CFG['srq' if mode == 'srqc' else mode])
      label = f'{gname}, * rule {mode}' + ('' if applies else ' (not supported for this operator: must stay float)')
      m, why = _pipeline_multi(ctx, R, [g], [('.*', opname, mode)])
      if m is None:
        ctx.check(R, False, tg.node, tg, label, f'the pipeline fails for a README operator under a {mode} rule: {why}')
        continue
      sg = m.fields['subgraphs'][0]
      T = sg.fields['tensors']
      tensors = g[0]
      problems = []
      op = next((o for o in sg.fields['operators'] if o.fields['label'] == opname), None)
      if op is None:
        ctx.check(R, False, tg.node, tg, label, 'the operator disappeared from the graph')
        continue
      md = ('srq' if mode == 'srqc' else mode) if applies else None
      bad_idx = [x for x in list(op.fields['inputs']) + list(op.fields['outputs']) + list(sg.fields['inputs']) + list(sg.fields['outputs']) if x != -1 and not (isinstance(x, int) and 0 <= x < len(T))]
      if bad_idx:
        ctx.check(R, False, tg.node, tg, label, f'the graph refers to tensors {bad_idx} that do not exist')
        continue
      for orig_t, cur_t in zip(g[1][0][2], op.fields['inputs']):
        spec = tensors[orig_t]
        kind = spec[1]
        ty = tval(T[cur_t].fields['type'])
        nm = T[cur_t].fields['name']
        if kind in ('i', 'r'):
          if cur_t != orig_t or ty != I32 or T[cur_t].fields['quantization'] is not None:
            problems.append(f'int32 operand {nm} was touched (type {ty})')
        elif kind == 1:
          is_bias = spec[0] == 'b'
          if md == 'srq':
            want = I32 if is_bias else I8
            if ty != want or T[cur_t].fields['quantization'] is None:
              problems.append(f'{"bias" if is_bias else "weight"} {nm} has type {ty}, expected {want} with parameters')
          elif md == 'drq':
            if is_bias:
              if ty != F32:
                problems.append(f'bias {nm} has type {ty} under dynamic range, expected float')
            elif ty != I8:
              problems.append(f'weight {nm} has type {ty} under dynamic range, expected INT8')
          elif md == 'wonly':
            if is_bias:
              if ty != F32:
                problems.append(f'bias {nm} has type {ty} under weight-only, expected float')
            else:
              src = next((q for q in sg.fields['operators'] if cur_t in q.fields['outputs']), None)
              if not (ty == F32 and src is not None and src.fields['label'] is None and tval(T[src.fields['inputs'][0]].fields['type']) == I8):
                problems.append(f'weight {nm} must be read through a DEQUANTIZE of an INT8 constant (type {ty})')
          elif ty != F32 or T[cur_t].fields['quantization'] is not None:
            problems.append(f'constant {nm} has type {ty} although the mode does not apply')
        else:
          want = I8 if md == 'srq' else F32
          if ty != want:
            problems.append(f'activation input {nm} has type {ty}, expected {want}')
      for cur_t in op.fields['outputs']:
        want = I8 if md == 'srq' else F32
        if tval(T[cur_t].fields['type']) != want:
          problems.append(f'output {T[cur_t].fields["name"]} has type {tval(T[cur_t].fields["type"])}, expected {want}')
      for t in list(sg.fields['inputs']) + list(sg.fields['outputs']):
        spec_kind = next((s[1] for s in tensors if s[0].encode() == T[t].fields['name']), 0)
        if spec_kind in (0,) and tval(T[t].fields['type']) != F32:
          problems.append(f'graph input/output {T[t].fields["name"]} is not float although INPUT / OUTPUT is not selected')
      # every other operator of the graph is not selected: it reads float tensors on every operand occurrence
      for other in sg.fields['operators']:
        if other.fields['label'] in (None, opname):
          continue
        for k_ in other.fields['inputs']:
          if k_ != -1 and tval(T[k_].fields['type']) != F32:
            problems.append(f'unselected operator {other.fields["label"]} reads {T[k_].fields["name"]} of type {tval(T[k_].fields["type"])}')
      # the shared empty buffer stays empty; per-channel weights are annotated along the operator's channel dimension;
      # a static-range bias is quantized with input scale x weight scale (per channel)
      b0 = m.fields['buffers'][0].fields['data'] if m.fields['buffers'] else None
      if b0 is not None:
        problems.append('buffer 0 (the empty buffer every activation points at) now holds data')
      if md == 'srq':
        from sa.ndarr import NdArr  # pylint: disable=g-import-not-at-top
        vals = lambda x: [float(v) for v in (x.data if isinstance(x, NdArr) else (x if isinstance(x, (list, tuple)) else [x]))]
        q_of = lambda k: T[k].fields['quantization']
        ins = op.fields['inputs']
        roles = {tensors[o][0]: c for o, c in zip(g[1][0][2], ins)}
        wq = q_of(roles['w']) if 'w' in roles else None
        if mode == 'srqc' and wq is not None:
          dim = oracles.WEIGHT_QUANTIZED_DIM[opname]
          n_ch = T[roles['w']].fields['shape'][dim] if isinstance(T[roles['w']].fields['shape'], (list, tuple)) else None
          sc = wq.fields['scale']
          if isinstance(sc, absint_Opaque):
            problems.append('weight scale not decided')
          elif len(vals(sc)) != n_ch or wq.fields['quantizedDimension'] != dim:
            problems.append(f'per-channel weight: {len(vals(sc))} scales along dimension {wq.fields["quantizedDimension"]!r}; expected {n_ch} scales along dimension {dim}')
        if 'b' in roles and wq is not None and q_of(roles['b']) is not None:
          act = next((c for o, c in zip(g[1][0][2], ins) if tensors[o][1] == 0), None)
          aq = q_of(act) if act is not None else None
          try:
            a_s, w_s, b_s = vals(aq.fields['scale']), vals(wq.fields['scale']), vals(q_of(roles['b']).fields['scale'])
            want_b = [a_s[0] * w for w in w_s]
            if len(want_b) == 1 and len(b_s) > 1:
              want_b = want_b * len(b_s)
            if len(b_s) != len(want_b) or any(abs(x - y) > 1e-9 * max(abs(y), 1e-30) for x, y in zip(b_s, want_b)):
              problems.append(f'bias scale {b_s} is not input scale x weight scale {want_b}')
          except (AttributeError, TypeError, IndexError):
            problems.append('bias / weight / input scales not decided')
      ctx.check(R, not problems, tg.node, tg, label, '; '.join(problems[:3]))
