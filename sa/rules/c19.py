"""C19 - each subgraph of a multi-signature model is transformed as if it stood alone."""
from __future__ import annotations

import ast

from sa import callgraph
from sa import cfg as cfgmod
from sa import defuse
from sa import index
from sa import tables
from sa.rules import common
from sa.rules import shared
from sa.rules import c01

EXPLANATION = (
    'Subgraph-relative identifiers (tensor ids, operator positions, op-id '
    'maps) are tracked through plan generation, instruction generation and '
    'the performer: every per-subgraph access uses the instruction\'s own '
    'subgraph id; per-subgraph containers are created per subgraph and reset '
    'per call; no container keyed by a subgraph-relative id accumulates over '
    'a loop over subgraphs; inside `for subgraph in ...subgraphs` loops every '
    'tensor/operator access is on the loop variable; only model-wide tables '
    '(buffers, operator codes, tensor names) are shared. The graph-info '
    'generator and the performer\'s id translation are decided as tables for '
    'subgraph ids 0 and 3 / 1 (ids must come from, and maps be indexed by, the '
    'subgraph at hand).'
)
LEVEL_TEXT = (
    'Decides index coherence for all models with any number of subgraphs: a '
    'tensor id or operator position obtained in one subgraph can never be '
    'used to address another subgraph\'s lists. The suite has a single '
    'two-signature fixture and no multi-subgraph transformation test. '
    'Equality with stand-alone quantization of each subgraph is not decided.'
    ' Shared tables are append-only in every transformation; graph info, bookkeeping and rewrite are tabled on models with two or three differently laid out subgraphs (one operator next to five); on label models every subgraph is pushed through the whole pipeline alone and in company and must come out the same, also with blockwise operator replacement.'
)
LEVEL_NOTE = (
    'Trusted: sa def-use engine; the convention that tensor ids / op ids are '
    'subgraph-relative while buffers, operator codes and tensor names are '
    'model-wide.'
)
TECHNIQUE = 'def-use origin / index-coherence rules over loops on ast + frame rule (shared tables append-only) + multi-subgraph tables and simulations (abstract interpretation) (static)'

PERF = 'transformation_performer:TransformationPerformer'
TIG = 'transformation_instruction_generator:TransformationInstructionsGenerator'
PER_SUBGRAPH = ('_original_op_id_map', '_added_op_id_map', 'subgraphs')
LOCAL_ID_SOURCES = ('.outputs', '.inputs', '.tensors', '.operators')


class _Ctor:
  sa_hook = True

  def __init__(self, cls, names):
    self.cls, self.names = cls, names

  def __call__(self, args, kwargs):
    from sa.consteval import Obj  # pylint: disable=g-import-not-at-top
    d = dict(zip(self.names, args))
    d.update(kwargs)
    return Obj(self.cls, d)


def _graph_info_entry_table(ctx, R, ci, names):
  """_create_tensor_name_to_graph_info_map on models with several subgraphs of
  DIFFERENT layouts: every tensor name maps to (own id, own subgraph, the
  producer / consumers within its own subgraph)."""
  from sa.consteval import Obj  # pylint: disable=g-import-not-at-top
  it = tables.interp(ctx)
  mp = ctx.repo.func(f'{TIG}._create_tensor_name_to_graph_info_map')
  models = [
      [([([0, 1], [2]), ([2, 3], [4])], [4], 5)],
      [([([0, 1], [2]), ([2, 3], [4]), ([2], [5])], [2, 5], 6), ([([0], [1])], [1, 0], 2)],
      [([([0], [3]), ([3, 1], [2])], [2], 4), ([([0, 1], [2]), ([2, 2], [3]), ([3], [1])], [3], 4), ([], [0], 1)],   # same ids, other producers
  ]
  for mi, sgspecs in enumerate(models):
    sgs = []
    for g, (ops, outs, nt) in enumerate(sgspecs):
      sgs.append(Obj('x:SubGraphT', {'tensors': [Obj('x:TensorT', {'name': f'g{g}t{k}'.encode(), 'buffer': 0}) for k in range(nt)],
                                     'operators': [Obj('x:OperatorT', {'inputs': list(i), 'outputs': list(o)}) for i, o in ops],
                                     'outputs': list(outs), 'inputs': [0]}))
    selfo = Obj(TIG, {'TensorGraphInfo': _Ctor(ci.fq, names), 'flatbuffer_model': Obj('x:ModelT', {'subgraphs': sgs, 'buffers': []}), '_tensor_name_to_graph_info': {'stale': 1}})
    res = it.outcomes(mp, [selfo], copy_args=False)
    label = f'model {mi} ({len(sgspecs)} subgraphs)'
    info = selfo.fields.get('_tensor_name_to_graph_info')
    if len(res) != 1 or res[0].kind != 'return' or not isinstance(info, dict):
      ctx.check(R, False, mp.node, mp, label, f'not decided: {[o.short()[:100] for o in res]}')
      continue
    want_names = {f'g{g}t{k}' for g, (ops, outs, nt) in enumerate(sgspecs) for k in range(nt)}
    ctx.check(R, set(info) == want_names, mp.node, mp, f'{label}: names {sorted(info)}', 'the map must hold exactly the tensors of all subgraphs (and nothing from an earlier model)')
    for g, (ops, outs, nt) in enumerate(sgspecs):
      for k in range(nt):
        o = info.get(f'g{g}t{k}')
        if not isinstance(o, Obj):
          continue
        prod = next((oi for oi, (i, oo) in enumerate(ops) if k in oo), -1)
        cons = sorted([oi for oi, (i, oo) in enumerate(ops) if k in i] + ([-1] if k in outs else []))
        f = o.fields
        ok = f['tensor_id'] == k and f['subgraph_id'] == g and f['producer'] == prod and isinstance(f['consumers'], list) and sorted(f['consumers']) == cons
        ctx.check(R, ok, mp.node, mp, f'{label}: tensor {k} of subgraph {g} -> id {f["tensor_id"]}, subgraph {f["subgraph_id"]}, producer {f["producer"]}, consumers {f["consumers"]}',
                  f'expected id {k}, subgraph {g}, producer {prod}, consumers {cons}: graph info of a tensor must be computed within its own subgraph')


def _graph_info_table(ctx, R, gi):
  """Decision table of _tensor_info_generator on small subgraphs: every tensor
  gets (own id, given subgraph id, producing op or -1, one consumer entry per
  consuming op, -1 iff it is a subgraph output)."""
  from sa.consteval import Obj  # pylint: disable=g-import-not-at-top
  it = tables.interp(ctx)
  ci = ctx.repo.cls(f'{TIG}.TensorGraphInfo')
  names = [f.name for f in ci.fields]
  if names != ['tensor_id', 'subgraph_id', 'producer', 'consumers']:
    raise index.AnalysisError(f'{TIG}.TensorGraphInfo fields changed: {names}')
  _graph_info_entry_table(ctx, R, ci, names)
  if len(gi.pos_params) != 3:
    return  # the generator takes other arguments than (self, subgraph id, subgraph): only the entry-level table above applies
  graphs = [
      # (ops as (inputs, outputs), subgraph outputs, number of tensors)
      ([([0, 1], [2]), ([2, 3], [4])], [4], 5),
      ([([0, 1], [2]), ([2, 3], [4]), ([2], [5])], [2, 5], 6),          # intermediate that is also an output
      ([([0, -1, 1], [2]), ([2, 2], [3])], [3, 0], 4),                    # absent operand, same tensor twice, input as output
      ([], [0], 1),
  ]
  for sgid in (0, 3):
    for ops, outs, nt in graphs:
      sg = Obj('x:SubGraphT', {'tensors': [Obj('x:TensorT', {'name': f't{k}'.encode(), 'buffer': 0}) for k in range(nt)],
                               'operators': [Obj('x:OperatorT', {'inputs': list(i), 'outputs': list(o)}) for i, o in ops],
                               'outputs': list(outs), 'inputs': [0]})
      selfo = Obj(TIG, {'TensorGraphInfo': _Ctor(ci.fq, names)})
      res = it.outcomes(gi, [selfo, sgid, sg], copy_args=False)
      label = f'subgraph {sgid}: ops={ops} outputs={outs}'
      if len(res) != 1 or res[0].kind != 'return' or not isinstance(res[0].value, list) or len(res[0].value) != nt:
        ctx.check(R, False, gi.node, gi, label, f'not decided / wrong number of tensors: {[o.short() for o in res]}')
        continue
      for k, item in enumerate(res[0].value):
        name, info = item if isinstance(item, (tuple, list)) and len(item) == 2 else (None, None)
        if not isinstance(info, Obj):
          ctx.check(R, False, gi.node, gi, label, f'tensor {k}: no graph info yielded')
          continue
        prod = next((oi for oi, (i, o) in enumerate(ops) if k in o), -1)
        cons = sorted([oi for oi, (i, o) in enumerate(ops) if k in i] + ([-1] if k in outs else []))
        g = info.fields
        ctx.check(R, name == f't{k}' and g['tensor_id'] == k and g['subgraph_id'] == sgid, gi.node, gi, f'{label}: tensor {k} -> ({name}, id {g["tensor_id"]}, subgraph {g["subgraph_id"]})',
                  'graph info must record the tensor\'s own name, id and the id of the subgraph it was read from')
        ctx.check(R, g['producer'] == prod, gi.node, gi, f'{label}: tensor {k} producer {g["producer"]}', f'the producer of tensor {k} is operator {prod}')
        gc = g['consumers']
        ctx.check(R, isinstance(gc, list) and sorted(gc) == cons, gi.node, gi, f'{label}: tensor {k} consumers {gc}',
                  f'the consumers of tensor {k} are {cons} (-1 = the graph output)')


def _is_subgraph_id(ctx, cg, cls, f, e, depth):
  """Is expression `e` of method `f` the subgraph id of the instruction being applied? Accepted: `<x>.subgraph_id`; a
  parameter that every caller inside the class feeds with an accepted expression; a local assigned once from an accepted
  expression; the index of `for i, _ in enumerate(...)` (the creation loop over all subgraphs); for a 2-d table the first
  component of the index."""
  if depth > 4:
    return False
  if isinstance(e, ast.Tuple) and e.elts:
    e = e.elts[0]
  if isinstance(e, ast.Attribute):
    return e.attr == 'subgraph_id'
  if not isinstance(e, ast.Name):
    return False
  if e.id in f.pos_params:
    pos = f.pos_params.index(e.id) - (1 if f.is_method else 0)
    sites = [s for s in cg.callers.get(f.fq, []) if s.caller.cls is cls]
    if not sites:
      return False
    for site in sites:
      a = site.node.args[pos] if 0 <= pos < len(site.node.args) else next((k.value for k in site.node.keywords if k.arg == e.id), None)
      if a is None or not _is_subgraph_id(ctx, cg, cls, site.caller, a, depth + 1):
        return False
    return True
  for n in common.walk_no_nested(f.node):
    if isinstance(n, ast.For) and isinstance(n.iter, ast.Call) and common.call_name(n.iter) == 'enumerate' and isinstance(n.target, ast.Tuple) \
        and isinstance(n.target.elts[0], ast.Name) and n.target.elts[0].id == e.id:
      return True
  defs = [d for d in defuse.own_assignments(f.node).get(e.id, []) if d is not None]
  return len(defs) == 1 and _is_subgraph_id(ctx, cg, cls, f, defs[0], depth + 1)


def r1_performer_indices(ctx):
  R = 'C19.R1'
  ctx.rule(R, 'the performer addresses op-id maps and subgraphs with the instruction\'s own subgraph id', floor=4)
  cls = ctx.repo.cls(PERF)
  cg = callgraph.get(ctx)
  for name, f in cls.methods.items():
    subs = [n for n in common.walk_no_nested(f.node) if isinstance(n, ast.Subscript) and isinstance(n.value, ast.Attribute) and n.value.attr in PER_SUBGRAPH]
    if not subs:
      continue
    ctx.instance(R)
    for s in subs:
      idx = ast.unparse(s.slice)
      ok = _is_subgraph_id(ctx, cg, cls, f, s.slice, 0)
      ctx.check(R, ok, s, f, s, f'`{ast.unparse(s)}`: a per-subgraph table is indexed with `{idx}` instead of the subgraph id of the instruction being applied')
  # instructions carry the subgraph id of the tensor's own graph info
  f = ctx.repo.func(f'{TIG}._quant_params_to_transformation_insts')
  ctx.instance(R)
  ctor = [c for c in common.calls_in(f.node) if common.call_name(c).endswith('TensorTransformationInsts')]
  inl = defuse.Inliner(ctx.repo, max_depth=0)
  ok = len(ctor) == 1 and len(ctor[0].args) >= 2 and defuse.norm(inl.inline(f, ctor[0].args[1])) == 'self._tensor_name_to_graph_info[param.tensor_name].subgraph_id'
  ctx.check(R, ok, f.node, f, ctor[0] if ctor else 'TensorTransformationInsts(...)', 'the instructions of a tensor must carry the subgraph id recorded for that very tensor name')
  for c in common.calls_in(f.node):
    if common.call_name(c).endswith('TransformationInst'):
      args = [defuse.norm(inl.inline(f, a)) for a in c.args]
      ctx.check(R, len(args) >= 4 and args[1].endswith('[param.tensor_name].tensor_id') and args[2].endswith('[param.tensor_name].producer'), c, f, c,
                'tensor id and producer of an instruction must come from the graph info of the same tensor')
  gi = ctx.repo.func(f'{TIG}._tensor_info_generator')
  ctx.instance(R)
  _graph_info_table(ctx, R, gi)
  mp = ctx.repo.func(f'{TIG}._create_tensor_name_to_graph_info_map')
  loops = [n for n in common.walk_no_nested(mp.node) if isinstance(n, ast.For)]
  ok = bool(loops) and isinstance(loops[0].iter, ast.Call) and common.call_name(loops[0].iter) == 'enumerate' and ast.unparse(loops[0].iter.args[0]).endswith('.subgraphs')
  if ok:
    idx, sg = [e.id for e in loops[0].target.elts]
    calls = [c for c in common.calls_in(mp.node) if common.call_name(c).endswith('_tensor_info_generator')]
    ok = len(calls) == 1 and [ast.unparse(a) for a in calls[0].args] == [idx, sg]
  ctx.check(R, ok, mp.node, mp, 'enumerate(subgraphs) -> _tensor_info_generator(index, subgraph)', 'the subgraph index passed on must be the enumerating index of that subgraph')


def r5_loop_variable_coherence(ctx):
  R = 'C19.R5'
  ctx.rule(R, 'inside a loop over subgraphs every tensor/operator access is on the loop\'s own subgraph', floor=5)
  n_loops = 0
  for f in ctx.repo.all_functions():
    if f.module.short in ('utils.test_utils',):
      continue
    for l in [n for n in common.walk_no_nested(f.node) if isinstance(n, ast.For)]:
      it = l.iter
      base = it.args[0] if isinstance(it, ast.Call) and common.call_name(it) == 'enumerate' and it.args else it
      if not ast.unparse(base).endswith('.subgraphs'):
        continue
      var = None
      if isinstance(l.target, ast.Name):
        var = l.target.id
      elif isinstance(l.target, ast.Tuple) and isinstance(l.target.elts[-1], ast.Name):
        var = l.target.elts[-1].id
      if var is None:
        continue
      n_loops += 1
      ctx.instance(R)
      model = ast.unparse(base)[: -len('.subgraphs')]
      for n in ast.walk(ast.Module(body=l.body, type_ignores=[])):
        if isinstance(n, ast.Attribute) and n.attr in ('tensors', 'operators', 'inputs', 'outputs') and isinstance(n.value, (ast.Name, ast.Subscript, ast.Attribute)):
          b = ast.unparse(n.value)
          if b.endswith(']') and '.subgraphs[' in b:
            ctx.check(R, False, n, f, n, f'`{ast.unparse(n)}` addresses a fixed subgraph inside a loop over all subgraphs (loop variable is `{var}`)')
          elif 'subgraph' in b and b != var and not b.startswith(var + '.') and isinstance(n.value, ast.Name):
            ctx.check(R, False, n, f, n, f'`{ast.unparse(n)}` is not the loop\'s own subgraph `{var}`')
      # GraphInfo is rebuilt per subgraph from the loop variable
      for c in common.calls_in(ast.Module(body=l.body, type_ignores=[])):
        if common.call_name(c).endswith('GraphInfo'):
          a = [ast.unparse(x) for x in c.args]
          ctx.check(R, a[:1] == [f'{var}.tensors'] and a[1:2] == [f'{model}.buffers'], c, f, c, 'GraphInfo must pair the loop subgraph\'s tensors with the model-wide buffers')
      for n in common.walk_no_nested(f.node):
        if isinstance(n, ast.Assign) and isinstance(n.value, ast.Call) and common.call_name(n.value).endswith('GraphInfo') and any(k in ast.unparse(n.value) for k in ('.tensors',)):
          inside = any(x is n for x in ast.walk(l))
          if n.value.args and ast.unparse(n.value.args[0]).startswith(var + '.'):
            ctx.check(R, inside, n, f, n, 'GraphInfo built once outside the subgraph loop')
  if n_loops < 5:
    raise index.AnalysisError(f'{R}: only {n_loops} loops over subgraphs found')


def r7_no_cross_subgraph_id_containers(ctx):
  R = 'C19.R7'
  ctx.rule(R, 'no container keyed by a subgraph-relative id accumulates across a loop over subgraphs', floor=5)
  n_loops = 0
  for f in ctx.repo.all_functions():
    for l in [n for n in common.walk_no_nested(f.node) if isinstance(n, ast.For)]:
      it = l.iter
      srcs = []
      if isinstance(it, ast.Call) and common.call_name(it) in ('enumerate', 'zip'):
        srcs = [ast.unparse(a) for a in it.args]
      else:
        srcs = [ast.unparse(it)]
      if not any(s.endswith('.subgraphs') for s in srcs):
        continue
      n_loops += 1
      ctx.instance(R)
      names = defuse.own_assignments(f.node)
      body = ast.Module(body=l.body, type_ignores=[])
      for n in ast.walk(body):
        cont = None
        keyexpr = None
        if isinstance(n, ast.Assign) and isinstance(n.targets[0], ast.Subscript) and isinstance(n.targets[0].value, ast.Name):
          cont, keyexpr = n.targets[0].value.id, n.targets[0].slice
        elif isinstance(n, ast.Call) and isinstance(n.func, ast.Attribute) and n.func.attr in ('update', 'add', 'setdefault') and isinstance(n.func.value, ast.Name) and n.args:
          cont, keyexpr = n.func.value.id, n.args[0]
        if cont is None:
          continue
        defs = [d for d in names.get(cont, []) if d is not None]
        created_inside = any(isinstance(x, ast.Assign) and any(isinstance(t, ast.Name) and t.id == cont for t in x.targets) for x in ast.walk(body))
        if created_inside or not defs:
          continue
        ktxt = defuse.norm(defuse.Inliner(ctx.repo, max_depth=0).inline(f, keyexpr))
        local = any(s in ktxt for s in LOCAL_ID_SOURCES) or ktxt.endswith(('.outputs', '.inputs')) or 'tensor_id' in ktxt or 'op_id' in ktxt
        modelwide = '.buffer' in ktxt or 'name' in ktxt
        ctx.check(R, not local or modelwide, n, f, n,
                  f'`{cont}` is created outside the loop over subgraphs and keyed by `{ktxt[:60]}`: tensor/operator ids are subgraph-relative, so entries of different subgraphs collide')
  ctx.sample(R, {'loops_over_subgraphs': n_loops})
  if n_loops < 5:
    raise index.AnalysisError(f'{R}: only {n_loops} loops over subgraphs found')


def r6_shared_tables(ctx):
  R = 'C19.R6'
  ctx.rule(R, 'operator codes and buffers are the model-wide tables; new tensors go to the instruction\'s subgraph', floor=2)
  f = ctx.repo.func(f'{PERF}._apply_single_transformation')
  ctx.instance(R)
  ti = [c for c in common.calls_in(f.node) if common.call_name(c).endswith('TransformationInput')]
  if ctx.check(R, len(ti) == 1, f.node, f, 'TransformationInput', 'missing'):
    a = [defuse.norm(x) for x in ti[0].args]
    ctx.check(R, a[1:4] == ['tflite_model.operatorCodes', 'tflite_model.buffers', 'tflite_model.subgraphs[transformation_inst.subgraph_id]'], ti[0], f, ti[0],
              'transformations must receive the model-wide operator codes / buffers and the instruction\'s own subgraph')
  trans = shared.insertion_transformations(ctx)
  for key in ('ADD_QUANTIZE', 'ADD_DEQUANTIZE'):
    g = trans[key]
    ctx.instance(R)
    p = g.pos_params[0]
    for c in common.calls_in(g.node):
      nm = common.call_name(c)
      if nm.endswith('add_op_code'):
        ctx.check(R, len(c.args) == 2 and ast.unparse(c.args[1]) == f'{p}.op_codes', c, g, c, 'operator codes must be looked up / added in the model-wide table')
      if nm.endswith('add_new_activation_tensor'):
        ctx.check(R, ast.unparse(c.args[-1]) == f'{p}.subgraph', c, g, c, 'the new tensor must be added to the instruction\'s own subgraph')
    for n in common.walk_no_nested(g.node):
      if isinstance(n, ast.Subscript) and ast.unparse(n.value).endswith(('.tensors', '.operators')):
        ctx.check(R, ast.unparse(n.value).startswith(f'{p}.subgraph.'), n, g, n, 'tensor/operator lists of another object than the instruction\'s subgraph are indexed')


def r8_uniform_treatment(ctx):
  R = 'C19.R8'
  ctx.rule(R, 'plan generation treats every subgraph alike (no branch on the subgraph index or on signature data)', floor=3)
  targets = ['params_generator:ParamsGenerator.generate_quantization_parameters', 'calibrator:Calibrator._initialize_model_qsvs',
             'utils.tfl_flatbuffer_utils:buffer_to_tensors', f'{TIG}._create_tensor_name_to_graph_info_map', f'{PERF}._create_op_id_map',
             'params_generator:ParamsGenerator._check_tensor_names_are_unique']
  for fq in targets:
    f = ctx.repo.func(fq)
    for l in [n for n in common.walk_no_nested(f.node) if isinstance(n, ast.For)]:
      it = l.iter
      base = it.args[0] if isinstance(it, ast.Call) and common.call_name(it) == 'enumerate' and it.args else it
      if not ast.unparse(base).endswith('.subgraphs'):
        continue
      ctx.instance(R)
      idx = l.target.elts[0].id if isinstance(l.target, ast.Tuple) and isinstance(l.target.elts[0], ast.Name) else None
      sig_names = set()
      for n in common.walk_no_nested(f.node):
        if isinstance(n, ast.Assign) and isinstance(n.targets[0], ast.Name) and any(k in ast.unparse(n.value) for k in ('signatureDefs', 'signature', 'entry_subgraph')):
          sig_names.add(n.targets[0].id)
      for n in ast.walk(ast.Module(body=l.body, type_ignores=[])):
        if isinstance(n, (ast.If, ast.IfExp, ast.While)):
          names = defuse.names_in(n.test)
          txt = ast.unparse(n.test)
          bad = (idx is not None and idx in names) or bool(names & sig_names) or 'signatureDefs' in txt
          ctx.check(R, not bad, n, f, n.test,
                    f'inside the loop over subgraphs the branch `{txt[:60]}` depends on the subgraph index / signature data: '
                    'a subgraph is then planned differently from the same subgraph standing alone')


def r12_shared_tables_append_only(ctx):
  """operatorCodes and buffers are shared by every subgraph: operators of all
  subgraphs refer to them by POSITION. Any function reachable from a registered
  transformation may therefore only append to them; deleting, inserting in the
  middle, reordering or clearing shifts the positions other subgraphs rely on
  (re-indexing one subgraph cannot repair the others)."""
  R = 'C19.R12'
  ctx.rule(R, 'model-wide tables (operator codes, buffers) are append-only in every transformation: other subgraphs refer to them by position', floor=3)
  cg = callgraph.get(ctx)
  perf = ctx.repo.cls(PERF)
  init = perf.methods['__init__']
  roots = []
  for n in ast.walk(init.node):
    if isinstance(n, ast.Dict):
      for v in n.values:
        s = ctx.repo.resolve_expr(init.module, v) if isinstance(v, (ast.Name, ast.Attribute)) else None
        if s is not None and s.kind == 'func':
          roots.append(s.obj)
  if len(roots) < 3:
    raise index.AnalysisError(f'{R}: transformation registry not found in {init.fq}')
  SHARED = ('op_codes', 'operatorCodes', 'buffers')

  def shared_expr(f, e, depth=0):
    """Does expression e (in function f) denote a model-wide table?"""
    txt = ast.unparse(e)
    if any(txt.endswith('.' + s) or txt == s for s in SHARED):
      return True
    if isinstance(e, ast.Name) and depth < 4:
      if e.id in f.pos_params:
        k = f.pos_params.index(e.id)
        for caller_fq, sites in cg.sites.items():
          for s in sites:
            if any(c.fq == f.fq for c in s.callees):
              arg = s.node.args[k] if k < len(s.node.args) else next((kw.value for kw in s.node.keywords if kw.arg == e.id), None)
              if arg is not None and shared_expr(ctx.repo.func(caller_fq), arg, depth + 1):
                return True
      for d in defuse.own_assignments(f.node).get(e.id, []):
        if d is not None and shared_expr(f, d, depth + 1):
          return True
    return False
  for fq in sorted(cg.reachable([r.fq for r in roots])):
    f = ctx.repo.func(fq)
    if not f.module.short.startswith('transformations'):
      continue
    ctx.instance(R)
    for n in common.walk_no_nested(f.node):
      bad = None
      if isinstance(n, ast.Delete):
        for t in n.targets:
          if isinstance(t, ast.Subscript) and shared_expr(f, t.value):
            bad = (t.value, 'deletes from')
      elif isinstance(n, ast.Call) and isinstance(n.func, ast.Attribute) and n.func.attr in ('pop', 'remove', 'clear', 'insert', 'sort', 'reverse') and shared_expr(f, n.func.value):
        if not (n.func.attr == 'insert' and n.args and ast.unparse(n.args[0]).startswith('len(')):
          bad = (n.func.value, f'calls .{n.func.attr}() on')
      elif isinstance(n, ast.Assign) and isinstance(n.targets[0], ast.Subscript) and isinstance(n.targets[0].slice, ast.Slice) and shared_expr(f, n.targets[0].value):
        bad = (n.targets[0].value, 'slice-assigns')
      if bad is not None:
        ctx.check(R, False, n, f, n, f'{f.name} {bad[1]} the model-wide table `{ast.unparse(bad[0])}`: operators of the other subgraphs address it by position and now point at the wrong entries')
    ctx.check(R, True, f.node, f, f.name, '')


def run(ctx):
  r1_performer_indices(ctx)
  r8_uniform_treatment(ctx)
  _r2(ctx)
  r5_loop_variable_coherence(ctx)
  r6_shared_tables(ctx)
  r7_no_cross_subgraph_id_containers(ctx)
  _r3(ctx)
  r12_shared_tables_append_only(ctx)
  shared.rule_subgraph_independence(ctx, 'C19.R13')
  shared.rule_blockwise_replacement(ctx, 'C19.R14', independence=True)
  shared.rule_performer_translation(ctx, 'C19.R9')
  shared.rule_performer_simulation(ctx, 'C19.R10')
  shared.rule_graph_rewrite_simulation(ctx, 'C19.R11', 'graph rewriting with two subgraphs and an interleaved plan: each subgraph is rewritten as if it stood alone')


def _relabel(ctx, old, new, title, fn):
  before = len(ctx.violations)
  fn(ctx)
  if old in ctx.rules:
    rs = ctx.rules.pop(old)
    rs.title = title
    ctx.rules[new] = rs
  for v in ctx.violations[before:]:
    if v.rule == old:
      v.rule = new


def _r2(ctx):
  _relabel(ctx, 'C01.R8', 'C19.R2', 'op-id maps exist per subgraph and are reset per call (C01.R8)', c01.r8_op_id_maps)


def _r3(ctx):
  _relabel(ctx, 'C01.R1', 'C19.R3', 'the tensor-name uniqueness set spans all subgraphs (C01.R1)', c01.r1_name_uniqueness)
