"""C17 - quantization arithmetic obeys its algebraic laws (structural part)."""
from __future__ import annotations

import ast

from sa import algebra
from sa import cfg as cfgmod
from sa import defuse
from sa import index
from sa.rules import common
from sa.rules import shared

EXPLANATION = (
    'The formulas of uniform_quantize_tensor.py are recovered per control path '
    'by syntactic substitution of definitions and compared, as rational '
    'functions with uninterpreted numpy calls, against the reference formulas '
    'of the TFLite quantization spec (identity testing at random rational '
    'points on the expression trees). Ordering rules (round+clip before cast, '
    'rank fix-up before arithmetic, widening before the zero-point '
    'subtraction, positive clamp before the division) are decided on the CFG.'
)
LEVEL_TEXT = (
    'Decides that on every control path the scale / zero-point / quantize / '
    'dequantize expressions ARE the reference formulas (zero forced into the '
    'range, positive lower clamp before dividing, symmetric => zero point 0, '
    'narrow range iff symmetric, saturating clip to the very type that is cast '
    'to, widened subtraction). From these the algebraic laws follow for exact '
    'arithmetic; floating-point rounding itself is not analysed.'
    ' Exact-arithmetic tables of the scalar quantize / dequantize laws and of the zero-point / scale laws over listed lattices.'
)
LEVEL_NOTE = (
    'Trusted: reference formulas written in rules/c17.py; numpy functions are '
    'uninterpreted symbols (np.maximum/minimum commutative; np.multiply etc. '
    'arithmetic). Not decided: float rounding error, overflow of huge '
    'magnitudes, numpy broadcasting semantics.'
)
TECHNIQUE = 'path-sensitive def-use substitution + rational-function identity on ast + exact-arithmetic tables of the quantization laws (abstract interpretation) (static)'

UQT = shared.UQT
KEEP = frozenset()


def _paths(ctx, name, keep=KEEP):
  f = ctx.repo.func(f'{UQT}:{name}')
  return f, defuse.paths(f.node, keep=keep)


def _tuple_elts(ret):
  if isinstance(ret, ast.Tuple):
    return ret.elts
  return None


def r2_scale_formulas(ctx):
  R = 'C17.R2'
  ctx.rule(R, 'range -> (zero point, scale) equals the reference formulas on both paths', floor=2)
  f, ps = _paths(ctx, 'tensor_zp_scale_from_min_max')
  params = f.pos_params
  if len(params) < 4:
    raise index.AnalysisError(f'{f.fq}: signature changed')
  mn, mx, bits, sym = params[:4]
  rng = f'get_quantized_range(IntType({bits}, signed=True))'
  qmin, qmax = f'{rng}[0]', f'{rng}[1]'

  def ref(arm, mb):
    if arm:
      return (f'np.maximum(np.maximum(np.abs({mn}), np.abs({mx})), {mb}) / {qmax}', '0')
    return (f'np.maximum(np.maximum({mx}, 0) - np.minimum({mn}, 0), {mb}) / ({qmax} - {qmin})',
            f'np.rint({qmin} - np.minimum({mn}, 0) / (np.maximum(np.maximum({mx}, 0) - np.minimum({mn}, 0), {mb}) / ({qmax} - {qmin})))')

  def clamp_of(e):
    # the constant operand of the outermost np.maximum(<range>, <constant>) of the numerator
    for x in ast.walk(e):
      if isinstance(x, ast.Call) and common.call_name(x) in ('np.maximum', 'numpy.maximum') and len(x.args) == 2:
        for a in x.args:
          if isinstance(a, ast.Constant) and isinstance(a.value, (int, float)) and not isinstance(a.value, bool):
            return a.value
    return None
  seen = set()
  for p in ps:
    if p.raises is not None:
      continue
    ctx.instance(R)
    elts = _tuple_elts(p.ret)
    if elts is None or len(elts) != 2:
      raise index.AnalysisError(f'{f.fq}: no longer returns (zero_point, scale)')
    zp, scale = elts
    arm = None
    for c, taken in p.conds:
      if defuse.norm(c) == sym:
        arm = taken
    if arm is None:
      raise index.AnalysisError(f'{f.fq}: path {p.cond_text()} is not decided by `{sym}` alone')
    seen.add(arm)
    mbv = clamp_of(scale)
    ctx.check(R, isinstance(mbv, (int, float)) and 0 < mbv <= 1e-2, f.node, f, f'lower clamp {mbv} when {p.cond_text()}',
              'the range must be clamped from below by a small positive constant before dividing (scale must stay positive for constant tensors)')
    want_scale, want_zp = ref(arm, repr(mbv) if mbv is not None else 'MISSING_CLAMP')
    ctx.check(R, algebra.same(scale, want_scale), f.node, f, f'scale when {p.cond_text()}',
              f'scale is {defuse.norm(scale)[:200]}; the reference is {want_scale}')
    # zero point: cast(<formula>) - look through the cast
    inner = zp
    casted = False
    if isinstance(zp, ast.Call) and common.call_name(zp).endswith('assign_quantized_type'):
      inner = zp.args[0]
      casted = True
      qt = defuse.norm(zp.args[1]) if len(zp.args) > 1 else ''
      ctx.check(R, 'signed=True' in qt.replace(' ', '') and bits in qt, f.node, f, f'zero point type {qt}',
                'zero point must be cast to the signed integer type of the configured width')
    ctx.check(R, casted, f.node, f, f'zero point when {p.cond_text()}', 'zero point is not cast to the quantized integer type')
    ctx.check(R, algebra.same(inner, want_zp), f.node, f, f'zero point when {p.cond_text()}',
              f'zero point is {defuse.norm(inner)[:200]}; the reference is {want_zp}')
    ctx.sample(R, {'path': p.cond_text(), 'scale': defuse.norm(scale)[:160]})
  ctx.check(R, seen == {True, False}, f.node, f, 'paths', 'symmetric and asymmetric paths must both exist')
  # get_quantized_range itself
  g, gps = _paths(ctx, 'get_quantized_range', keep=frozenset())
  for p in gps:
    elts = _tuple_elts(p.ret)
    if elts is None:
      continue
    signed = any(taken for c, taken in p.conds if 'signed' in defuse.norm(c))
    want = ('-(2 ** (qtype.num_bits - 1))', '2 ** (qtype.num_bits - 1) - 1') if signed else ('0', '2 ** qtype.num_bits - 1')
    ctx.check(R, algebra.same(elts[0], want[0]) and algebra.same(elts[1], want[1]), g.node, g, f'range when {p.cond_text()}',
              f'quantized range is ({defuse.norm(elts[0])}, {defuse.norm(elts[1])}), expected {want}')


def r5_widening(ctx):
  R = 'C17.R5'
  ctx.rule(R, 'dequantize: (q - zero_point) * scale with the subtraction done in a wide type', floor=1)
  f, ps = _paths(ctx, 'uniform_dequantize', keep=frozenset({'quantization_params'}))
  rets = [p for p in ps if p.raises is None]
  if not rets:
    raise index.AnalysisError(f'{f.fq}: no returning path')
  ctx.instance(R)
  td, qp = f.pos_params[:2]
  for rp in rets[:-1]:
    ctx.check(R, algebra.same(rp.ret, f'({td} - {qp}.zero_point) * {qp}.scale', transparent=frozenset({'astype'})), f.node, f, rp.ret,
              f'dequantize computes {defuse.norm(rp.ret)[:160]} when {rp.cond_text()}')
  ret = rets[-1].ret
  ctx.check(R, algebra.same(ret, f'({td} - {qp}.zero_point) * {qp}.scale', transparent=frozenset({'astype'})), f.node, f, ret,
            f'dequantize computes {defuse.norm(ret)[:160]}, the reference is (q - zero_point) * scale')
  subs = [n for n in ast.walk(ret) if (isinstance(n, ast.BinOp) and isinstance(n.op, ast.Sub)) or (isinstance(n, ast.Call) and common.call_name(n) in ('np.subtract', 'numpy.subtract'))]
  wide = ('float64', 'float32', 'int64', 'int32', 'float', 'int')
  ok = False
  for s in subs:
    ops = [s.left, s.right] if isinstance(s, ast.BinOp) else list(s.args[:2])
    kws = {k.arg: ast.unparse(k.value) for k in s.keywords} if isinstance(s, ast.Call) else {}
    if any(kws.get('dtype', '').endswith(w) for w in wide):
      ok = True
    for o in ops:
      if isinstance(o, ast.Call) and isinstance(o.func, ast.Attribute) and o.func.attr == 'astype' and o.args and ast.unparse(o.args[0]).split('.')[-1] in wide:
        ok = True
      if isinstance(o, ast.Call) and common.call_name(o) in ('np.float64', 'np.float32', 'np.int64', 'np.int32', 'float', 'np.asarray', 'np.array') and (
          common.call_name(o) not in ('np.asarray', 'np.array') or any(k.arg == 'dtype' and ast.unparse(k.value).split('.')[-1] in wide for k in o.keywords)):
        ok = True
  ctx.check(R, bool(subs) and ok, f.node, f, ret,
            'the zero point is subtracted in the operands\' own dtype: int8 data minus an int8 zero point wraps around')


def r6_rank_fix_first(ctx):
  R = 'C17.R6'
  ctx.rule(R, 'quantize and dequantize fix the parameter rank and validate before any arithmetic', floor=2)
  for name in ('uniform_quantize', 'uniform_dequantize'):
    f = ctx.repo.func(f'{UQT}:{name}')
    ctx.instance(R)
    g = cfgmod.build(f.node)
    fix = [n for n in g.nodes if any(common.call_name(c).endswith('fix_quantization_params_rank') for c in n.calls())]
    val = [n for n in g.nodes if any(common.call_name(c).endswith('_is_valid_quantization_params') for c in n.calls())]
    arith = [n for n in g.nodes if n.kind == 'stmt' and any(
        isinstance(x, ast.BinOp) or (isinstance(x, ast.Call) and common.call_name(x) in ('np.multiply', 'np.add', 'np.subtract', 'np.divide'))
        for x in n.walk())]
    if not ctx.check(R, len(fix) == 1 and len(val) == 1, f.node, f, name, f'{name} no longer calls fix_quantization_params_rank and _is_valid_quantization_params exactly once'):
      continue
    st = fix[0].ast
    qp = f.pos_params[1]
    rebinding = isinstance(st, ast.Assign) and any(isinstance(t, ast.Name) and t.id == qp for t in st.targets)
    ctx.check(R, rebinding, st, f, st, 'the rank-fixed parameters must replace the flat ones used by the arithmetic')
    for a in arith:
      ctx.check(R, g.every_path_passes(g.entry.id, a.id, {fix[0].id}) and g.every_path_passes(g.entry.id, a.id, {val[0].id}),
                a.ast, f, a.ast, 'arithmetic on a path that bypasses the rank fix-up / shape validation (ambiguous broadcasting)')
    ctx.check(R, g.every_path_passes(g.entry.id, val[0].id, {fix[0].id}), val[0].ast, f, val[0].ast, 'validation runs before the rank fix-up')
    args = [ast.unparse(a) for c in val[0].calls() for a in c.args if common.call_name(c).endswith('_is_valid_quantization_params')]
    ctx.check(R, args[:2] == [f.pos_params[0], qp], val[0].ast, f, val[0].ast, 'validation is applied to other objects than the ones used')


def r7_narrow_and_quantize(ctx):
  R = 'C17.R7'
  ctx.rule(R, 'quantize = cast(clip(rint(x/scale + zp))) with narrow range iff symmetric', floor=2)
  f, ps = _paths(ctx, '_round_and_clip', keep=frozenset())
  ctx.instance(R)
  t, qt, nr = f.pos_params[:3]
  qmin, qmax = f'get_quantized_range({qt})[0]', f'get_quantized_range({qt})[1]'
  seen = set()
  for p in ps:
    narrow = [taken for c, taken in p.conds if defuse.norm(c) == nr]
    signed = [taken for c, taken in p.conds if 'signed' in defuse.norm(c)]
    if p.raises is not None:
      ctx.check(R, narrow == [True] and signed == [False], p.raises, f, p.raises, f'_round_and_clip raises when {p.cond_text()}')
      continue
    if narrow == [True]:
      want = f'np.clip(np.rint({t}), {qmin} + 1, {qmax})'
      seen.add('narrow')
    else:
      want = f'np.clip(np.rint({t}), {qmin}, {qmax})'
      seen.add('full')
    ctx.check(R, algebra.same(p.ret, want), f.node, f, f'clip when {p.cond_text()}',
              f'_round_and_clip returns {defuse.norm(p.ret)[:120]}, the reference is {want}')
  ctx.check(R, seen == {'narrow', 'full'}, f.node, f, 'paths', 'narrow and full range paths must both exist')
  for name in ('uniform_quantize', 'uniform_quantize_for_emulated_subchannel'):
    q, qps = _paths(ctx, name, keep=frozenset({'quantization_params'}))
    ctx.instance(R)
    rets = [p for p in qps if p.raises is None]
    if not rets:
      raise index.AnalysisError(f'{q.fq}: no returning path')
    td, qp = q.pos_params[:2]
    x = td if name == 'uniform_quantize' else None
    ity = f'IntType({qp}.num_bits, signed=True)'
    for rp in rets:
      ret = rp.ret
      if x is not None:
        want = (f'assign_quantized_type(_round_and_clip({x} * (1.0 / {qp}.scale) + {qp}.zero_point, {ity}, {qp}.symmetric), {ity})')
        ctx.check(R, algebra.same(ret, want), q.node, q, f'{name} formula',
                  f'{name} computes {defuse.norm(ret)[:220]}; the reference is {want}')
      else:
        txt = defuse.norm(ret)
        ok = txt.startswith('assign_quantized_type(_round_and_clip(') and f'{qp}.symmetric' in txt and txt.count(ity.replace(' ', ' ')) >= 2
        ctx.check(R, ok, q.node, q, f'{name} formula', f'{name}: expected cast(clip(...,{qp}.symmetric)), got {txt[:200]}')
    # the signedness check of the zero point is still in front
    raises = [p for p in qps if p.raises is not None]
    ctx.check(R, any('issubdtype' in p.cond_text() for p in raises), q.node, q, 'zero point dtype guard', 'the zero-point dtype guard disappeared')


def r8_bias(ctx):
  R = 'C17.R8'
  ctx.rule(R, 'bias: scale = input scale * weight scale, zero point 0, 32 bit (64 for 16-bit activations)', floor=1)
  f, ps = _paths(ctx, 'symmetric_quantize_bias_tensor', keep=frozenset())
  ctx.instance(R)
  b, ip, wp = f.pos_params[:3]
  rets = [p for p in ps if p.raises is None]
  for p in rets:
    ret = p.ret
    if not (isinstance(ret, ast.Call) and common.call_name(ret).endswith('UniformQuantParams')):
      raise index.AnalysisError(f'{R}: {f.fq} no longer returns UniformQuantParams(...) directly (the construction rule cannot read it; the bias law is decided on values by C04.R14 / C04.R15)')
    kw = {k.arg: k.value for k in ret.keywords}
    sc = kw.get('scale')
    # look through squeeze / expand_dims
    ok = sc is not None and algebra.same(sc, f'{ip}.scale * {wp}.scale') or (sc is not None and 'expand_dims' in defuse.norm(sc) and f'{ip}.scale * {wp}.scale' in defuse.norm(sc))
    ctx.check(R, ok, f.node, f, f'bias scale on {p.cond_text()}', f'bias scale is {defuse.norm(sc)[:120] if sc is not None else None}; must be input scale * weight scale')
    zp = kw.get('zero_point')
    ctx.check(R, zp is not None and defuse.norm(zp).startswith('np.zeros_like('), f.node, f, 'bias zero point', 'bias zero point must be all zeros')
    nb = kw.get('num_bits')
    ctx.check(R, nb is not None and algebra.same(nb, f'64 if {ip}.num_bits == 16 else 32'), f.node, f, f'bias bits {defuse.norm(nb) if nb is not None else None}',
              'bias must be 32 bit, 64 bit when activations are 16 bit')
    sy = kw.get('symmetric')
    ctx.check(R, isinstance(sy, ast.Constant) and sy.value is True, f.node, f, 'bias symmetric', 'bias quantization must be symmetric')
    qd = kw.get('quantized_data')
    ctx.check(R, qd is not None and defuse.norm(qd).startswith('uniform_quantize(' + b), f.node, f, 'bias data', 'quantized bias must be uniform_quantize(bias, bias params)')
    if qd is not None and isinstance(qd, ast.Call) and len(qd.args) > 1 and isinstance(qd.args[1], ast.Call):
      kw2 = {k.arg: defuse.norm(k.value) for k in qd.args[1].keywords}
      kw1 = {k.arg: defuse.norm(k.value) for k in ret.keywords if k.arg != 'quantized_data'}
      ctx.check(R, kw1 == kw2, f.node, f, 'bias params used for quantization == returned', f'bias is quantized with {kw2} but annotated with {kw1}')


def r9_rank_fix(ctx, R='C17.R9'):
  ctx.rule(R, 'per-channel parameters are expanded along every axis except their own', floor=1)
  f = ctx.repo.func(f'{UQT}:fix_quantization_params_rank')
  ctx.instance(R)
  comps = [n for n in ast.walk(f.node) if isinstance(n, ast.ListComp)]
  ok = False
  var = None
  for c in comps:
    g = c.generators[0]
    if isinstance(g.iter, ast.Call) and common.call_name(g.iter) == 'range' and 'ndim' in ast.unparse(g.iter) and len(g.ifs) == 1:
      t = defuse.norm(g.ifs[0])
      if '!=' in t and 'quantized_dimension' in t and isinstance(c.elt, ast.Name) and c.elt.id == g.target.id:
        ok = True
        st = common.stmt_of(f.node, c)
        if isinstance(st, ast.Assign) and isinstance(st.targets[0], ast.Name):
          var = st.targets[0].id
  ctx.check(R, ok, f.node, f, 'dims = [d for d in range(ndim) if d != quantized_dimension]', 'the axes to expand are no longer "every axis except the quantized dimension"')
  exp = [c for c in common.calls_in(f.node) if common.call_name(c) == 'np.expand_dims']
  good = [c for c in exp if any(k.arg == 'axis' and ast.unparse(k.value) == var for k in c.keywords) or (len(c.args) > 1 and ast.unparse(c.args[1]) == var)]
  names = {ast.unparse(c.args[0]) for c in good}
  ctx.check(R, len(good) == 2 and len(names) == 2, f.node, f, f'expand_dims on {sorted(names)}', 'scale and zero point must both be expanded with the same axes')
  # the early return requires equal rank
  p0 = [n for n in f.node.body if isinstance(n, ast.If)]
  ctx.check(R, bool(p0) and 'ndim' in ast.unparse(p0[0].test) and '==' in ast.unparse(p0[0].test), f.node, f, 'early return', 'parameters are passed through unchanged only when their rank equals the tensor rank')


def r11_scalar_table(ctx):
  """uniform_quantize / uniform_dequantize on scalars, exact arithmetic (dyadic
  scales): q = clip(rint(x/scale) + zp) saturating at the (narrow) range, no
  integer cast ever sees a value outside its type, dequantize(q) is within
  scale/2 of x inside the range. Enumerated with the path interpreter; numpy's
  integer casts are modelled as failing when the value does not fit."""
  import fractions  # pylint: disable=g-import-not-at-top
  from sa import absint  # pylint: disable=g-import-not-at-top
  from sa.consteval import Obj  # pylint: disable=g-import-not-at-top
  R = 'C17.R11'
  rs = ctx.rule(R, 'scalar table (exact arithmetic): quantize yields in-range integers, saturates (never wraps), is monotone; dequantize(quantize(x)) within half a step; quantize(dequantize(q)) = q', floor=1)
  UQ = 'algorithms.uniform_quantize.uniform_quantize_tensor'
  q = ctx.repo.func(f'{UQ}:uniform_quantize')
  dq = ctx.repo.func(f'{UQ}:uniform_dequantize')
  ctx.instance(R)
  hooks = {f'{UQ}:fix_quantization_params_rank': lambda a, k: a[1],
           f'{UQ}:_is_valid_quantization_params': lambda a, k: None,
           'np.issubdtype': lambda a, k: True}
  it = absint.Interp(ctx.repo, ctx.ev, hooks=hooks)
  F = fractions.Fraction
  rs.exhaustive = True
  for bits, sym, zp, scale in ((8, True, 0, F(1, 128)), (8, False, -128, F(1, 256)), (8, False, 5, F(1, 4)), (4, True, 0, F(1, 8)), (4, False, -3, F(1, 2)),
                               (16, True, 0, F(1, 1 << 15)), (16, False, 7, F(1, 1 << 10)), (8, True, 0, F(1, 1 << 22))):
    lo, hi = -(1 << (bits - 1)), (1 << (bits - 1)) - 1
    if sym:
      lo += 1
    P = Obj('qtyping:UniformQuantParams', {'num_bits': bits, 'quantized_dimension': None, 'scale': scale, 'zero_point': zp, 'symmetric': sym,
                                             'quantized_data': None, 'block_size': 0, 'hadamard': None})
    xs = [F(0), scale, -scale, scale * F(5, 2), scale * F(7, 2), -scale * F(5, 2), scale * F(1, 2), scale * (hi - zp), scale * (hi - zp) + scale * F(1, 2), scale * (lo - zp),
          scale * (lo - zp) - scale * 3, scale * (hi - zp + 40), F(10 ** 8), -F(10 ** 8), F(2 ** 40), -F(2 ** 40) * 3, F(5000)]
    prev = None
    for x in sorted(xs):
      label = f'{bits}-bit {"symmetric" if sym else "asymmetric"} scale={scale} zp={zp}: x={float(x):.6g}'
      outs = it.outcomes(q, [x, P], copy_args=False)
      if len(outs) != 1 or outs[0].kind != 'return' or not absint._is_num(outs[0].value):  # pylint: disable=protected-access
        ctx.check(R, False, q.node, q, label, f'quantize: {[o.short()[:90] for o in outs]} - a value is cast to an integer type before it was clipped into range (numpy wraps around), or the row is not decided')
        continue
      got = outs[0].value
      r = x / scale + zp
      ctx.check(R, got == int(got) and lo <= got <= hi, q.node, q, f'{label} -> {got}', f'quantize gives {got}, outside the integer range [{lo}, {hi}]')
      if prev is not None:
        ctx.check(R, got >= prev[1], q.node, q, f'{label} -> {got}', f'quantize is not monotone: q({float(prev[0]):.6g}) = {prev[1]} but q({float(x):.6g}) = {got}')
      prev = (x, got)
      if r >= hi:
        ctx.check(R, got == hi, q.node, q, f'{label} -> {got}', f'a value at or above the range must saturate at {hi}')
      if r <= lo:
        ctx.check(R, got == lo, q.node, q, f'{label} -> {got}', f'a value at or below the range must saturate at {lo}')
      back = it.outcomes(dq, [got, P], copy_args=False)
      if len(back) == 1 and back[0].kind == 'return' and absint._is_num(back[0].value):  # pylint: disable=protected-access
        v = F(back[0].value)
        if lo <= r <= hi:
          ctx.check(R, abs(v - x) <= scale / 2, dq.node, dq, label, f'dequantize(quantize(x)) = {float(v):.6g}: error {float(abs(v - x)):.3g} exceeds half a step ({float(scale / 2):.3g})')
      else:
        ctx.check(R, False, dq.node, dq, label, f'dequantize not decided: {[o.short()[:90] for o in back]}')
    for k in (lo, lo + 1, -1, 0, 1, hi - 1, hi):
      label = f'{bits}-bit {"symmetric" if sym else "asymmetric"} scale={scale} zp={zp}: code {k}'
      d = it.outcomes(dq, [k, P], copy_args=False)
      if len(d) != 1 or d[0].kind != 'return' or not absint._is_num(d[0].value):  # pylint: disable=protected-access
        ctx.check(R, False, dq.node, dq, label, f'dequantize not decided: {[o.short()[:90] for o in d]}')
        continue
      ctx.check(R, F(d[0].value) == (k - zp) * scale, dq.node, dq, f'{label} -> {float(d[0].value):.6g}', f'dequantize must give (q - zp) * scale = {float((k - zp) * scale):.6g}')
      b = it.outcomes(q, [d[0].value, P], copy_args=False)
      ok = len(b) == 1 and b[0].kind == 'return' and b[0].value == k
      ctx.check(R, ok, q.node, q, label, f'quantize(dequantize({k})) = {[o.short()[:40] for o in b]}, must be {k}')


def r12_parameter_laws(ctx):
  """tensor_zp_scale_from_min_max on a lattice of (min, max) with exact
  rationals: scale finite and positive, zero point an in-range integer (0 when
  symmetric), [min, max] covered up to half a step."""
  import fractions  # pylint: disable=g-import-not-at-top
  from sa import absint  # pylint: disable=g-import-not-at-top
  R = 'C17.R12'
  rs = ctx.rule(R, 'parameter laws (exact arithmetic): scale > 0, zero point an in-range integer and 0 when symmetric, [min, max] covered up to half a step', floor=1)
  UQ = 'algorithms.uniform_quantize.uniform_quantize_tensor'
  zs = ctx.repo.func(f'{UQ}:tensor_zp_scale_from_min_max')
  ctx.instance(R)
  F = fractions.Fraction
  it = absint.Interp(ctx.repo, ctx.ev, hooks={})
  rs.exhaustive = True
  ranges = [(F(0), F(0)), (F(-1), F(1)), (F(0), F(6)), (F(-3), F(-1)), (F(2), F(5)), (F(-1, 10 ** 6), F(1, 10 ** 6)), (F(-1000), F(1, 1000)), (F(1, 10 ** 5), F(1, 10 ** 5)),
            (F(-7, 3), F(11, 7)), (F(-10 ** 6), F(10 ** 6)), (F(-1, 3), F(0)),
            (F(-10 ** 42), F(10 ** 45)), (F(0), F(10 ** 60))]   # statistics are double precision: magnitudes beyond float32 still need a finite scale
  for bits in (4, 8, 16):
    for sym in (True, False):
      lo, hi = -(1 << (bits - 1)), (1 << (bits - 1)) - 1
      nlo = lo + 1 if sym else lo
      for mn, mx in ranges:
        label = f'{bits}-bit {"symmetric" if sym else "asymmetric"}: [{float(mn):.6g}, {float(mx):.6g}]'
        outs = it.outcomes(zs, [mn, mx, bits, sym], copy_args=False)
        if len(outs) != 1 or outs[0].kind != 'return' or not isinstance(outs[0].value, tuple) or len(outs[0].value) != 2:
          ctx.check(R, False, zs.node, zs, label, f'not decided: {[o.short()[:100] for o in outs]}')
          continue
        zp, sc = outs[0].value
        if not (absint._is_num(zp) and absint._is_num(sc)):  # pylint: disable=protected-access
          ctx.check(R, False, zs.node, zs, label, f'not folded: zero point {zp!r}, scale {sc!r}')
          continue
        import math  # pylint: disable=g-import-not-at-top
        if any(isinstance(v, float) and not math.isfinite(v) for v in (sc, zp)):
          ctx.check(R, False, zs.node, zs, f'{label}: scale {sc!r}, zero point {zp!r}', 'scale and zero point must be finite (the statistics are finite double-precision numbers)')
          continue
        sc, zpf = F(sc), F(zp)
        ctx.check(R, sc > 0, zs.node, zs, f'{label}: scale {float(sc):.6g}', 'the scale must be positive')
        ctx.check(R, zpf.denominator == 1 and lo <= zpf <= hi and (zpf == 0 or not sym), zs.node, zs, f'{label}: zero point {zp}',
                  'the zero point must be an integer inside the range and 0 for symmetric quantization')
        if sc > 0:
          lo_v, hi_v = (nlo - zpf) * sc, (hi - zpf) * sc
          eps = sc / 10 ** 9   # the library divides by float(qmax - qmin): exact ties are decided up to float rounding
          ctx.check(R, lo_v <= mn + sc / 2 + eps and hi_v >= mx - sc / 2 - eps, zs.node, zs, f'{label}: representable [{float(lo_v):.6g}, {float(hi_v):.6g}]',
                    f'[min, max] is not covered up to half a step (scale {float(sc):.6g}, zero point {zp})')



def r13_rank_fix_table(ctx, R='C17.R13'):
  """fix_quantization_params_rank on values: flat per-channel parameters are expanded so that they broadcast along the
  quantized dimension (any position), per-tensor parameters to all-ones shapes, parameters of the right rank are
  handed back unchanged - whatever the function looks like inside."""
  from sa import absint  # pylint: disable=g-import-not-at-top
  from sa.consteval import Obj  # pylint: disable=g-import-not-at-top
  from sa.ndarr import NdArr  # pylint: disable=g-import-not-at-top
  rs = ctx.rule(R, 'rank fix-up table: flat parameters are expanded along the quantized dimension (any position), values unchanged', floor=1)
  f = ctx.repo.func(f'{UQT}:fix_quantization_params_rank')
  ctx.instance(R)
  it = absint.Interp(ctx.repo, ctx.ev)
  rs.exhaustive = True
  for shape, qd in (((2, 3, 4), 0), ((2, 3, 4), 1), ((2, 3, 4), 2), ((3, 2), 1), ((3, 2), 0), ((2, 3, 4), None), ((5,), 0)):
    n = 1
    for x in shape:
      n *= x
    tensor = NdArr(shape, list(range(n)))
    nch = 1 if qd is None else shape[qd]
    sc = NdArr((nch,), [k + 2 for k in range(nch)])
    zp = NdArr((nch,), [k - 1 for k in range(nch)], 'i')
    params = Obj('qtyping:UniformQuantParams', {'num_bits': 8, 'quantized_dimension': qd, 'scale': sc, 'zero_point': zp, 'symmetric': True, 'quantized_data': None, 'block_size': 0, 'hadamard': None})
    outs = it.outcomes(f, [tensor, params], copy_args=False)
    label = f'tensor shape {shape}, quantized dimension {qd}, {nch} flat parameters'
    if len(outs) != 1 or outs[0].kind != 'return' or not isinstance(outs[0].value, Obj):
      ctx.check(R, False, f.node, f, label, f'not decided: {[o.short()[:100] for o in outs]}')
      continue
    r = outs[0].value.fields
    want_shape = tuple(shape[k] if k == qd else 1 for k in range(len(shape))) if len(shape) != 1 else (nch,)
    shape_ok = (lambda shp: all(d == 1 for d in shp)) if qd is None else (lambda shp: shp == want_shape)   # per-tensor parameters: any all-ones shape broadcasts
    ok = all(isinstance(r[k], NdArr) and shape_ok(r[k].shape) and list(r[k].data) == list(src.data) for k, src in (('scale', sc), ('zero_point', zp)))
    ok = ok and r['num_bits'] == 8 and r['quantized_dimension'] == qd and r['symmetric'] is True
    got = {k: (r[k].shape if isinstance(r[k], NdArr) else r[k]) for k in ('scale', 'zero_point')}
    ctx.check(R, ok, f.node, f, f'{label} -> {got}', f'scale and zero point must keep their values and get the shape {want_shape} (1 everywhere but along the quantized dimension); width, dimension and symmetry unchanged')

def run(ctx):
  ctx.assume('numpy functions are uninterpreted; np.multiply/add/subtract/divide are the arithmetic operators')
  shared.rule_clip_before_cast(ctx, 'C17.R1')
  r2_scale_formulas(ctx)
  r5_widening(ctx)
  r6_rank_fix_first(ctx)
  r7_narrow_and_quantize(ctx)
  r8_bias(ctx)
  r9_rank_fix(ctx)
  shared.rule_rebuild_completeness(ctx, 'C17.R10')
  r11_scalar_table(ctx)
  r12_parameter_laws(ctx)
  r13_rank_fix_table(ctx)
