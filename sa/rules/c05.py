"""C05 - stored quantized constants decode to within one step of the originals (structural part)."""
from __future__ import annotations

import ast

from sa import callgraph
from sa import defuse
from sa import index
from sa import tables
from sa.consteval import Ref
from sa.rules import common
from sa.rules import shared
from sa.rules import c15
from sa.rules import c17

EXPLANATION = (
    'Writer/reader agreement of the width ladders and the int4 packing band '
    '(exhaustive over widths 1..64); nibble order and odd-tail padding of '
    '_pack_data; the float16 cast applied directly to the tensor content; the '
    'stored bytes and the annotated parameters come from one params object '
    'and the buffer is never re-read; round+clip to the target type before '
    'the cast; the axes statistics are reduced over and the axes the '
    'parameters are re-expanded along are the same set; quantize formula; '
    'rebuilt parameter objects carry over every field.'
)
LEVEL_TEXT = (
    'Decides the storage-format obligations that hold for every constant of '
    'every shape: bytes length vs dtype via the three width ladders, low '
    'nibble first with zero padding of an odd tail, exact fp16 cast, data and '
    'parameters from the same object, saturating integer conversion, channel '
    'axis agreement. The half-step / one-step numeric error bound itself is '
    'not decided.'
)
LEVEL_NOTE = (
    'Trusted: O7 (int4: two values per byte, element 2i in the low nibble), '
    'numpy slicing/bit operations named as such. Not decided: element-wise '
    'error bound.'
)
TECHNIQUE = 'ladder agreement (exhaustive) + expression-shape / origin rules on ast (static)'

QTENS = shared.QTENS
FCAST = shared.FCAST


def _u8_safe(e, data: str) -> bool:
  """Abstract dtype: is the value provably a uint8 array when `data` is one?"""
  if isinstance(e, ast.Name):
    return e.id == data
  if isinstance(e, ast.Subscript):
    return _u8_safe(e.value, data)
  if isinstance(e, ast.Call):
    nm = common.call_name(e)
    if isinstance(e.func, ast.Attribute) and e.func.attr == 'astype' and e.args and defuse.norm(e.args[0]) in ('np.uint8', 'numpy.uint8'):
      return True
    if nm in ('np.pad', 'numpy.pad') and e.args:
      return _u8_safe(e.args[0], data)
    if nm in ('np.bitwise_or', 'np.bitwise_and', 'numpy.bitwise_or', 'numpy.bitwise_and') and len(e.args) == 2:
      return all(_u8_safe(a, data) or isinstance(a, ast.Constant) for a in e.args) and any(_u8_safe(a, data) for a in e.args)
    if nm in ('np.left_shift', 'np.right_shift') and len(e.args) == 2:
      return False  # widening is numpy-version dependent: require an explicit astype(np.uint8)
    if nm in ('np.append', 'np.concatenate', 'np.hstack', 'np.insert'):
      kw = {k.arg: defuse.norm(k.value) for k in e.keywords}
      return False  # a Python int operand promotes uint8 to int64
    return False
  if isinstance(e, ast.BinOp):
    if isinstance(e.op, (ast.BitAnd, ast.BitOr)):
      l, r = e.left, e.right
      return (_u8_safe(l, data) and (isinstance(r, ast.Constant) or _u8_safe(r, data))) or (_u8_safe(r, data) and isinstance(l, ast.Constant))
    return False
  return False


def _nibble_kind(e, data: str):
  """'low' / 'high' / None for one operand of the final OR."""
  txt = defuse.norm(e)
  slices = [x for x in ast.walk(e) if isinstance(x, ast.Subscript) and isinstance(x.slice, ast.Slice) and isinstance(x.slice.step, ast.Constant) and x.slice.step.value == 2]
  if len(slices) != 1:
    return None, None
  lo = slices[0].slice.lower
  parity = 'even' if lo is None or (isinstance(lo, ast.Constant) and lo.value == 0) else ('odd' if isinstance(lo, ast.Constant) and lo.value == 1 else None)
  shifted = any((isinstance(x, ast.BinOp) and isinstance(x.op, ast.LShift) and isinstance(x.right, ast.Constant) and x.right.value == 4) or
                (isinstance(x, ast.Call) and common.call_name(x) in ('np.left_shift', 'numpy.left_shift') and len(x.args) == 2 and isinstance(x.args[1], ast.Constant) and x.args[1].value == 4)
                for x in ast.walk(e))
  masked = any(isinstance(x, ast.BinOp) and isinstance(x.op, ast.BitAnd) and any(isinstance(y, ast.Constant) and y.value == 15 for y in (x.left, x.right)) for x in ast.walk(e))
  if shifted:
    return 'high', parity
  if masked:
    return 'low', parity
  return None, parity


def r2_nibble_order(ctx):
  R = 'C05.R2'
  ctx.rule(R, 'int4 packing: element 2i in the low nibble, 2i+1 in the high nibble, odd tail padded with 0, bytes stay uint8', floor=1)
  f = ctx.repo.func(f'{QTENS}:_pack_data')
  ctx.instance(R)
  bits, data = f.pos_params[:2]
  ps = [p for p in defuse.paths(f.node, keep=frozenset()) if p.raises is None]
  packing = [p for p in ps if defuse.norm(p.ret) != data]
  plain = [p for p in ps if defuse.norm(p.ret) == data]
  if not packing:
    raise index.AnalysisError(f'{f.fq}: no packing path found')
  ctx.check(R, bool(plain), f.node, f, 'unpacked widths', 'wider data must be stored unchanged')
  for p in packing:
    ret = p.ret
    ops = None
    if isinstance(ret, ast.Call) and common.call_name(ret) in ('np.bitwise_or', 'numpy.bitwise_or') and len(ret.args) == 2:
      ops = ret.args
    elif isinstance(ret, ast.BinOp) and isinstance(ret.op, ast.BitOr):
      ops = [ret.left, ret.right]
    if ops is None and isinstance(ret, ast.Call) and isinstance(ret.func, ast.Attribute) and ret.func.attr == 'astype':
      inner = ret.func.value
      if isinstance(inner, ast.BinOp) and isinstance(inner.op, ast.BitOr):
        ops = [inner.left, inner.right]
      elif isinstance(inner, ast.Call) and common.call_name(inner) in ('np.bitwise_or',):
        ops = inner.args
    if ops is None:
      raise index.AnalysisError(f'{f.fq}: packing path returns {defuse.norm(ret)[:80]}, not an OR of two nibble arrays')
    kinds = [_nibble_kind(o, data) for o in ops]
    want = {('low', 'even'), ('high', 'odd')}
    ctx.check(R, set(kinds) == want, f.node, f, f'nibbles {kinds} when {p.cond_text()}',
              f'packed byte is built from {kinds}; element 2i must go (masked with 0x0F) to the LOW nibble and element 2i+1 (shifted by 4) to the HIGH nibble')
    ctx.check(R, _u8_safe(ret, data), f.node, f, f'dtype of {defuse.norm(ret)[:90]}',
              'the packed array is not provably uint8 (an operation such as np.append with a Python int, or an unshielded shift, promotes it): '
              'the flatbuffer then stores one 8-byte element per packed byte')
  # odd tail: on some packing path the high-nibble operand (or the data) is padded by one zero
  src = defuse.norm(f.node)
  padded = any(any(k in defuse.norm(p.ret) for k in ('np.pad(', 'np.append(', 'np.concatenate(')) for p in packing)
  guard = [p for p in packing if any('shape' in defuse.norm(c) or '% 2' in defuse.norm(c) or 'size' in defuse.norm(c) for c, _ in p.conds)]
  ctx.check(R, padded and bool(guard), f.node, f, 'odd tail padding', 'with an odd element count the high-nibble array must be padded with one zero (the last value is otherwise lost / the OR fails)')
  if padded and any('np.pad(' in defuse.norm(p.ret) for p in packing):
    pads = [c for p in packing for c in defuse.calls_named(p.ret, ('pad',))]
    ok = all(defuse.norm(c.args[1]) == '(0, 1)' and {k.arg: defuse.norm(k.value) for k in c.keywords}.get('constant_values', '0') == '0' for c in pads if len(c.args) > 1)
    ctx.check(R, ok, f.node, f, 'pad (0, 1) with 0', 'the tail must be padded at the end with a zero nibble')
  conds = {defuse.norm(c) for p in packing for c, t in p.conds}
  ctx.check(R, any(bits in c for c in conds), f.node, f, f'band {sorted(conds)}', 'packing must be decided by the bit width')


def r3_fp16(ctx):
  R = 'C05.R3'
  ctx.rule(R, 'float16 constants are exactly astype(np.float16) of the tensor content', floor=5)
  reg = tables.registry(ctx)
  cg = callgraph.get(ctx)
  inl = defuse.Inliner(ctx.repo)
  for alg, ops in reg.items():
    if alg.name != 'FLOAT_CASTING':
      continue
    for op, entry in ops.items():
      ctx.instance(R)
      fi = ctx.repo.func(entry['materialize'].fq)
      tree = [ctx.repo.func(fq) for fq in cg.reachable([fi.fq]) if ctx.repo.func(fq).module.short == fi.module.short]
      found = 0
      for g in tree:
        for c in common.calls_in(g.node, nested=False):
          if common.call_name(c).endswith('NonLinearQuantParams'):
            found += 1
            kw = {k.arg: k.value for k in c.keywords}
            qd = kw.get('quantized_data')
            if not ctx.check(R, qd is not None, c, g, c, 'NonLinearQuantParams without quantized_data'):
              continue
            full = inl.inline(g, qd)
            txt = defuse.norm(full)
            ok = isinstance(full, ast.Call) and isinstance(full.func, ast.Attribute) and full.func.attr == 'astype' and len(full.args) == 1 and defuse.norm(full.args[0]) in ('np.float16', 'numpy.float16')
            inner = defuse.norm(full.func.value) if ok else ''
            ok = ok and inner.startswith('tfl_flatbuffer_utils.get_tensor_data(') and 'buffers' in inner
            ctx.check(R, ok, c, g, f'{op.name}: quantized_data = {txt[:110]}',
                      'float16 data must be <tensor content>.astype(np.float16) with nothing in between: a clip / scale / other rounding changes values '
                      '(round-to-nearest of out-of-range weights is +-inf, not +-65504)')
            nb = kw.get('num_bits')
            ctx.check(R, isinstance(nb, ast.Constant) and nb.value == 16, c, g, 'num_bits=16', 'float16 data must be annotated with 16 bits')
      ctx.check(R, found >= 1, fi.node, fi, f'{op.name}: NonLinearQuantParams', 'no float16 parameters are produced')
  nl = ctx.repo.func(f'{QTENS}:nonlinear_quant_params_to_tflite_type')
  lad = shared.extract_ladder(nl, lambda e: isinstance(e, ast.Name))
  ctx.check(R, shared.ladder_eval(lad, 16).endswith('FLOAT16'), nl.node, nl, '16 -> FLOAT16', '16-bit float params must be annotated FLOAT16')


def r6_axes_agreement(ctx):
  R = 'C05.R6'
  ctx.rule(R, 'statistics are reduced over, and parameters re-expanded along, the same set of axes', floor=2)
  c17.r9_rank_fix(ctx, R)
  rd = ctx.repo.func(f'{shared.MMU}:_get_reduce_dims')
  ctx.instance(R)
  src = defuse.norm(rd.node)
  ctx.check(R, 'range(len(' in src and '!=' in src, rd.node, rd, 'reduce dims', 'reduce dims must be every axis except the quantized one')


def r7_quantize_formula(ctx):
  c17.r7_narrow_and_quantize(ctx)
  if 'C17.R7' in ctx.rules:
    ctx.rules['C05.R7'] = ctx.rules.pop('C17.R7')
    for v in ctx.violations:
      if v.rule == 'C17.R7':
        v.rule = 'C05.R7'


def r8_constant_path(ctx):
  R = 'C05.R8'
  ctx.rule(R, 'constants are quantized with the very parameters that are annotated on the tensor', floor=1)
  f = ctx.repo.func(f'{shared.MMU}:_get_tensor_quant_params')
  ctx.instance(R)
  content = f.pos_params[3] if len(f.pos_params) > 3 else 'tensor_content'
  n_data = n_plain = 0
  for p in defuse.paths(f.node):
    if p.raises is not None or p.ret is None:
      continue
    r = p.ret
    if not (isinstance(r, ast.Call) and common.call_name(r).endswith('UniformQuantParams')):
      ctx.check(R, False, f.node, f, f'return {defuse.norm(r)[:60]} when {p.cond_text()[:80]}', 'the result must be a UniformQuantParams')
      continue
    kw = {k.arg: k.value for k in r.keywords}
    qd = kw.pop('quantized_data', None)
    annotated = {k: defuse.norm(v) for k, v in kw.items()}
    no_content = any(defuse.norm(c) == f'{content} is None' and t for c, t in p.conds)
    if qd is None or (isinstance(qd, ast.Constant) and qd.value is None):
      n_plain += 1
      ctx.check(R, no_content, f.node, f, f'no quantized data when {p.cond_text()[:100]}', 'a constant whose content is known is annotated without quantized data')
      continue
    n_data += 1
    ok = isinstance(qd, ast.Call) and common.call_name(qd).split('.')[-1] in ('uniform_quantize', 'uniform_quantize_for_emulated_subchannel') and len(qd.args) >= 2
    if not ctx.check(R, ok, f.node, f, f'quantized_data={defuse.norm(qd)[:80]}', 'the returned params must carry the data quantized by uniform_quantize'):
      continue
    ctx.check(R, defuse.norm(qd.args[0]) == content, f.node, f, f'quantized content = {defuse.norm(qd.args[0])[:60]}', 'the content that is quantized must be the tensor content handed in')
    used = qd.args[1]
    uk = {k.arg: defuse.norm(k.value) for k in used.keywords} if isinstance(used, ast.Call) and common.call_name(used).endswith('UniformQuantParams') else None
    ctx.check(R, uk == annotated, f.node, f, 'params used for quantisation == params returned',
              f'data is quantized with {uk} but the tensor is annotated with {annotated}')
  ctx.check(R, n_data >= 2 and n_plain >= 1, f.node, f, f'{n_data} paths with data, {n_plain} without', 'expected blockwise / plain paths with data and the content-less path')
  w = ctx.repo.func(f'{shared.MMU}:_get_tensor_transformation_params_wrapper')
  ctx.instance(R)
  ann = {x.arg: ast.unparse(x.annotation) for x in w.node.args.args if x.annotation is not None}
  graph_ps = [k for k, v in ann.items() if v.endswith('GraphInfo')]
  if len(graph_ps) != 1:
    raise index.AnalysisError(f'{w.fq}: no single GraphInfo parameter ({w.pos_params})')
  tensor_p, graph_p = w.pos_params[0], graph_ps[0]
  call = [c for c in common.calls_in(w.node) if common.call_name(c).endswith('_get_tensor_quant_params')]
  inl = defuse.Inliner(ctx.repo, max_depth=0)
  if ctx.check(R, len(call) == 1, w.node, w, '_get_tensor_quant_params call', 'one computation of the parameters expected'):
    kv = {k.arg: k.value for k in call[0].keywords}
    arg = kv.get(content, call[0].args[3] if len(call[0].args) > 3 else None)
    td = defuse.norm(inl.inline(w, arg)).replace('tfl_flatbuffer_utils.', '') if arg is not None else None
    ctx.check(R, td == f'get_tensor_data({tensor_p}, {graph_p}.buffers)', call[0], w, f'{content}={td}',
              'the content that is quantized must be the data of the tensor being materialised, read from its own buffer')
  gd = ctx.repo.func('utils.tfl_flatbuffer_utils:get_tensor_data')
  ctx.instance(R)
  t, b = gd.pos_params[:2]
  rets = [defuse.norm(p.ret) for p in defuse.paths(gd.node) if p.raises is None and p.ret is not None and not (isinstance(p.ret, ast.Constant) and p.ret.value is None)]
  want = f'np.reshape(np.frombuffer({b}[{t}.buffer].data, dtype=TENSOR_CODE_TO_TYPE[{t}.type].lower()), {t}.shape)'
  ctx.check(R, rets == [want], gd.node, gd, f'returns {rets}', 'constant data must be decoded with the tensor\'s own buffer, dtype and shape')


def run(ctx):
  ctx.assume('int4 storage: two values per byte, element 2i in the low nibble (O7)')
  shared.rule_ladders(ctx, 'C05.R1')
  r2_nibble_order(ctx)
  r3_fp16(ctx)
  c15.r3_idempotent_overwrite(ctx, 'C05.R4')
  shared.rule_clip_before_cast(ctx, 'C05.R5')
  r6_axes_agreement(ctx)
  r7_quantize_formula(ctx)
  r8_constant_path(ctx)
  shared.rule_rebuild_completeness(ctx, 'C05.R9')
