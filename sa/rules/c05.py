"""C05 - stored quantized constants decode to within one step of the originals (structural part)."""
from __future__ import annotations

import ast

from sa import callgraph
from sa import defuse
from sa import index
from sa import tables
from sa.consteval import Ref
from sa.consteval import Obj
from sa.rules import common
from sa.rules import shared
from sa.rules import c15
from sa.rules import c17

EXPLANATION = (
    'Writer/reader agreement of the width ladders and the int4 packing band '
    '(exhaustive over widths 1..64); nibble order and odd-tail padding of '
    '_pack_data; the float16 cast applied directly to the tensor content; the '
    'stored bytes and the annotated parameters come from one params object '
    'and the buffer is never re-read; round+clip to the target type before '
    'the cast; the axes statistics are reduced over and the axes the '
    'parameters are re-expanded along are the same set; quantize formula; '
    'rebuilt parameter objects carry over every field.'
)
LEVEL_TEXT = (
    'Decides the storage-format obligations that hold for every constant of '
    'every shape: bytes length vs dtype via the three width ladders, low '
    'nibble first with zero padding of an odd tail, exact fp16 cast, data and '
    'parameters from the same object, saturating integer conversion, channel '
    'axis agreement. The half-step / one-step numeric error bound itself is '
    'not decided.'
    " Tables with the exact array model: a constant stored quantized carries its data whoever supplied the parameters; end to end on small weights every stored code is in range and within half a step of the weight along the kernel's channel dimension."
)
LEVEL_NOTE = (
    'Trusted: O7 (int4: two values per byte, element 2i in the low nibble), '
    'numpy slicing/bit operations named as such. Not decided: element-wise '
    'error bound.'
)
TECHNIQUE = 'ladder agreement (exhaustive) + expression-shape / origin rules on ast + exact-array tables of the constant path (abstract interpretation over a finite lattice) (static)'

QTENS = shared.QTENS
FCAST = shared.FCAST


def _u8_safe(e, data: str) -> bool:
  """Abstract dtype: is the value provably a uint8 array when `data` is one?"""
  if isinstance(e, ast.Name):
    return e.id == data
  if isinstance(e, ast.Subscript):
    return _u8_safe(e.value, data)
  if isinstance(e, ast.Call):
    nm = common.call_name(e)
    if isinstance(e.func, ast.Attribute) and e.func.attr == 'astype' and e.args and defuse.norm(e.args[0]) in ('np.uint8', 'numpy.uint8'):
      return True
    if nm in ('np.pad', 'numpy.pad') and e.args:
      return _u8_safe(e.args[0], data)
    if nm in ('np.bitwise_or', 'np.bitwise_and', 'numpy.bitwise_or', 'numpy.bitwise_and') and len(e.args) == 2:
      return all(_u8_safe(a, data) or isinstance(a, ast.Constant) for a in e.args) and any(_u8_safe(a, data) for a in e.args)
    if nm in ('np.left_shift', 'np.right_shift') and len(e.args) == 2:
      return False  # widening is numpy-version dependent: require an explicit astype(np.uint8)
    if nm in ('np.append', 'np.concatenate', 'np.hstack', 'np.insert'):
      kw = {k.arg: defuse.norm(k.value) for k in e.keywords}
      return False  # a Python int operand promotes uint8 to int64
    return False
  if isinstance(e, ast.BinOp):
    if isinstance(e.op, (ast.BitAnd, ast.BitOr)):
      l, r = e.left, e.right
      return (_u8_safe(l, data) and (isinstance(r, ast.Constant) or _u8_safe(r, data))) or (_u8_safe(r, data) and isinstance(l, ast.Constant))
    return False
  return False


def _nibble_kind(e, data: str):
  """'low' / 'high' / None for one operand of the final OR."""
  txt = defuse.norm(e)
  slices = [x for x in ast.walk(e) if isinstance(x, ast.Subscript) and isinstance(x.slice, ast.Slice) and isinstance(x.slice.step, ast.Constant) and x.slice.step.value == 2]
  if len(slices) != 1:
    return None, None
  lo = slices[0].slice.lower
  parity = 'even' if lo is None or (isinstance(lo, ast.Constant) and lo.value == 0) else ('odd' if isinstance(lo, ast.Constant) and lo.value == 1 else None)
  shifted = any((isinstance(x, ast.BinOp) and isinstance(x.op, ast.LShift) and isinstance(x.right, ast.Constant) and x.right.value == 4) or
                (isinstance(x, ast.Call) and common.call_name(x) in ('np.left_shift', 'numpy.left_shift') and len(x.args) == 2 and isinstance(x.args[1], ast.Constant) and x.args[1].value == 4)
                for x in ast.walk(e))
  masked = any(isinstance(x, ast.BinOp) and isinstance(x.op, ast.BitAnd) and any(isinstance(y, ast.Constant) and y.value == 15 for y in (x.left, x.right)) for x in ast.walk(e))
  if shifted:
    return 'high', parity
  if masked:
    return 'low', parity
  return None, parity


def r2_nibble_order(ctx):
  R = 'C05.R2'
  ctx.rule(R, 'int4 packing: element 2i in the low nibble, 2i+1 in the high nibble, odd tail padded with 0, bytes stay uint8', floor=1)
  f = ctx.repo.func(f'{QTENS}:_pack_data')
  ctx.instance(R)
  bits, data = f.pos_params[:2]
  ps = [p for p in defuse.paths(f.node, keep=frozenset()) if p.raises is None]
  packing = [p for p in ps if defuse.norm(p.ret) != data]
  plain = [p for p in ps if defuse.norm(p.ret) == data]
  if not packing:
    raise index.AnalysisError(f'{f.fq}: no packing path found')
  ctx.check(R, bool(plain), f.node, f, 'unpacked widths', 'wider data must be stored unchanged')
  for p in packing:
    ret = p.ret
    ops = None
    if isinstance(ret, ast.Call) and common.call_name(ret) in ('np.bitwise_or', 'numpy.bitwise_or') and len(ret.args) == 2:
      ops = ret.args
    elif isinstance(ret, ast.BinOp) and isinstance(ret.op, ast.BitOr):
      ops = [ret.left, ret.right]
    if ops is None and isinstance(ret, ast.Call) and isinstance(ret.func, ast.Attribute) and ret.func.attr == 'astype':
      inner = ret.func.value
      if isinstance(inner, ast.BinOp) and isinstance(inner.op, ast.BitOr):
        ops = [inner.left, inner.right]
      elif isinstance(inner, ast.Call) and common.call_name(inner) in ('np.bitwise_or',):
        ops = inner.args
    if ops is None:
      raise index.AnalysisError(f'{f.fq}: packing path returns {defuse.norm(ret)[:80]}, not an OR of two nibble arrays')
    kinds = [_nibble_kind(o, data) for o in ops]
    want = {('low', 'even'), ('high', 'odd')}
    ctx.check(R, set(kinds) == want, f.node, f, f'nibbles {kinds} when {p.cond_text()}',
              f'packed byte is built from {kinds}; element 2i must go (masked with 0x0F) to the LOW nibble and element 2i+1 (shifted by 4) to the HIGH nibble')
    ctx.check(R, _u8_safe(ret, data), f.node, f, f'dtype of {defuse.norm(ret)[:90]}',
              'the packed array is not provably uint8 (an operation such as np.append with a Python int, or an unshielded shift, promotes it): '
              'the flatbuffer then stores one 8-byte element per packed byte')
  # odd tail: on some packing path the high-nibble operand (or the data) is padded by one zero
  src = defuse.norm(f.node)
  padded = any(any(k in defuse.norm(p.ret) for k in ('np.pad(', 'np.append(', 'np.concatenate(')) for p in packing)
  guard = [p for p in packing if any('shape' in defuse.norm(c) or '% 2' in defuse.norm(c) or 'size' in defuse.norm(c) for c, _ in p.conds)]
  ctx.check(R, padded and bool(guard), f.node, f, 'odd tail padding', 'with an odd element count the high-nibble array must be padded with one zero (the last value is otherwise lost / the OR fails)')
  if padded and any('np.pad(' in defuse.norm(p.ret) for p in packing):
    pads = [c for p in packing for c in defuse.calls_named(p.ret, ('pad',))]
    ok = all(defuse.norm(c.args[1]) == '(0, 1)' and {k.arg: defuse.norm(k.value) for k in c.keywords}.get('constant_values', '0') == '0' for c in pads if len(c.args) > 1)
    ctx.check(R, ok, f.node, f, 'pad (0, 1) with 0', 'the tail must be padded at the end with a zero nibble')
  conds = {defuse.norm(c) for p in packing for c, t in p.conds}
  ctx.check(R, any(bits in c for c in conds), f.node, f, f'band {sorted(conds)}', 'packing must be decided by the bit width')


def r3_fp16(ctx):
  R = 'C05.R3'
  ctx.rule(R, 'float16 constants are exactly astype(np.float16) of the tensor content', floor=5)
  reg = tables.registry(ctx)
  cg = callgraph.get(ctx)
  inl = defuse.Inliner(ctx.repo)
  for alg, ops in reg.items():
    if alg.name != 'FLOAT_CASTING':
      continue
    for op, entry in ops.items():
      ctx.instance(R)
      fi = ctx.repo.func(entry['materialize'].fq)
      tree = [ctx.repo.func(fq) for fq in cg.reachable([fi.fq]) if ctx.repo.func(fq).module.short == fi.module.short]
      found = 0
      for g in tree:
        for c in common.calls_in(g.node, nested=False):
          if common.call_name(c).endswith('NonLinearQuantParams'):
            found += 1
            kw = {k.arg: k.value for k in c.keywords}
            qd = kw.get('quantized_data')
            if not ctx.check(R, qd is not None, c, g, c, 'NonLinearQuantParams without quantized_data'):
              continue
            full = inl.inline(g, qd)
            txt = defuse.norm(full)
            ok = isinstance(full, ast.Call) and isinstance(full.func, ast.Attribute) and full.func.attr == 'astype' and len(full.args) == 1 and defuse.norm(full.args[0]) in ('np.float16', 'numpy.float16')
            inner = defuse.norm(full.func.value) if ok else ''
            ok = ok and inner.startswith('tfl_flatbuffer_utils.get_tensor_data(') and 'buffers' in inner
            ctx.check(R, ok, c, g, f'{op.name}: quantized_data = {txt[:110]}',
                      'float16 data must be <tensor content>.astype(np.float16) with nothing in between: a clip / scale / other rounding changes values '
                      '(round-to-nearest of out-of-range weights is +-inf, not +-65504)')
            nb = kw.get('num_bits')
            ctx.check(R, isinstance(nb, ast.Constant) and nb.value == 16, c, g, 'num_bits=16', 'float16 data must be annotated with 16 bits')
      ctx.check(R, found >= 1, fi.node, fi, f'{op.name}: NonLinearQuantParams', 'no float16 parameters are produced')
  nl = ctx.repo.func(f'{QTENS}:nonlinear_quant_params_to_tflite_type')
  lad = shared.extract_ladder(nl, lambda e: isinstance(e, ast.Name))
  ctx.check(R, shared.ladder_eval(lad, 16).endswith('FLOAT16'), nl.node, nl, '16 -> FLOAT16', '16-bit float params must be annotated FLOAT16')


def r6_axes_agreement(ctx):
  R = 'C05.R6'
  ctx.rule(R, 'statistics are reduced over, and parameters re-expanded along, the same set of axes', floor=2)
  c17.r9_rank_fix(ctx, R)
  rd = ctx.repo.func(f'{shared.MMU}:_get_reduce_dims')
  ctx.instance(R)
  it_ = tables.interp(ctx)
  for qd, shape in ((None, [2, 3]), (0, [2, 3]), (1, [2, 3]), (0, [4]), (2, [2, 3, 4, 5]), (3, [2, 3, 4, 5])):
    outs = it_.outcomes(rd, [qd, list(shape)])
    want = None if qd is None else tuple(a for a in range(len(shape)) if a != qd)
    got = outs[0].value if len(outs) == 1 and outs[0].kind == 'return' else None
    got = tuple(got) if isinstance(got, (list, tuple)) else got
    if len(outs) != 1 or outs[0].kind != 'return':
      ctx.check(R, False, rd.node, rd, f'quantized dimension {qd}, shape {shape}', f'not decided: {[o.short()[:80] for o in outs]}')
      continue
    ctx.check(R, got == want, rd.node, rd, f'quantized dimension {qd}, shape {shape} -> {got!r}', f'reduce dims must be every axis except the quantized one: {want!r}')


def r7_quantize_formula(ctx):
  c17.r7_narrow_and_quantize(ctx)
  if 'C17.R7' in ctx.rules:
    ctx.rules['C05.R7'] = ctx.rules.pop('C17.R7')
    for v in ctx.violations:
      if v.rule == 'C17.R7':
        v.rule = 'C05.R7'


def r8_constant_path(ctx):
  R = 'C05.R8'
  ctx.rule(R, 'constants are quantized with the very parameters that are annotated on the tensor', floor=1)
  f = ctx.repo.func(f'{shared.MMU}:_get_tensor_quant_params')
  ctx.instance(R)
  content = f.pos_params[3] if len(f.pos_params) > 3 else 'tensor_content'
  n_data = n_plain = 0
  for p in defuse.paths(f.node):
    if p.raises is not None or p.ret is None:
      continue
    r = p.ret
    if not (isinstance(r, ast.Call) and common.call_name(r).endswith('UniformQuantParams')):
      ctx.check(R, False, f.node, f, f'return {defuse.norm(r)[:60]} when {p.cond_text()[:80]}', 'the result must be a UniformQuantParams')
      continue
    kw = {k.arg: k.value for k in r.keywords}
    qd = kw.pop('quantized_data', None)
    annotated = {k: defuse.norm(v) for k, v in kw.items()}
    no_content = any(defuse.norm(c) == f'{content} is None' and t for c, t in p.conds)
    if qd is None or (isinstance(qd, ast.Constant) and qd.value is None):
      n_plain += 1
      ctx.check(R, no_content, f.node, f, f'no quantized data when {p.cond_text()[:100]}', 'a constant whose content is known is annotated without quantized data')
      continue
    n_data += 1
    ok = isinstance(qd, ast.Call) and common.call_name(qd).split('.')[-1] in ('uniform_quantize', 'uniform_quantize_for_emulated_subchannel') and len(qd.args) >= 2
    if not ctx.check(R, ok, f.node, f, f'quantized_data={defuse.norm(qd)[:80]}', 'the returned params must carry the data quantized by uniform_quantize'):
      continue
    ctx.check(R, defuse.norm(qd.args[0]) == content, f.node, f, f'quantized content = {defuse.norm(qd.args[0])[:60]}', 'the content that is quantized must be the tensor content handed in')
    used = qd.args[1]
    uk = {k.arg: defuse.norm(k.value) for k in used.keywords} if isinstance(used, ast.Call) and common.call_name(used).endswith('UniformQuantParams') else None
    ctx.check(R, uk == annotated, f.node, f, 'params used for quantisation == params returned',
              f'data is quantized with {uk} but the tensor is annotated with {annotated}')
  ctx.check(R, n_data >= 2 and n_plain >= 1, f.node, f, f'{n_data} paths with data, {n_plain} without', 'expected blockwise / plain paths with data and the content-less path')
  w = ctx.repo.func(f'{shared.MMU}:_get_tensor_transformation_params_wrapper')
  ctx.instance(R)
  ann = {x.arg: ast.unparse(x.annotation) for x in w.node.args.args if x.annotation is not None}
  graph_ps = [k for k, v in ann.items() if v.endswith('GraphInfo')]
  if len(graph_ps) != 1:
    raise index.AnalysisError(f'{w.fq}: no single GraphInfo parameter ({w.pos_params})')
  tensor_p, graph_p = w.pos_params[0], graph_ps[0]
  call = [c for c in common.calls_in(w.node) if common.call_name(c).endswith('_get_tensor_quant_params')]
  inl = defuse.Inliner(ctx.repo, max_depth=0)
  if ctx.check(R, len(call) == 1, w.node, w, '_get_tensor_quant_params call', 'one computation of the parameters expected'):
    kv = {k.arg: k.value for k in call[0].keywords}
    arg = kv.get(content, call[0].args[3] if len(call[0].args) > 3 else None)
    td = defuse.norm(inl.inline(w, arg)).replace('tfl_flatbuffer_utils.', '') if arg is not None else None
    ctx.check(R, td == f'get_tensor_data({tensor_p}, {graph_p}.buffers)', call[0], w, f'{content}={td}',
              'the content that is quantized must be the data of the tensor being materialised, read from its own buffer')
  gd = ctx.repo.func('utils.tfl_flatbuffer_utils:get_tensor_data')
  ctx.instance(R)
  t, b = gd.pos_params[:2]
  rets = [defuse.norm(p.ret) for p in defuse.paths(gd.node) if p.raises is None and p.ret is not None and not (isinstance(p.ret, ast.Constant) and p.ret.value is None)]
  want = f'np.reshape(np.frombuffer({b}[{t}.buffer].data, dtype=TENSOR_CODE_TO_TYPE[{t}.type].lower()), {t}.shape)'
  ctx.check(R, rets == [want], gd.node, gd, f'returns {rets}', 'constant data must be decoded with the tensor\'s own buffer, dtype and shape')


def r10_constant_carries_data(ctx, R='C05.R10'):
  """Decision table of _get_tensor_transformation_params_wrapper: whenever a
  CONSTANT operand is annotated with quantization parameters and a
  transformation that stores it in the quantized type (QUANTIZE_TENSOR /
  ADD_DEQUANTIZE / EMULATED_SUBCHANNEL), the parameters carry the quantized
  bytes - also when the parameters were imposed from outside (same-scale
  constraints hand the output's parameters to the inputs). Otherwise the tensor
  is retyped and its float buffer stays (defect F14)."""
  from sa import absint  # pylint: disable=g-import-not-at-top
  from sa.ndarr import NdArr  # pylint: disable=g-import-not-at-top
  rs = ctx.rule(R, 'a constant operand that is stored quantized carries its quantized data, whoever supplied the parameters (table over mode x constant x imposed parameters)', floor=1)
  w = ctx.repo.func(f'{shared.MMU}:_get_tensor_transformation_params_wrapper')
  ctx.instance(R)
  UQP = 'qtyping:UniformQuantParams'
  CP = {e.name: e for e in tables.enum(ctx, 'qtyping:ComputePrecision')}
  OPN = {e.name: e for e in tables.op_names(ctx)}
  w8 = tables.tensor_config(ctx, num_bits=8)
  a8 = tables.tensor_config(ctx, num_bits=8, symmetric=False)
  modes = {
      'static-range': tables.construct(ctx, common.OPCFG, weight_tensor_config=w8, activation_tensor_config=a8, compute_precision=CP['INTEGER']),
      'dynamic-range': tables.construct(ctx, common.OPCFG, weight_tensor_config=w8, compute_precision=CP['INTEGER']),
      'weight-only': tables.construct(ctx, common.OPCFG, weight_tensor_config=w8, compute_precision=CP['FLOAT'], explicit_dequantize=True),
  }

  def params(data, own=False):
    return Obj(UQP, {'num_bits': 8, 'quantized_dimension': None, 'scale': 'S_own' if own else 'S', 'zero_point': 'Z_own' if own else 'Z', 'symmetric': False,
                     'quantized_data': data, 'block_size': 0, 'hadamard': None})
  rs.exhaustive = True
  for mname, cfg in modes.items():
    for opn in ('CONCATENATION', 'FULLY_CONNECTED', 'ADD'):
      if opn not in OPN:
        continue
      okc, _ = tables.accepts(ctx, tables.enum_member(ctx, 'algorithm_manager:AlgorithmName', 'MIN_MAX_UNIFORM_QUANT'), OPN[opn], cfg)
      if not okc:
        continue   # the policy refuses this (operator, mode): the row is unreachable
      for constant, inbound, imposed in [(c, i, p) for c in (True, False) for i in (True, False) for p in ('none', 'without data', 'with data')]:
        if constant and not inbound:
          continue
        content = NdArr((2, 2), [1, 2, 3, 4]) if constant else None
        given = None if imposed == 'none' else params(None if imposed == 'without data' else 'IMPOSED-DATA')
        hooks = {
            'tfl_flatbuffer_utils.get_tensor_data': lambda a, k, content=content: content,
            'tfl_flatbuffer_utils.get_tensor_name': lambda a, k: 't',
            f'{shared.MMU}:_get_tensor_quant_params': lambda a, k: params('COMPUTED-DATA' if (k.get('tensor_content') if 'tensor_content' in k else (a[3] if len(a) > 3 else None)) is not None else None, own=True),
            f'{shared.MMU}:init_tensor_min_max': lambda a, k: {'min': 0, 'max': 1},
            'uniform_quantize_tensor.uniform_quantize': lambda a, k: 'QUANTIZED(' + ('content' if isinstance(a[0], NdArr) else repr(a[0])) + ')',
        }
        it = absint.Interp(ctx.repo, ctx.ev, hooks=hooks)
        op_info = Obj('qtyping:OpInfo', {'op': Obj('x:OperatorT', {'inputs': [0], 'outputs': [1]}), 'op_name': OPN[opn], 'subgraph_op_index': 3, 'op_quant_config': cfg})
        gi = Obj('qtyping:GraphInfo', {'subgraph_tensors': [], 'buffers': []})
        label = f'{mname}, {opn}, {"constant" if constant else "runtime"} {"input" if inbound else "output"}, parameters imposed: {imposed}'
        outs = it.outcomes(w, [Obj('x:TensorT', {'name': b't', 'shape': [2, 2], 'buffer': 1}), inbound, op_info, gi, {'t': {'min': 0, 'max': 1}}, given], copy_args=False)
        if len(outs) != 1:
          ctx.check(R, False, w.node, w, label, f'not decided: {[o.short()[:80] for o in outs]}')
          continue
        if outs[0].kind != 'return':
          continue   # a rejected combination (e.g. no statistics): nothing is stored
        res = outs[0].value
        o2t = (res.fields['consumers'] or [None])[0] if inbound else res.fields['producer']
        if not isinstance(o2t, Obj):
          ctx.check(R, False, w.node, w, label, 'no parameters entry returned')
          continue
        kinds = [t.name for t in o2t.fields['transformations']]
        p = o2t.fields['parameters']
        stored_quantized = constant and any(k in ('QUANTIZE_TENSOR', 'ADD_DEQUANTIZE', 'EMULATED_SUBCHANNEL') for k in kinds)
        if stored_quantized:
          ok = isinstance(p, Obj) and p.fields.get('quantized_data') is not None
          ctx.check(R, ok, w.node, w, f'{label} -> {kinds}, data {p.fields.get("quantized_data") if isinstance(p, Obj) else p!r}',
                    f'the constant is stored in the quantized type ({kinds}) but its parameters carry no quantized data: the tensor is retyped while its float buffer stays')
          if ok and imposed != 'none':
            ctx.check(R, p.fields['scale'] == 'S' and p.fields['zero_point'] == 'Z', w.node, w, label, 'imposed scale / zero point must be kept')
        elif isinstance(p, Obj) and imposed != 'none':
          ctx.check(R, p.fields['scale'] == 'S' and p.fields['zero_point'] == 'Z', w.node, w, label, 'imposed scale / zero point must be kept')


def r11_constant_numeric_table(ctx, R='C05.R11'):
  """The whole constant path on small integer-valued weights with the exact
  array model: init_tensor_min_max -> _get_tensor_quant_params (zero point /
  scale from min / max, rank fix, uniform_quantize). Oracle, per element:
  the stored code is an in-range integer and code * scale(channel) is within
  half a step of the weight, where channel is taken along the dimension the
  runtime kernel expects; the parameters carry that dimension and one scale per
  channel equal to max|w| / qmax."""
  import fractions  # pylint: disable=g-import-not-at-top
  import itertools  # pylint: disable=g-import-not-at-top
  from sa import absint  # pylint: disable=g-import-not-at-top
  from sa.ndarr import NdArr  # pylint: disable=g-import-not-at-top
  F = fractions.Fraction
  rs = ctx.rule(R, 'constant quantization, end to end on small weights: per-channel scale = max|w|/qmax along the kernel\'s dimension, every stored code within half a step, nothing wraps', floor=1)
  init = ctx.repo.func(f'{shared.MMU}:init_tensor_min_max')
  gq = ctx.repo.func(f'{shared.MMU}:_get_tensor_quant_params')
  ctx.instance(R)
  OPN = {e.name: e for e in tables.op_names(ctx)}
  G = {e.name: e for e in tables.enum(ctx, 'qtyping:QuantGranularity')}
  CP = {e.name: e for e in tables.enum(ctx, 'qtyping:ComputePrecision')}
  cases = [('FULLY_CONNECTED', (3, 4), None, 0), ('DEPTHWISE_CONV_2D', (1, 2, 2, 3), None, 3), ('CONV_2D', (2, 2, 1, 2), None, 0),
           ('BATCH_MATMUL', (2, 3, 2), False, 2), ('BATCH_MATMUL', (2, 3, 2), True, 1), ('EMBEDDING_LOOKUP', (4, 3), None, 0)]
  rs.exhaustive = True
  # (block size 2 on a per-channel / per-tensor configuration: the field only means something for BLOCKWISE granularity)
  for ((op, shape, adj, dim), gran, bits), blk in [(row, 0) for row in itertools.product(cases, ('CHANNELWISE', 'TENSORWISE'), (8, 4))] + \
      [(row, 2) for row in itertools.product(cases[:1], ('CHANNELWISE', 'TENSORWISE'), (8,))]:
    if op not in OPN:
      continue
    n = 1
    for s_ in shape:
      n *= s_
    vals = [(((k * 7 + 3) % n) - n // 2) * (1 + (k % 3)) for k in range(n)]   # distinct magnitudes per channel
    arr = NdArr(shape, vals)
    wcfg = tables.tensor_config(ctx, num_bits=bits, granularity=G[gran], block_size=blk)
    cfg = tables.construct(ctx, common.OPCFG, weight_tensor_config=wcfg, compute_precision=CP['INTEGER'])
    op_obj = Obj('x:OperatorT', {'inputs': [0, 1], 'outputs': [2], 'builtinOptions': Obj('x:BatchMatMulOptionsT', {'adjX': False, 'adjY': bool(adj)})})
    op_info = Obj('qtyping:OpInfo', {'op': op_obj, 'op_name': OPN[op], 'subgraph_op_index': 0, 'op_quant_config': cfg})
    it = absint.Interp(ctx.repo, ctx.ev, hooks={'tfl_flatbuffer_utils.get_tensor_data': lambda a, k, arr=arr: arr, 'np.issubdtype': lambda a, k: True})
    tensor = Obj('x:TensorT', {'name': b'w', 'shape': list(shape), 'buffer': 1})
    label = f'{op}{" adj_y" if adj else ""} weights {shape}, {gran}, {bits}-bit' + (f', block_size={blk} (ignored outside BLOCKWISE)' if blk else '')
    o1 = it.outcomes(init, [tensor, Obj('qtyping:GraphInfo', {'subgraph_tensors': [tensor], 'buffers': []}), op_info], copy_args=False)
    if len(o1) != 1 or o1[0].kind != 'return' or not isinstance(o1[0].value, dict):
      ctx.check(R, False, init.node, init, label, f'statistics not decided: {[o.short()[:100] for o in o1]}')
      continue
    o2 = it.outcomes(gq, [op_info, o1[0].value, wcfg, arr], copy_args=False)
    if len(o2) != 1 or o2[0].kind != 'return' or not isinstance(o2[0].value, Obj):
      ctx.check(R, False, gq.node, gq, label, f'parameters not decided (a cast that wraps shows as OverflowError): {[o.short()[:120] for o in o2]}')
      continue
    P = o2[0].value.fields
    qmax = (1 << (bits - 1)) - 1
    want_dim = dim if gran == 'CHANNELWISE' else None
    ctx.check(R, P['num_bits'] == bits and P['symmetric'] is True, gq.node, gq, f'{label}: num_bits {P["num_bits"]} symmetric {P["symmetric"]}', 'the parameters must carry the configured width and symmetry')
    ctx.check(R, P['quantized_dimension'] == want_dim, gq.node, gq, f'{label}: quantized_dimension {P["quantized_dimension"]}', f'the parameters must carry quantized dimension {want_dim}')
    sc, zp, qd = P['scale'], P['zero_point'], P['quantized_data']
    if not (isinstance(sc, NdArr) and isinstance(zp, NdArr) and isinstance(qd, NdArr)):
      ctx.check(R, False, gq.node, gq, label, f'scale / zero point / data not folded: {type(sc).__name__}, {type(zp).__name__}, {type(qd).__name__}')
      continue
    nch = shape[dim] if gran == 'CHANNELWISE' else 1
    ctx.check(R, sc.size == nch and zp.size == nch and qd.shape == tuple(shape), gq.node, gq, f'{label}: {sc.size} scales, data shape {qd.shape}',
              f'expected {nch} scale(s) / zero point(s) and data of shape {tuple(shape)}')
    if sc.size != nch or qd.shape != tuple(shape):
      continue
    problems = []
    for c in range(nch):
      members = [idx for idx in itertools.product(*[range(s_) for s_ in shape]) if gran != 'CHANNELWISE' or idx[dim] == c]
      bound = max(abs(arr.at(i)) for i in members)
      want_scale = F(bound, qmax) if bound else None
      s_c = F(sc.data[c])
      if want_scale is not None and abs(s_c - want_scale) > want_scale / 10 ** 9:
        problems.append(f'scale of channel {c} is {float(s_c):.6g}, max|w|/qmax over that channel is {float(want_scale):.6g}')
        continue
      if zp.data[c] != 0:
        problems.append(f'zero point of channel {c} is {zp.data[c]} for a symmetric weight')
      for i in members:
        code = qd.at(i)
        if code != int(code) or not -qmax <= code <= qmax:
          problems.append(f'code {code} at {i} outside the narrow range [-{qmax}, {qmax}]')
        elif abs(F(code) * s_c - arr.at(i)) > s_c / 2 + s_c / 10 ** 9:
          problems.append(f'weight {arr.at(i)} at {i} stored as {code} * {float(s_c):.6g}: more than half a step off')
    ctx.check(R, not problems, gq.node, gq, label, '; '.join(problems[:3]))
  # runtime tensors (no content): asymmetric parameters from (min, max) - the order of the two matters here
  for bits, mn, mx in ((8, -1, 3), (8, 2, 6), (16, -5, 1)):
    acfg = tables.tensor_config(ctx, num_bits=bits, symmetric=(bits == 16))
    cfg = tables.construct(ctx, common.OPCFG, weight_tensor_config=tables.tensor_config(ctx, num_bits=8), activation_tensor_config=acfg, compute_precision=CP['INTEGER'])
    op_info = Obj('qtyping:OpInfo', {'op': Obj('x:OperatorT', {'inputs': [0], 'outputs': [1], 'builtinOptions': None}), 'op_name': OPN['FULLY_CONNECTED'], 'subgraph_op_index': 0, 'op_quant_config': cfg})
    it = absint.Interp(ctx.repo, ctx.ev, hooks={'np.issubdtype': lambda a, k: True})
    stats = {'min': NdArr((1, 1), [F(mn)]), 'max': NdArr((1, 1), [F(mx)])}
    label = f'runtime tensor, {bits}-bit {"symmetric" if bits == 16 else "asymmetric"}, statistics [{mn}, {mx}]'
    o = it.outcomes(gq, [op_info, stats, acfg, None], copy_args=False)
    if len(o) != 1 or o[0].kind != 'return' or not isinstance(o[0].value, Obj):
      ctx.check(R, False, gq.node, gq, label, f'not decided: {[x.short()[:100] for x in o]}')
      continue
    P = o[0].value.fields
    lo, hi = -(1 << (bits - 1)), (1 << (bits - 1)) - 1
    if bits == 16:
      want_sc, want_zp = F(max(abs(mn), abs(mx)), hi), 0
    else:
      want_sc = F(max(mx, 0) - min(mn, 0), hi - lo)
      r = F(lo) - F(min(mn, 0)) / want_sc
      fl = r.numerator // r.denominator
      want_zp = fl + (1 if r - fl > F(1, 2) or (r - fl == F(1, 2) and fl % 2) else 0)
    sc, zp = P['scale'], P['zero_point']
    ok = isinstance(sc, NdArr) and isinstance(zp, NdArr) and sc.size == 1 and abs(F(sc.data[0]) - want_sc) <= want_sc / 10 ** 9 and zp.data[0] == want_zp and P['quantized_data'] is None \
        and P['num_bits'] == bits and P['quantized_dimension'] is None
    ctx.check(R, ok, gq.node, gq, f'{label}: scale {sc!r} zero point {zp!r}', f'expected scale {float(want_sc):.6g}, zero point {want_zp}, {bits} bits, no data, no quantized dimension')



def r13_stored_bytes(ctx, R='C05.R13'):
  """The real quantize_tensor transformation on small integer data: the bytes that end in the tensor's buffer are
  decoded again and must be exactly the quantized values in row-major order - one byte each for 8 bits, two values per
  byte (even element low nibble, odd element high nibble, one zero nibble after an odd COUNT, nothing else) for 4
  bits - whatever the shape: odd rows, one dimension, even rows."""
  from sa import absint  # pylint: disable=g-import-not-at-top
  from sa.ndarr import NdArr  # pylint: disable=g-import-not-at-top
  rs = ctx.rule(R, 'stored bytes decode to the quantized values in row-major order (8-bit: one byte each; 4-bit: two per byte, padded only at the very end)', floor=1)
  qt = ctx.repo.func(f'{QTENS}:quantize_tensor')
  ctx.instance(R)
  hooks = {'schema_py_generated.QuantizationParametersT': lambda a, k: Obj('x:QuantizationParametersT', {'scale': None, 'zeroPoint': None, 'quantizedDimension': 0})}
  it = absint.Interp(ctx.repo, ctx.ev, hooks=hooks)
  rs.exhaustive = True
  for bits, shape in ((4, (3, 5)), (4, (4, 4)), (4, (5,)), (4, (2, 3, 3)), (4, (1, 1)), (8, (3, 5)), (8, (2, 2))):
    n = 1
    for x in shape:
      n *= x
    lim = 7 if bits == 4 else 127
    vals = [((k * 5 + 3) % (2 * lim + 1)) - lim for k in range(n)]
    data = NdArr(shape, vals, 'i')
    P = Obj('qtyping:UniformQuantParams', {'num_bits': bits, 'quantized_dimension': None, 'scale': NdArr((1,), [1]), 'zero_point': NdArr((1,), [0], 'i'), 'symmetric': True,
                                           'quantized_data': data, 'block_size': 0, 'hadamard': None})
    buf = Obj('x:BufferT', {'data': 'FLOAT-BYTES', 'offset': 0, 'size': 0})
    tensor = Obj('x:TensorT', {'name': b'w', 'buffer': 1, 'type': 0, 'shape': list(shape), 'quantization': None})
    ti = Obj('transformations.transformation_utils:TransformationInput', {'tensor_id': 0, 'op_codes': [], 'buffers': [Obj('x:BufferT', {'data': None}), buf],
                                                                        'subgraph': Obj('x:SubGraphT', {'tensors': [tensor], 'operators': []}), 'producer': -1, 'consumers': [0], 'quant_params': P})
    outs = it.outcomes(qt, [ti], copy_args=False)
    label = f'{bits}-bit data of shape {shape}'
    stored = buf.fields['data']
    if len(outs) != 1 or outs[0].kind != 'return' or not isinstance(stored, (NdArr, bytes, bytearray)):
      ctx.check(R, False, qt.node, qt, label, f'not decided: {[o.short()[:80] for o in outs]}, buffer holds {stored!r}'[:300])
      continue
    raw = list(stored.data) if isinstance(stored, NdArr) else list(stored)
    raw = [x & 0xFF for x in raw]
    if bits == 8:
      got = [b - 256 if b > 127 else b for b in raw]
      want_len = n
    else:
      nib = []
      for b in raw:
        nib += [b & 0x0F, b >> 4]
      got = [x - 16 if x > 7 else x for x in nib]
      want_len = (n + 1) // 2
    ok = len(raw) == want_len and got[:n] == vals and all(x == 0 for x in got[n:])
    ctx.check(R, ok, qt.node, qt, f'{label}: {len(raw)} bytes stored, decode to {got[:12]}{"..." if len(got) > 12 else ""}',
              f'the buffer must hold {want_len} bytes that decode to the values {vals[:12]}{"..." if n > 12 else ""} in row-major order (the runtime reads the tensor as one flat array)')

def run(ctx):
  ctx.assume('int4 storage: two values per byte, element 2i in the low nibble (O7)')
  shared.rule_ladders(ctx, 'C05.R1')
  r2_nibble_order(ctx)
  r3_fp16(ctx)
  c15.r3_idempotent_overwrite(ctx, 'C05.R4')
  shared.rule_clip_before_cast(ctx, 'C05.R5')
  r6_axes_agreement(ctx)
  r7_quantize_formula(ctx)
  r8_constant_path(ctx)
  shared.rule_rebuild_completeness(ctx, 'C05.R9')
  r10_constant_carries_data(ctx)
  r11_constant_numeric_table(ctx)
  shared.rule_operator_sweep(ctx, 'C05.R12')
  r13_stored_bytes(ctx)
