"""C05 - stored quantized constants decode to within one step of the originals (structural part)."""
from __future__ import annotations

import ast

from sa import callgraph
from sa import defuse
from sa import index
from sa import tables
from sa.consteval import Ref
from sa.rules import common
from sa.rules import shared
from sa.rules import c15
from sa.rules import c17

EXPLANATION = (
    'Writer/reader agreement of the width ladders and the int4 packing band '
    '(exhaustive over widths 1..64); nibble order and odd-tail padding of '
    '_pack_data; the float16 cast applied directly to the tensor content; the '
    'stored bytes and the annotated parameters come from one params object '
    'and the buffer is never re-read; round+clip to the target type before '
    'the cast; the axes statistics are reduced over and the axes the '
    'parameters are re-expanded along are the same set; quantize formula; '
    'rebuilt parameter objects carry over every field.'
)
LEVEL_TEXT = (
    'Decides the storage-format obligations that hold for every constant of '
    'every shape: bytes length vs dtype via the three width ladders, low '
    'nibble first with zero padding of an odd tail, exact fp16 cast, data and '
    'parameters from the same object, saturating integer conversion, channel '
    'axis agreement. The half-step / one-step numeric error bound itself is '
    'not decided.'
)
LEVEL_NOTE = (
    'Trusted: O7 (int4: two values per byte, element 2i in the low nibble), '
    'numpy slicing/bit operations named as such. Not decided: element-wise '
    'error bound.'
)
TECHNIQUE = 'ladder agreement (exhaustive) + expression-shape / origin rules on ast (static)'

QTENS = shared.QTENS
FCAST = shared.FCAST


def r2_nibble_order(ctx):
  R = 'C05.R2'
  ctx.rule(R, 'int4 packing: element 2i in the low nibble, 2i+1 in the high nibble, odd tail padded with 0', floor=1)
  f = ctx.repo.func(f'{QTENS}:_pack_data')
  ctx.instance(R)
  data = f.pos_params[1]
  arms = [n for n in f.node.body if isinstance(n, ast.If)]
  if not arms:
    raise index.AnalysisError(f'{f.fq}: packing branch not found')
  body = ast.Module(body=arms[0].body, type_ignores=[])
  defs = {}
  for n in ast.walk(body):
    if isinstance(n, ast.Assign) and isinstance(n.targets[0], ast.Name):
      defs.setdefault(n.targets[0].id, []).append(n.value)

  def slice_kind(e):
    for x in ast.walk(e):
      if isinstance(x, ast.Subscript) and isinstance(x.slice, ast.Slice) and isinstance(x.value, ast.Name) and x.value.id == data:
        st = x.slice.step
        lo = x.slice.lower
        if isinstance(st, ast.Constant) and st.value == 2:
          if lo is None or (isinstance(lo, ast.Constant) and lo.value == 0):
            return 'even'
          if isinstance(lo, ast.Constant) and lo.value == 1:
            return 'odd'
    return None

  kinds = {name: slice_kind(vals[0]) for name, vals in defs.items()}
  even = [n for n, k in kinds.items() if k == 'even']
  odd = [n for n, k in kinds.items() if k == 'odd']
  if not ctx.check(R, len(even) == 1 and len(odd) == 1, f.node, f, f'slices {kinds}', 'expected one even-index slice data[::2] and one odd-index slice data[1::2]'):
    return
  ev, od = defs[even[0]][0], defs[odd[0]][0]
  evt, odt = defuse.norm(ev), defuse.norm(od)
  ok_even = isinstance(ev, ast.BinOp) and isinstance(ev.op, ast.BitAnd) and any(isinstance(x, ast.Constant) and x.value == 15 for x in (ev.left, ev.right)) and '<<' not in evt and 'left_shift' not in evt
  ctx.check(R, ok_even, f.node, f, f'even = {evt}', 'the even-index elements must be masked with 0x0F and stay in the low nibble')
  shifted = ('np.left_shift(' in odt and odt.replace(' ', '').find(',4)') > 0) or '<< 4' in odt
  ctx.check(R, shifted and '& 15' not in odt.split('left_shift')[0], f.node, f, f'odd = {odt}', 'the odd-index elements must be shifted left by 4 into the high nibble')
  ctx.check(R, 'astype(np.uint8)' in odt or 'np.uint8' in odt, f.node, f, 'odd dtype', 'the shifted nibble must be truncated to 8 bits')
  rets = [n for n in ast.walk(body) if isinstance(n, ast.Return)]
  ok = len(rets) == 1 and isinstance(rets[0].value, (ast.Call, ast.BinOp))
  if ok:
    rv = rets[0].value
    names = defuse.names_in(rv)
    isor = (isinstance(rv, ast.Call) and common.call_name(rv) == 'np.bitwise_or') or (isinstance(rv, ast.BinOp) and isinstance(rv.op, ast.BitOr))
    ok = isor and even[0] in names and odd[0] in names
  ctx.check(R, ok, f.node, f, 'return even | odd', 'the packed byte must be the bitwise OR of the low (even) and high (odd) nibble')
  pads = [c for c in common.calls_in(body) if common.call_name(c) == 'np.pad']
  okp = False
  for c in pads:
    a = [defuse.norm(x) for x in c.args]
    kw = {k.arg: defuse.norm(k.value) for k in c.keywords}
    if a[:2] == [odd[0], '(0, 1)'] and kw.get('constant_values', '0') == '0':
      st = common.stmt_of(f.node, c)
      guards = [g for g in ast.walk(body) if isinstance(g, ast.If) and any(x is st for x in ast.walk(g))]
      gt = ' '.join(defuse.norm(g.test) for g in guards)
      if even[0] in gt and odd[0] in gt and 'shape' in gt:
        okp = isinstance(st, ast.Assign) and isinstance(st.targets[0], ast.Name) and st.targets[0].id == odd[0]
  ctx.check(R, okp, f.node, f, 'odd tail padding', 'with an odd element count the high-nibble array must be padded with one zero (otherwise the OR broadcasts / fails and the last value is lost)')
  other = arms[0].orelse
  ctx.check(R, len(other) == 1 and isinstance(other[0], ast.Return) and defuse.norm(other[0].value) == data, f.node, f, 'unpacked widths', 'wider data must be stored unchanged')


def r3_fp16(ctx):
  R = 'C05.R3'
  ctx.rule(R, 'float16 constants are exactly astype(np.float16) of the tensor content', floor=5)
  reg = tables.registry(ctx)
  cg = callgraph.get(ctx)
  inl = defuse.Inliner(ctx.repo)
  for alg, ops in reg.items():
    if alg.name != 'FLOAT_CASTING':
      continue
    for op, entry in ops.items():
      ctx.instance(R)
      fi = ctx.repo.func(entry['materialize'].fq)
      tree = [ctx.repo.func(fq) for fq in cg.reachable([fi.fq]) if ctx.repo.func(fq).module.short == fi.module.short]
      found = 0
      for g in tree:
        for c in common.calls_in(g.node, nested=False):
          if common.call_name(c).endswith('NonLinearQuantParams'):
            found += 1
            kw = {k.arg: k.value for k in c.keywords}
            qd = kw.get('quantized_data')
            if not ctx.check(R, qd is not None, c, g, c, 'NonLinearQuantParams without quantized_data'):
              continue
            full = inl.inline(g, qd)
            txt = defuse.norm(full)
            ok = isinstance(full, ast.Call) and isinstance(full.func, ast.Attribute) and full.func.attr == 'astype' and len(full.args) == 1 and defuse.norm(full.args[0]) in ('np.float16', 'numpy.float16')
            inner = defuse.norm(full.func.value) if ok else ''
            ok = ok and inner.startswith('tfl_flatbuffer_utils.get_tensor_data(') and 'buffers' in inner
            ctx.check(R, ok, c, g, f'{op.name}: quantized_data = {txt[:110]}',
                      'float16 data must be <tensor content>.astype(np.float16) with nothing in between: a clip / scale / other rounding changes values '
                      '(round-to-nearest of out-of-range weights is +-inf, not +-65504)')
            nb = kw.get('num_bits')
            ctx.check(R, isinstance(nb, ast.Constant) and nb.value == 16, c, g, 'num_bits=16', 'float16 data must be annotated with 16 bits')
      ctx.check(R, found >= 1, fi.node, fi, f'{op.name}: NonLinearQuantParams', 'no float16 parameters are produced')
  nl = ctx.repo.func(f'{QTENS}:nonlinear_quant_params_to_tflite_type')
  lad = shared.extract_ladder(nl, lambda e: isinstance(e, ast.Name))
  ctx.check(R, shared.ladder_eval(lad, 16).endswith('FLOAT16'), nl.node, nl, '16 -> FLOAT16', '16-bit float params must be annotated FLOAT16')


def r6_axes_agreement(ctx):
  R = 'C05.R6'
  ctx.rule(R, 'statistics are reduced over, and parameters re-expanded along, the same set of axes', floor=2)
  c17.r9_rank_fix(ctx, R)
  rd = ctx.repo.func(f'{shared.MMU}:_get_reduce_dims')
  ctx.instance(R)
  src = defuse.norm(rd.node)
  ctx.check(R, 'range(len(' in src and '!=' in src, rd.node, rd, 'reduce dims', 'reduce dims must be every axis except the quantized one')


def r7_quantize_formula(ctx):
  c17.r7_narrow_and_quantize(ctx)
  if 'C17.R7' in ctx.rules:
    ctx.rules['C05.R7'] = ctx.rules.pop('C17.R7')
    for v in ctx.violations:
      if v.rule == 'C17.R7':
        v.rule = 'C05.R7'


def r8_constant_path(ctx):
  R = 'C05.R8'
  ctx.rule(R, 'constants are quantized with the very parameters that are annotated on the tensor', floor=1)
  f = ctx.repo.func(f'{shared.MMU}:_get_tensor_quant_params')
  ctx.instance(R)
  ctor = [c for c in common.calls_in(f.node) if common.call_name(c).endswith('UniformQuantParams')]
  if not ctx.check(R, len(ctor) == 2, f.node, f, f'{len(ctor)} UniformQuantParams constructions', 'expected the parameters and their copy carrying the quantized data'):
    return
  a = {k.arg: defuse.norm(k.value) for k in ctor[0].keywords}
  b = {k.arg: defuse.norm(k.value) for k in ctor[1].keywords}
  qd = b.pop('quantized_data', None)
  ctx.check(R, a == b, f.node, f, 'params used for quantisation == params returned', f'data is quantized with {a} but the tensor is annotated with {b}')
  ctx.check(R, qd == 'quantized_vars', f.node, f, f'quantized_data={qd}', 'the returned params must carry the quantized data')
  uq = [c for c in common.calls_in(f.node) if common.call_name(c).endswith('uniform_quantize')]
  ok = len(uq) == 1 and [defuse.norm(x) for x in uq[0].args] == ['tensor_content', 'quant_params']
  ctx.check(R, ok, f.node, f, 'uniform_quantize(tensor_content, quant_params)', 'the tensor content must be quantized with the parameters just computed')
  w = ctx.repo.func(f'{shared.MMU}:_get_tensor_transformation_params_wrapper')
  call = [c for c in common.calls_in(w.node) if common.call_name(c).endswith('_get_tensor_quant_params')]
  ok = len(call) == 1 and any(k.arg == 'tensor_content' and defuse.norm(k.value) == 'tensor_data' for k in call[0].keywords)
  ctx.check(R, ok, w.node, w, 'tensor_content=tensor_data', 'the content that is quantized must be the data of the tensor being materialised')
  inl = defuse.Inliner(ctx.repo, max_depth=0)
  td = defuse.norm(inl.inline(w, ast.Name(id='tensor_data', ctx=ast.Load())))
  ctx.check(R, td == 'tfl_flatbuffer_utils.get_tensor_data(tensor, graph_info.buffers)', w.node, w, f'tensor_data = {td}', 'tensor data must be read from the tensor\'s own buffer')
  gd = ctx.repo.func('utils.tfl_flatbuffer_utils:get_tensor_data')
  src = defuse.norm(gd.node)
  ctx.check(R, 'buffers[tensor.buffer]' in src and 'TENSOR_CODE_TO_TYPE[tensor.type]' in src and 'np.reshape(data, tensor.shape)' in src, gd.node, gd, 'decode by the tensor\'s own buffer / dtype / shape', 'constant data must be decoded with the tensor\'s own buffer, dtype and shape')


def run(ctx):
  ctx.assume('int4 storage: two values per byte, element 2i in the low nibble (O7)')
  shared.rule_ladders(ctx, 'C05.R1')
  r2_nibble_order(ctx)
  r3_fp16(ctx)
  c15.r3_idempotent_overwrite(ctx, 'C05.R4')
  shared.rule_clip_before_cast(ctx, 'C05.R5')
  r6_axes_agreement(ctx)
  r7_quantize_formula(ctx)
  r8_constant_path(ctx)
  shared.rule_rebuild_completeness(ctx, 'C05.R9')
