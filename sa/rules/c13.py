"""C13 - every accepted (op, config) pair is materialisable; others are refused."""
from __future__ import annotations

import ast
import itertools

from sa import callgraph
from sa import defuse
from sa import index
from sa import oracles
from sa import tables
from sa.consteval import EnumVal, Obj, Ref
from sa.rules import common
from sa.rules import shared

EXPLANATION = (
    'The accepted set is computed for the complete 25 024-row lattice by path '
    'enumeration of the acceptance functions found through the registry '
    '(OpQuantizationConfig.__post_init__, AlgorithmManagerApi.'
    'check_op_quantization_config, the algorithm check function, the unrolled '
    'policy). It is compared with an independent expansion of the JSON policy '
    'text and every accepted row is shown to have a total materialisation '
    '(registered materialiser, non-raising mode table, weight-op membership, '
    'per-channel dimension entry, fixed-range width entry, dtype ladder '
    'entry).'
)
LEVEL_TEXT = (
    'Exhaustive over the finite lattice named by the property: the accepted '
    'set is exactly the set the policy text declares (no acceptance path that '
    'bypasses or widens the policy), refusal is a ValueError at update time '
    'and a silent skip under "*", and no accepted row can hit a '
    'config-dependent raise or a missing table entry during materialisation. '
    'Interpreter soundness of the accepted pairs is not decided.'
)
LEVEL_NOTE = (
    'Trusted: the sa path enumerator; the JSON policy text as the declaration '
    'of what the runtime supports. Not decided: that LiteRT prepares and '
    'tracks the float model for each accepted row.'
)
TECHNIQUE = 'exhaustive decision-table extraction over the config lattice (static)'


def independent_policy(ctx):
  """{op name: set of frozen config keys} expanded from the JSON text by this
  checker (not by the repository's unrolling code)."""
  js = tables.module_const(ctx, 'default_policy', 'DEFAULT_JSON_POLICY')
  import json  # pylint: disable=g-import-not-at-top
  try:
    data = json.loads(js) if isinstance(js, str) else js
  except ValueError as e:
    raise index.AnalysisError(f'DEFAULT_JSON_POLICY is not valid JSON: {e}')
  out: dict[str, set] = {}
  for name, ops in data['ops_per_config'].items():
    c = data['configs'][name]
    acts = [None]
    if 'activation_tensor_config' in c:
      a = c['activation_tensor_config']
      acts = [(a['num_bits'], s, g, a['dtype']) for s in a['symmetric'] for g in a['granularity']]
    w = c['weight_tensor_config']
    ws = [(w['num_bits'], s, g, w['dtype']) for s in w['symmetric'] for g in w['granularity']]
    for op in ops:
      for a in acts:
        for wv in ws:
          out.setdefault(op, set()).add((a, wv, c['compute_precision'], bool(c['explicit_dequantize'])))
  return out


def cfg_key(cfg: Obj):
  def t(o):
    if o is None:
      return None
    f = o.fields
    g = f['granularity']
    d = f['dtype']
    return (f['num_bits'], f['symmetric'], getattr(g, 'value', g), getattr(d, 'value', d))
  f = cfg.fields
  cp = f['compute_precision']
  return (t(f['activation_tensor_config']), t(f['weight_tensor_config']), getattr(cp, 'value', cp), bool(f['explicit_dequantize']))


def r1_lattice(ctx):
  R = 'C13.R1'
  rs = ctx.rule(R, 'accepted set == declared policy on the full lattice; every accepted row materialises', floor=1)
  ctx.instance(R)
  reg = tables.registry(ctx)
  ALG = {a.name: a for a in tables.algorithm_names(ctx)}
  MM, FCA = ALG['MIN_MAX_UNIFORM_QUANT'], ALG['FLOAT_CASTING']
  OP = {o.name: o for o in tables.op_names(ctx)}
  selectors = [o for o in tables.op_names(ctx) if o.name not in ('ALL_SUPPORTED', 'CUSTOM_OP')]
  if len(selectors) != 23:
    raise index.AnalysisError(f'expected 23 operator selectors, found {len(selectors)}')
  CP = tables.enum(ctx, 'qtyping:ComputePrecision')
  acts = [None] + common.tensor_cfgs(ctx, [8, 16], [True, False], ['TENSORWISE'], ['INT'])
  weights = common.tensor_cfgs(ctx, [4, 8, 16], [True, False], ['TENSORWISE', 'CHANNELWISE'], ['INT', 'FLOAT'])
  declared = independent_policy(ctx)
  gtt = ctx.repo.func(f'{shared.MMU}:get_tensor_transformations')
  chk = ctx.repo.func('algorithm_manager_api:AlgorithmManagerApi.check_op_quantization_config')
  qdim = tables.module_const(ctx, 'utils.tfl_flatbuffer_utils', 'TFL_OP_TO_WEIGHT_QUANTIZED_DIM')
  qdim_ops = {getattr(k, 'name', k) for k in qdim}
  wo = {getattr(x, 'name', x) for x in tables.module_const(ctx, shared.MMU, '_SUPPORTED_WEIGHT_ONLY_OPS')}
  drq = {getattr(x, 'name', x) for x in tables.module_const(ctx, shared.MMU, '_SUPPORTED_DRQ_OPS')}
  fcast_ops = {getattr(x, 'name', x) for x in tables.module_const(ctx, shared.FCAST, 'SUPPORTED_WEIGHT_QUANT_OPS')}
  fixed = fixed_range_tables(ctx)
  qt = ctx.repo.func(f'{shared.QTENS}:quant_params_to_tflite_type')
  # The function is RUN for the width (a ladder, a table or a dict lookup are the same to this rule; round 18: a
  # table-driven rewrite was reported because only the if/elif spelling was recognised).
  width_cache: dict[int, bool] = {}

  def has_tflite_type(bits: int) -> bool:
    if bits not in width_cache:
      o = tables.single(ctx, qt.fq, [bits])
      width_cache[bits] = o.kind == 'return'
    return width_cache[bits]
  rows = accepted_n = refused_ctor = 0
  rs.exhaustive = True
  gtt_cache = {}
  accepted_by_op: dict[str, set] = {}
  bad_counts: dict[str, int] = {}

  def report(ok, where_func, key, msg):
    if ok:
      ctx.check(R, True, where_func.node, where_func, key, '')
      return
    k = msg[:50]
    bad_counts[k] = bad_counts.get(k, 0) + 1
    if bad_counts[k] <= 4:
      ctx.check(R, False, where_func.node, where_func, key, msg)
    else:
      ctx.rule(R).obligations += 1

  # every field of the ACTIVATION config is varied too (granularity, dtype) - against a reduced set of weight configs
  acts_x = common.tensor_cfgs(ctx, [8, 16], [True, False], ['CHANNELWISE'], ['INT']) + common.tensor_cfgs(ctx, [8], [True, False], ['TENSORWISE'], ['FLOAT'])
  weights_x = common.tensor_cfgs(ctx, [8], [True], ['TENSORWISE', 'CHANNELWISE'], ['INT'])
  # ... and the third granularity with a block size: the policy declares no BLOCKWISE entry, so every such row must be refused
  weights_b = common.tensor_cfgs(ctx, [4, 8], [True], ['BLOCKWISE'], ['INT'], block_sizes=(32,))
  grid = list(itertools.product(acts, weights, CP, [False, True])) + list(itertools.product(acts_x, weights_x, CP, [False, True])) \
      + list(itertools.product([None, acts[2]], weights_b, CP, [False, True]))
  for a, w, cp, ed in grid:
    cfg = tables.construct(ctx, common.OPCFG, activation_tensor_config=a, weight_tensor_config=w, compute_precision=cp, explicit_dequantize=ed)
    for alg in (MM, FCA):
      for op in selectors:
        rows += 1
        if not isinstance(cfg, Obj):
          refused_ctor += 1
          continue
        ok, why = tables.accepts(ctx, alg, op, cfg)
        key = cfg_key(cfg)
        label = f'{alg.name}/{op.name}/act={key[0]}/weight={key[1]}/{key[2]}/explicit={key[3]}'
        if alg is MM:
          want = key in declared.get(op.name, set())
          if ok != want:
            report(False, chk, label,
                   f'{op.name} with {key}: the API {"accepts" if ok else "refuses"} it but the policy text {"declares" if want else "does not declare"} it')
            if ok:
              accepted_by_op.setdefault(op.name, set()).add(key)
            continue
        else:
          wf = w.fields
          want = (cp.name == 'FLOAT' and a is None and op.name in fcast_ops and wf['num_bits'] == 16 and wf['dtype'].name == 'FLOAT')
          if ok != want:
            report(False, chk, label, f'float casting {"accepts" if ok else "refuses"} {op.name} with {key}; expected {"accept" if want else "refuse"}')
            continue
        if not ok:
          report(why == 'ValueError', chk, label, f'refusal of {label} is a {why}, must be ValueError')
          continue
        accepted_n += 1
        accepted_by_op.setdefault(op.name, set()).add(key)
        # ---- obligations on an accepted row
        entry = reg.get(alg, {}).get(op)
        report(entry is not None and isinstance(entry.get('materialize'), Ref), chk, label, f'accepted row {label} has no registered materialiser')
        if alg is FCA:
          continue
        ck = cfg.frozen()
        if ck not in gtt_cache:
          res = []
          for inb, const in itertools.product([True, False], [True, False]):
            outs = tables.call(ctx, gtt.fq, [cfg, inb, const])
            res.append(all(o.kind == 'return' for o in outs))
          gtt_cache[ck] = all(res)
        report(gtt_cache[ck], gtt, label, f'accepted row {label}: get_tensor_transformations raises for it (accepted, then fails during materialisation)')
        is_srq = cp.name == 'INTEGER' and a is not None
        if not is_srq:
          pool = drq if cp.name == 'INTEGER' else wo
          report(op.name in pool, gtt, label,
                 f'accepted row {label}: {op.name} is not in the {"dynamic-range" if cp.name == "INTEGER" else "weight-only"} op set, so its weight config is silently ignored')
        if w.fields['granularity'].name == 'CHANNELWISE' and op.name in oracles.WEIGHT_OPS:
          report(op.name in qdim_ops or op.name == 'BATCH_MATMUL', gtt, label, f'accepted row {label}: no per-channel quantized dimension is defined for {op.name}')
        if is_srq and op.name in fixed:
          report(a.fields['num_bits'] in fixed[op.name], gtt, label, f'accepted row {label}: no fixed output range for {a.fields["num_bits"]}-bit activations of {op.name}')
        for bits in [w.fields['num_bits']] + ([a.fields['num_bits']] if a is not None else []):
          report(has_tflite_type(bits), qt, label, f'accepted row {label}: no TFLite dtype for width {bits}')
  ctx.extra['lattice_rows'] = rows
  ctx.extra['accepted_rows'] = accepted_n
  ctx.extra['refused_at_construction'] = refused_ctor
  if rows != 25024:
    raise index.AnalysisError(f'{R}: lattice has {rows} rows, expected 25024')
  ctx.sample(R, {'rows': rows, 'accepted': accepted_n, 'refused_by_post_init': refused_ctor,
                 'example_accepted': sorted(str(k) for k in accepted_by_op.get('FULLY_CONNECTED', []))[:2]})
  # every declared cell inside the lattice is accepted (no declared config silently unreachable)
  for op, keys in declared.items():
    for k in keys:
      a, w, cpv, ed = k
      in_lattice = (a is None or (a[0] in (8, 16) and a[2] == 'TENSORWISE')) and w[0] in (4, 8, 16) and w[2] in ('TENSORWISE', 'CHANNELWISE')
      if in_lattice:
        report(k in accepted_by_op.get(op, set()), chk, f'declared {op} {k}', f'policy declares {op} with {k} but the API refuses it')


def fixed_range_tables(ctx) -> dict[str, dict[int, Obj]]:
  """{op name: {activation bits: UniformQuantParams}} of the fixed-range materialisers."""
  out = {}
  reg = tables.registry(ctx)
  it = tables.interp(ctx)
  for alg, ops in reg.items():
    if alg.name != 'MIN_MAX_UNIFORM_QUANT':
      continue
    for op, entry in ops.items():
      fi = ctx.repo.func(entry['materialize'].fq)
      calls = [c for c in common.calls_in(fi.node) if common.call_name(c).endswith('materialize_op_with_output_activation_constraint')]
      if not calls:
        continue
      captured = {}

      def hook(args, kwargs, captured=captured):
        captured['table'] = args[3] if len(args) > 3 else kwargs.get('output_activation_constraints')
        return []
      it2 = tables.interp(ctx, hooks={f'{shared.MMU}:materialize_op_with_output_activation_constraint': hook})
      from sa import absint  # pylint: disable=g-import-not-at-top
      it2.outcomes(fi, [absint.Opaque('op_info'), absint.Opaque('graph_info'), absint.Opaque('qsv')])
      t = captured.get('table')
      if not isinstance(t, dict):
        raise index.AnalysisError(f'{fi.fq}: the fixed output range table is no longer foldable')
      for bits, o in t.items():
        if not isinstance(o, Obj) or not all(isinstance(o.fields.get(k), (int, float)) for k in ('scale', 'zero_point')):
          raise index.AnalysisError(f'{fi.fq}: fixed range entry for {bits} bits does not fold to numbers: {o!r}')
      out[op.name] = t
  return out


def r2_dispatch(ctx):
  R = 'C13.R2'
  rs = ctx.rule(R, 'dispatch: skip_checks bypasses everything; unregistered ops are refused; the registered policy is consulted', floor=1)
  ctx.instance(R)
  ALG = {a.name: a for a in tables.algorithm_names(ctx)}
  OP = {o.name: o for o in tables.op_names(ctx)}
  CP = {c.name: c for c in tables.enum(ctx, 'qtyping:ComputePrecision')}
  w8 = tables.tensor_config(ctx, num_bits=8)
  w16 = tables.tensor_config(ctx, num_bits=16)
  chk = ctx.repo.func('algorithm_manager_api:AlgorithmManagerApi.check_op_quantization_config')
  rs.exhaustive = True
  for alg in (ALG['MIN_MAX_UNIFORM_QUANT'], ALG['FLOAT_CASTING']):
    for op in (OP['CUSTOM_OP'], OP['ALL_SUPPORTED'], OP['FULLY_CONNECTED'], OP['SOFTMAX']):
      for w in (w8, w16):
        for skip in (False, True):
          cfg = tables.construct(ctx, common.OPCFG, weight_tensor_config=w, compute_precision=CP['INTEGER'], skip_checks=skip)
          ok, why = tables.accepts(ctx, alg, op, cfg)
          if skip:
            ctx.check(R, ok, chk.node, chk, f'{alg.name}/{op.name}/skip_checks', 'skip_checks=True must bypass every check')
          elif op.name in ('CUSTOM_OP', 'ALL_SUPPORTED'):
            ctx.check(R, (not ok) and why == 'ValueError', chk.node, chk, f'{alg.name}/{op.name}', f'unregistered operator {op.name} must be refused with ValueError (got {"accept" if ok else why})')
  # unknown algorithm
  cfg = tables.construct(ctx, common.OPCFG, weight_tensor_config=w8, compute_precision=CP['INTEGER'])
  ok, why = tables.accepts(ctx, 'no_such_algorithm', OP['FULLY_CONNECTED'], cfg)
  ctx.check(R, (not ok) and why == 'ValueError', chk.node, chk, 'unknown algorithm', 'an unknown algorithm must be refused with ValueError')
  # registered policy for MIN_MAX is the unrolled default policy; float casting has an empty one
  pol = tables.policies(ctx)
  ctx.check(R, isinstance(pol.get(ALG['MIN_MAX_UNIFORM_QUANT']), dict) and len(pol[ALG['MIN_MAX_UNIFORM_QUANT']]) >= 20, chk.node, chk, 'registered policy', 'MIN_MAX_UNIFORM_QUANT must be registered with the default policy')
  ctx.check(R, pol.get(ALG['FLOAT_CASTING']) == {}, chk.node, chk, 'float casting policy', 'FLOAT_CASTING is expected to have an empty policy')


def r4_float_casting_registry(ctx):
  R = 'C13.R4'
  ctx.rule(R, 'ops registered for float casting == SUPPORTED_WEIGHT_QUANT_OPS', floor=1)
  ctx.instance(R)
  reg = tables.registry(ctx)
  fcast_ops = {getattr(x, 'name', x) for x in tables.module_const(ctx, shared.FCAST, 'SUPPORTED_WEIGHT_QUANT_OPS')}
  m = ctx.repo.mod('algorithm_manager')
  for alg, ops in reg.items():
    if alg.name == 'FLOAT_CASTING':
      got = {o.name for o in ops}
      ctx.check(R, got == fcast_ops, m.tree, m, f'registered {sorted(got)}', f'float casting registers {sorted(got)} but its check accepts {sorted(fcast_ops)}')
  _, info = tables.manager_instance(ctx)
  for where, lens in info['zips']:
    ctx.check(R, len(set(lens)) == 1 and None not in lens, where, m, f'zip lengths {lens}', 'the op-name and materialiser tuples of a registration loop differ in length (zip truncates silently)')


def run(ctx):
  ctx.assume('the JSON policy text declares what the runtime supports')
  r1_lattice(ctx)
  r2_dispatch(ctx)
  r4_float_casting_registry(ctx)
  # the '*' clause: what resolution lets through is decided by the CURRENT policy, every time
  from sa.rules import c11, c19  # pylint: disable=g-import-not-at-top
  c19._relabel(ctx, 'C11.R4', 'C13.R6', 'resolution asks the support check for every applicable rule, on every path, and only its ValueError means "skip" (C11.R4, resolution part)',
               lambda c: c11.r4_exception_discipline(c, resolve_only=True))
  ctx.rules['C13.R6'].floor = 1  # the resolution site only
  c19._relabel(ctx, 'C11.R1', 'C13.R7', 'resolution keeps no memory: a verdict is never reused after the policy or the rule changed (C11.R1)', c11.r1_purity)
  c11.r23_resolution_table(ctx, 'C13.R8', 'a rule whose config the policy refuses for the target op is skipped at resolution time, for * and op-specific rules alike (single-rule stores)', single_only=True)
