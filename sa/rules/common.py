"""Helpers shared by the rule modules."""
from __future__ import annotations

import ast
import json
import re
from typing import Any, Iterator, Optional

from sa import absint
from sa import index
from sa import tables
from sa.consteval import EnumVal, Obj

OPCFG = 'qtyping:OpQuantizationConfig'
TCFG = 'qtyping:TensorQuantizationConfig'
RECIPE_KEYS = ('regex', 'operation', 'algorithm_key', 'op_config')
DEFAULT_RECIPES = (
    'default_a8w8_recipe.json',
    'default_a16w8_recipe.json',
    'default_af32w8float_recipe.json',
    'default_af32w4float_recipe.json',
    'dynamic_wi8_afp32_recipe.json',
)
RECIPE_DIR = 'ai_edge_quantizer/recipes/'


# ------------------------------------------------------------- AST helpers
def walk_no_nested(node: ast.AST) -> Iterator[ast.AST]:
  """ast.walk that does not descend into nested function/class definitions."""
  stack = list(ast.iter_child_nodes(node))
  while stack:
    n = stack.pop()
    yield n
    if isinstance(n, (ast.FunctionDef, ast.AsyncFunctionDef, ast.ClassDef,
                      ast.Lambda)):
      continue
    stack.extend(ast.iter_child_nodes(n))


def calls_in(node: ast.AST, nested: bool = True) -> list[ast.Call]:
  it = ast.walk(node) if nested else walk_no_nested(node)
  out = [n for n in it if isinstance(n, ast.Call)]
  out.sort(key=lambda c: (c.lineno, c.col_offset))
  return out


def call_name(c: ast.Call) -> str:
  try:
    return ast.unparse(c.func)
  except Exception:  # pylint: disable=broad-except
    return '?'


def const_subscript_keys(node: ast.AST, base_pred) -> list[tuple[str, ast.Subscript]]:
  """Constant string keys k of subscripts `base[k]` whose base satisfies pred."""
  out = []
  for n in ast.walk(node):
    if isinstance(n, ast.Subscript) and isinstance(n.slice, ast.Constant) and (
        isinstance(n.slice.value, str)
    ):
      if base_pred(n.value):
        out.append((n.slice.value, n))
  return out


def is_name(node, name: str) -> bool:
  return isinstance(node, ast.Name) and node.id == name


def unparse(node) -> str:
  return ast.unparse(node)


def stmt_of(func_node: ast.AST, target: ast.AST) -> Optional[ast.stmt]:
  """Innermost statement of func_node that contains target."""
  best = None
  for st in ast.walk(func_node):
    if isinstance(st, ast.stmt):
      for sub in ast.walk(st):
        if sub is target:
          if best is None or (st.lineno >= best.lineno and _contains(best, st)):
            best = st
          break
  return best


def _contains(outer: ast.AST, inner: ast.AST) -> bool:
  return any(n is inner for n in ast.walk(outer))


def parents_map(root: ast.AST) -> dict[int, ast.AST]:
  out = {}
  for n in ast.walk(root):
    for c in ast.iter_child_nodes(n):
      out[id(c)] = n
  return out


# --------------------------------------------------------- recipe validation
def json_roundtrip(v):
  """What json.dumps/json.loads does to folded values (str enums -> str)."""
  if isinstance(v, EnumVal):
    return v.value
  if isinstance(v, dict):
    return {json_roundtrip(k): json_roundtrip(x) for k, x in v.items()}
  if isinstance(v, (list, tuple)):
    return [json_roundtrip(x) for x in v]
  return v


def validate_recipe_entry(ctx, rule: str, rel: str, i: int, entry: Any,
                          check_support: bool = True) -> Optional[Obj]:
  """Validates one rule of a recipe (list entry) against the declared schema.

  Returns the folded OpQuantizationConfig (or None for no_quantize rules).
  """
  where = f'{rel}:rule[{i}]'
  scope = rel
  ok = isinstance(entry, dict)
  ctx.check(rule, ok, where, scope, f'rule[{i}]', 'recipe rule is not an object')
  if not ok:
    return None
  unknown = sorted(set(entry) - set(RECIPE_KEYS))
  ctx.check(rule, not unknown, where, scope, f'rule[{i}] keys {unknown}',
            f'unknown recipe keys {unknown} (load_quantization_recipe reads only {RECIPE_KEYS})')
  for k in ('regex', 'operation', 'algorithm_key'):
    if not ctx.check(rule, k in entry, where, scope, f'rule[{i}].{k}',
                     f'required key {k!r} missing'):
      return None
  try:
    re.compile(entry['regex'])
    rx_ok = True
  except (re.error, TypeError):
    rx_ok = False
  ctx.check(rule, rx_ok, where, scope, f'rule[{i}].regex={entry["regex"]!r}',
            'regex does not compile')
  ops = {o.value: o for o in tables.op_names(ctx)}
  algs = {a.value: a for a in tables.algorithm_names(ctx)}
  if not ctx.check(rule, entry['operation'] in ops, where, scope,
                   f'rule[{i}].operation={entry["operation"]!r}',
                   'operation is not a TFLOperationName value'):
    return None
  if not ctx.check(rule, entry['algorithm_key'] in algs, where, scope,
                   f'rule[{i}].algorithm_key={entry["algorithm_key"]!r}',
                   'algorithm_key is not an AlgorithmName value'):
    return None
  alg = algs[entry['algorithm_key']]
  if alg.name == 'NO_QUANTIZE':
    return None
  if not ctx.check(rule, 'op_config' in entry, where, scope,
                   f'rule[{i}].op_config', 'op_config missing for a quantizing rule'):
    return None
  outs = tables.call(ctx, f'{OPCFG}.from_dict', [entry['op_config']])
  good = [o for o in outs if o.kind == 'return' and isinstance(o.value, Obj)]
  bad = [o for o in outs if o.kind == 'raise']
  if not ctx.check(
      rule, good and not bad, where, scope, f'rule[{i}].op_config',
      'OpQuantizationConfig.from_dict raises '
      + ', '.join(f'{o.exc}({o.msg})' for o in bad) + ' for this op_config'):
    return None
  cfg = good[0].value
  type_problems = config_type_problems(ctx, cfg)
  ctx.check(rule, not type_problems, where, scope, f'rule[{i}].op_config',
            '; '.join(type_problems))
  if check_support and not type_problems and ops[entry['operation']].name != 'ALL_SUPPORTED':
    okc, why = tables.accepts(ctx, alg, ops[entry['operation']], cfg)
    ctx.check(rule, okc, where, scope,
              f'rule[{i}] {entry["operation"]} {entry["algorithm_key"]}',
              f'add_quantization_config would reject this rule ({why})')
  return cfg


def config_type_problems(ctx, cfg: Obj) -> list[str]:
  """Enum-typed fields must hold enum values; ints ints; bools bools."""
  problems = []

  def check_obj(o: Obj, fq: str, prefix: str):
    ci = ctx.repo.cls(fq)
    for f in ci.fields:
      v = o.fields.get(f.name)
      if v is None:
        continue
      ann_ci = tables.annotation_class(ctx, ci.module, f.annotation) if f.annotation is not None else None
      if ann_ci is not None and ann_ci.is_enum:
        vals = [m.value for m in ctx.ev.enum_members(ann_ci)]
        raw = v.value if isinstance(v, EnumVal) else v
        if raw not in vals:
          problems.append(f'{prefix}{f.name}={raw!r} is not a {ann_ci.name} value')
      elif ann_ci is not None and ann_ci.is_dataclass:
        if isinstance(v, Obj):
          check_obj(v, ann_ci.fq, f'{prefix}{f.name}.')
        else:
          problems.append(f'{prefix}{f.name} is not converted to {ann_ci.name}')
      elif f.annotation is not None:
        t = ast.unparse(f.annotation)
        if t == 'int' and not (isinstance(v, int) and not isinstance(v, bool)):
          problems.append(f'{prefix}{f.name}={v!r} is not an int')
        if t == 'bool' and not isinstance(v, bool):
          problems.append(f'{prefix}{f.name}={v!r} is not a bool')

  check_obj(cfg, OPCFG, '')
  return problems


def to_dict(ctx, cfg: Obj):
  fq = f'{cfg.cls}.to_dict'
  out = tables.single(ctx, fq, [cfg])
  if out.kind != 'return':
    raise index.AnalysisError(f'{fq} raises {out.exc}')
  return out.value


# ----------------------------------------------------------- config lattice
def tensor_cfgs(ctx, bits, syms, grans, dtypes, block_sizes=(0,)) -> list[Obj]:
  out = []
  G = {g.name: g for g in tables.enum(ctx, 'qtyping:QuantGranularity')}
  D = {d.name: d for d in tables.enum(ctx, 'qtyping:TensorDataType')}
  for b in bits:
    for s in syms:
      for g in grans:
        for d in dtypes:
          for bs in block_sizes:
            o = tables.tensor_config(ctx, num_bits=b, symmetric=s,
                                     granularity=G[g], dtype=D[d], block_size=bs)
            if isinstance(o, Obj):
              out.append(o)
  return out


# ------------------------------------------------- name-independent helpers
def loop_targets(func_node: ast.AST, iter_suffix: str) -> list[tuple[ast.For, list[str]]]:
  """For-loops whose iterated expression (looking through enumerate/zip/list)
  ends with `iter_suffix` -> (loop, names bound by its target, innermost last)."""
  out = []
  for l in walk_no_nested(func_node):
    if not isinstance(l, ast.For):
      continue
    it = l.iter
    base = it.args[0] if isinstance(it, ast.Call) and call_name(it) in ('enumerate', 'list', 'sorted', 'reversed') and it.args else it
    if ast.unparse(base).endswith(iter_suffix):
      names = [n.id for n in ast.walk(l.target) if isinstance(n, ast.Name)]
      out.append((l, names))
  return out


def loop_var(func_node: ast.AST, iter_suffix: str) -> str:
  """Name of the element variable of the (single) loop over `...<iter_suffix>`."""
  ls = loop_targets(func_node, iter_suffix)
  if len(ls) != 1:
    raise index.AnalysisError(f'expected one loop over *{iter_suffix}, found {len(ls)}')
  return ls[0][1][-1]


def named_args(ctx, f, call: ast.Call) -> dict:
  """parameter name -> argument expression of a call, however it is written: keyword arguments as given, positional
  ones through the parameter list of the repository function the call resolves to (the index keeps such calls in
  positional form - sa/normalize.py). Positional arguments of an unresolved call are not named."""
  out = {}
  names = ctx.repo._callee_params(f.module, f, call.func, set()) if f is not None else None  # pylint: disable=protected-access
  if names:
    for n, a in zip(names, call.args):
      if not isinstance(a, ast.Starred):
        out[n] = a
  for k in call.keywords:
    if k.arg is not None:
      out[k.arg] = k.value
  return out


def _leaves(body: list) -> bool:
  return bool(body) and isinstance(body[-1], (ast.Continue, ast.Break, ast.Return, ast.Raise))


def conditions_at(fn_node: ast.AST, target: ast.AST) -> Optional[list]:
  """The branch conditions under which `target` (a statement or an expression inside one) executes, within its
  innermost loop or the function: [(test expression, polarity)] from the enclosing ifs AND from the guard clauses that
  precede it (`if T: continue / return / raise / break` earlier in an enclosing block contributes (T, False)).
  Both spellings of a condition - nesting and guard clause - give the same list. None if target is not found."""
  def search(stmts, conds):
    for k, st in enumerate(stmts):
      if st is target or any(n is target for n in ast.walk(st) if not isinstance(st, (ast.FunctionDef, ast.AsyncFunctionDef, ast.ClassDef))):
        here = list(conds)
        for prev in stmts[:k]:
          if isinstance(prev, ast.If) and not prev.orelse and _leaves(prev.body):
            here.append((prev.test, False))
          elif isinstance(prev, ast.If) and prev.orelse and _leaves(prev.body) and not _leaves(prev.orelse):
            here.append((prev.test, False))
          elif isinstance(prev, ast.If) and prev.orelse and _leaves(prev.orelse) and not _leaves(prev.body):
            here.append((prev.test, True))
        if st is target:
          return here
        if isinstance(st, ast.If):
          if any(n is target for n in ast.walk(st.test)):
            return here
          r = search(st.body, here + [(st.test, True)])
          if r is not None:
            return r
          return search(st.orelse, here + [(st.test, False)])
        if isinstance(st, (ast.For, ast.While)):
          if any(n is target for x in ([st.iter] if isinstance(st, ast.For) else [st.test]) for n in ast.walk(x)):
            return here
          r = search(st.body, [])       # conditions are collected per iteration
          if r is not None:
            return r
          return search(st.orelse, here)
        if isinstance(st, ast.Try):
          for blk in [st.body, st.orelse, st.finalbody] + [h.body for h in st.handlers]:
            r = search(blk, here)
            if r is not None:
              return r
          return here
        if isinstance(st, ast.With):
          r = search(st.body, here)
          return r if r is not None else here
        return here
    return None
  return search(getattr(fn_node, 'body', []), [])


def holds_at(fn_node: ast.AST, target: ast.AST, accepted) -> bool:
  """Is one of the conditions of `conditions_at` (with its polarity, after normalising `not`) accepted by the
  predicate `accepted(text)`? `text` is the unparsed condition that is TRUE when target runs."""
  conds = conditions_at(fn_node, target)
  if conds is None:
    return False
  for test, pol in conds:
    for t in true_forms(test, pol):
      if accepted(t):
        return True
  return False


_NEGOP = {ast.Eq: ast.NotEq, ast.NotEq: ast.Eq, ast.Is: ast.IsNot, ast.IsNot: ast.Is, ast.In: ast.NotIn, ast.NotIn: ast.In,
          ast.Lt: ast.GtE, ast.GtE: ast.Lt, ast.Gt: ast.LtE, ast.LtE: ast.Gt}


def true_forms(test: ast.expr, polarity: bool, as_nodes: bool = False) -> list:
  """Texts of the facts that hold when `test` evaluates to `polarity`: the condition itself (negated if needed), and
  the conjuncts of an `and` that is true / the negated disjuncts of an `or` that is false."""
  def neg(e):
    if isinstance(e, ast.UnaryOp) and isinstance(e.op, ast.Not):
      return e.operand
    if isinstance(e, ast.Compare) and len(e.ops) == 1 and type(e.ops[0]) in _NEGOP:
      return ast.Compare(left=e.left, ops=[_NEGOP[type(e.ops[0])]()], comparators=e.comparators)
    return ast.UnaryOp(op=ast.Not(), operand=e)
  e = test if polarity else neg(test)
  out = [e]
  if isinstance(e, ast.BoolOp) and isinstance(e.op, ast.And):
    out += list(e.values)
  if isinstance(e, ast.UnaryOp) and isinstance(e.op, ast.Not) and isinstance(e.operand, ast.BoolOp) and isinstance(e.operand.op, ast.Or):
    out += [neg(v) for v in e.operand.values]
  return out if as_nodes else [ast.unparse(x) for x in out]


def facts_at(fn_node: ast.AST, target: ast.AST) -> list:
  """Expressions (ast nodes) known to be true when `target` executes (see conditions_at / true_forms)."""
  out = []
  for test, pol in conditions_at(fn_node, target) or []:
    out += true_forms(test, pol, as_nodes=True)
  return out
