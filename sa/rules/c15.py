"""C15 - shared constants are quantized consistently or the request is rejected."""
from __future__ import annotations

import ast
import itertools

from sa import callgraph
from sa import cfg as cfgmod
from sa import defuse
from sa import index
from sa import tables
from sa.consteval import EnumVal, Obj
from sa.rules import common
from sa.rules import shared

EXPLANATION = (
    'Must-call of the buffer-sharing check on every path of plan generation; '
    'coverage of the buffer->tensors map (every operand occurrence of every '
    'operator of every subgraph contributes an entry; only the absent operand '
    '-1 may be skipped); decision table of the compatibility predicate over '
    'all transformation pairs x parameter equality; agreement of the '
    'float-source / quantized-source classification with the effect of each '
    'registered transformation on its source tensor; idempotent buffer '
    'overwrite; exact parameter equality; the group of sharers is compared '
    'unfiltered and every operator (known or not) records a result for its '
    'tensors.'
)
LEVEL_TEXT = (
    'Decides the structural guarantees that make shared constants safe: the '
    'sharing check cannot be bypassed, sees every user of a buffer (including '
    'the same tensor used by several operators), and accepts two users only '
    'if they leave the stored bytes in one consistent form (decision table, '
    'exhaustive over 5x5 transformations x equal/different parameters); the '
    'buffer is overwritten from precomputed data and never re-read.'
    ' Sharing simulation: for every assignment of requests to the sharers of a buffer (four layouts) the check rejects exactly the conflicting ones, in any order.'
)
LEVEL_NOTE = (
    'Trusted: sa engines, the semantics of the five QuantTransformation '
    'members as documented in qtyping.py. Not decided: byte-level agreement on '
    'concrete models.'
)
TECHNIQUE = 'CFG must-call / per-iteration path rules + decision tables + sharing simulation over all request assignments (abstract interpretation) (static)'

PG = 'params_generator:ParamsGenerator'
FBU = 'utils.tfl_flatbuffer_utils'


def r1_must_call(ctx):
  R = 'C15.R1'
  ctx.rule(R, 'the buffer-sharing check runs on every path of plan generation, after all operators were visited', floor=1)
  cg = callgraph.get(ctx)
  gen = ctx.repo.func(f'{PG}.generate_quantization_parameters')
  ctx.instance(R)
  g = cfgmod.build(gen.node)
  chk_fq = f'{PG}._check_buffer_sharing'
  via = set()
  for n in g.nodes:
    for c in n.calls():
      for s in cg.sites.get(gen.fq, []):
        if s.node is c:
          for callee in s.callees:
            if callee.fq == chk_fq:
              via.add(n.id)
            else:
              # unconditional call inside the callee
              gc = cfgmod.build(callee.node)
              inner = {m.id for m in gc.nodes for c2 in m.calls() if common.call_name(c2).endswith('_check_buffer_sharing')}
              if inner and gc.every_path_passes(gc.entry.id, gc.exit.id, inner):
                via.add(n.id)
  ok = bool(via) and g.every_path_passes(g.entry.id, g.exit.id, via)
  path = None
  if via and not ok:
    p = g.witness_path(g.entry.id, g.exit.id, via)
    path = g.describe_path(p) if p else None
  ctx.check(R, ok, gen.node, gen, '_check_buffer_sharing on every path to return',
            'generate_quantization_parameters can return a plan without checking tensors that share a buffer', path=path)
  loops = [n for n in g.nodes if n.kind == 'for' and 'subgraphs' in ast.unparse(n.ast.iter)]
  if loops and via:
    after = g.reachable([d for d, lab in g.succ[loops[0].id] if lab == 'exit'])
    ctx.check(R, via <= after, gen.node, gen, 'check after the operator loops', 'the sharing check must run after all operators were visited')
  chk = ctx.repo.func(chk_fq)
  raises = [n for n in common.walk_no_nested(chk.node) if isinstance(n, ast.Raise)]
  ctx.check(R, len(raises) >= 1, chk.node, chk, 'raise on incompatibility', 'incompatible sharers must be rejected')
  _group_scan(ctx, R, chk)


def _group_scan(ctx, R, chk):
  """Every buffer group is visited unfiltered: the first sharer is compared with every later one."""
  defs = defuse.own_assignments(chk.node)
  inl = defuse.Inliner(ctx.repo, max_depth=0)
  fors = sorted((n for n in common.walk_no_nested(chk.node) if isinstance(n, ast.For)), key=lambda n: n.lineno)
  if not ctx.check(R, len(fors) == 2 and fors[1] in list(ast.walk(fors[0])), chk.node, chk, 'loops',
                   'the check must visit every buffer group and every later tensor of the group'):
    return
  outer, inner = fors
  src = defuse.norm(inl.inline(chk, outer.iter))
  ctx.check(R, src in ('self.buffer_to_tensors.values()',), outer, chk, outer.iter, 'the groups must be all values of the buffer->tensors map')
  if not (isinstance(outer.target, ast.Name) and isinstance(inner.target, ast.Name)):
    raise index.AnalysisError(f'{chk.fq}: loop targets are not plain names')
  G, T = outer.target.id, inner.target.id
  ctx.check(R, defs.get(G) == [None] and defs.get(T) == [None], outer, chk, f'group variable {G}',
            'the group of sharers is replaced or filtered before it is compared: a sharer left out of the group is never checked')
  it = defuse.norm(inl.inline(chk, inner.iter))
  ctx.check(R, it in (f'{G}[1:]', G), inner, chk, inner.iter, 'every tensor after the first must be compared with the first')
  for n in common.walk_no_nested(outer):
    if isinstance(n, ast.If) and n not in list(ast.walk(inner)) and any(isinstance(x, (ast.Continue, ast.Break, ast.Return)) for st in n.body + n.orelse for x in ast.walk(st)):
      t = defuse.norm(inl.inline(chk, n.test))
      ctx.check(R, t in (f'len({G}) <= 1', f'len({G}) < 2', f'len({G}) == 1', f'not {G}[1:]'), n, chk, n.test, 'only groups with a single entry may be skipped')
  for n in common.walk_no_nested(inner):
    if isinstance(n, (ast.Continue, ast.Break)):
      # leaving the iteration is fine once the pair was found compatible (`if compatible(...): continue` before the raise)
      conds = common.conditions_at(inner, n) or []
      compared = isinstance(n, ast.Continue) and any(pol and any(isinstance(c, ast.Call) and common.call_name(c).endswith('_compatible_tensor_transformation_params') for c in ast.walk(t)) for t, pol in conds)
      ctx.check(R, compared, n, chk, n, 'a sharer is skipped inside the comparison loop')
  calls = [c for c in common.calls_in(chk.node) if common.call_name(c).endswith('_compatible_tensor_transformation_params')]
  if not ctx.check(R, len(calls) == 1 and calls[0] in list(ast.walk(inner)), chk.node, chk, 'compatibility call', 'the compatibility predicate must decide for every later sharer'):
    return
  c = calls[0]
  args = sorted(defuse.norm(inl.inline(chk, x)).replace('tfl_flatbuffer_utils.', '') for x in list(c.args) + [k.value for k in c.keywords])
  want = sorted([f'self.model_quant_results[get_tensor_name({G}[0])]', f'self.model_quant_results[get_tensor_name({T})]'])
  ctx.check(R, args == want, c, chk, c, 'the predicate must compare the recorded results of the first sharer and of the current one')
  # the predicate's verdict leads to the raise
  g = cfgmod.build(chk.node)
  tests = [n for n in g.nodes if n.kind == 'if' and c in list(ast.walk(n.ast.test))]
  ok = False
  for n in tests:
    neg = isinstance(n.ast.test, ast.UnaryOp) and isinstance(n.ast.test.op, ast.Not)
    for d, lab in g.succ[n.id]:
      if lab == ('T' if neg else 'F'):
        r = g.reachable([d], blocked={g.node_of(inner).id})
        ok = any(g.nodes[x].kind == 'raise' or isinstance(getattr(g.nodes[x], 'ast', None), ast.Raise) for x in r)
  ctx.check(R, ok, c, chk, 'incompatible -> raise', 'an incompatible pair must be rejected with an error')


def r2_coverage(ctx):
  R = 'C15.R2'
  ctx.rule(R, 'buffer->tensors map: every operand occurrence of every operator of every subgraph contributes an entry', floor=1)
  f = ctx.repo.func(f'{FBU}:buffer_to_tensors')
  ctx.instance(R)
  g = cfgmod.build(f.node)
  loops = [n for n in g.nodes if n.kind == 'for']
  srcs = [ast.unparse(l.ast.iter) for l in loops]
  ctx.check(R, any(s.endswith('.subgraphs') for s in srcs) and any(s.endswith('.operators') for s in srcs), f.node, f, f'loops over {srcs}',
            'the map must be built from all subgraphs and all operators')
  appends = set()
  for n in g.nodes:
    for c in n.calls():
      if isinstance(c.func, ast.Attribute) and c.func.attr == 'append' and isinstance(c.func.value, ast.Subscript):
        appends.add(n.id)
      if isinstance(c.func, ast.Attribute) and c.func.attr == 'append' and isinstance(c.func.value, ast.Call) and isinstance(c.func.value.func, ast.Attribute) and c.func.value.func.attr in ('setdefault', 'get'):
        appends.add(n.id)
      if isinstance(c.func, ast.Attribute) and c.func.attr == 'append' and isinstance(c.func.value, ast.Name):
        # appending to a list fetched with setdefault / get
        defs = [d for d in defuse.own_assignments(f.node).get(c.func.value.id, []) if d is not None]
        if any(isinstance(d, ast.Call) and isinstance(d.func, ast.Attribute) and d.func.attr in ('setdefault', 'get') for d in defs) or any(isinstance(d, ast.Subscript) for d in defs):
          appends.add(n.id)
  if not ctx.check(R, bool(appends), f.node, f, 'append', 'no entry is appended to the map'):
    return
  inner = loops[-1]
  for l in loops:
    if all(a in g.loop_body_nodes(l.id) for a in appends) and len(g.loop_body_nodes(l.id)) <= len(g.loop_body_nodes(inner.id)):
      inner = l
  mn, mx = g.iteration_count(inner.id, appends)
  body = g.loop_body_nodes(inner.id)
  # paths that skip the append may only be guarded by the absent-operand test
  skips_ok = True
  bad_guard = None
  if mn == 0:
    for n in body:
      nd = g.nodes[n]
      if nd.kind != 'if':
        continue
      for d, lab in g.succ[n]:
        r = g.reachable([d], blocked=appends | {inner.id})
        back = any(inner.id in [x for x, _ in g.succ[y]] for y in r) or d == inner.id
        if back:
          t = defuse.norm(nd.ast.test).replace(' ', '')
          tgt = ast.unparse(inner.ast.target) if isinstance(inner.ast.target, ast.Name) else '?'
          allowed = (lab == 'T' and t in (f'{tgt}==-1', f'{tgt}<0')) or (lab == 'F' and t in (f'{tgt}!=-1', f'{tgt}>=0')) \
              or (t.endswith('notin' + 'buffer_to_tensor_map') or 'notin' in t and t.startswith(f'{tgt}.buffer') or t.startswith('tensor.buffernotin'))
          # the key-missing initialisation branch does not skip the append (it falls through to it)
          if not allowed:
            skips_ok = False
            bad_guard = nd
  ctx.check(R, skips_ok and mx == 1, (bad_guard.ast if bad_guard is not None else inner.ast), f, (bad_guard.ast.test if bad_guard is not None else inner.ast),
            'an operand occurrence can be left out of the buffer->tensors map under a condition other than "operand absent (-1)": '
            'a constant used by several operators (or listed once per tensor) then appears once, the single-entry group is skipped, '
            'and conflicting quantization requests are no longer rejected')
  key = [n for n in ast.walk(f.node) if isinstance(n, ast.Attribute) and n.attr == 'buffer']
  ctx.check(R, bool(key), f.node, f, 'keyed by tensor.buffer', 'the map must be keyed by the buffer index')
  # the tensors come from both inputs and outputs of the op
  pot = ctx.repo.func(f'{FBU}:parse_op_tensors')
  src = ast.unparse(f.node) + ast.unparse(pot.node)
  ctx.check(R, 'op.inputs' in src and 'op.outputs' in src, f.node, f, 'inputs and outputs', 'both inputs and outputs of every operator must be visited')
  if 'parse_op_tensors' in ast.unparse(f.node):
    gp = cfgmod.build(pot.node)
    pl = [n for n in gp.nodes if n.kind == 'for']
    if len(pl) == 1:
      ap = {n.id for n in gp.nodes for c in n.calls() if isinstance(c.func, ast.Attribute) and c.func.attr == 'append'}
      guards = [n for n in gp.loop_body_nodes(pl[0].id) if gp.nodes[n].kind == 'if']
      tgt_ = pl[0].ast.target.id
      gt_ = gp.nodes[guards[0]].ast if len(guards) == 1 else None
      as_guard = gt_ is not None and len(gt_.body) == 1 and isinstance(gt_.body[0], ast.Continue) and not gt_.orelse
      ok = gt_ is not None and defuse.norm(gt_.test).replace(' ', '') in ((f'{tgt_}==-1', f'{tgt_}<0') if as_guard else (f'{tgt_}!=-1', f'{tgt_}>=0'))
      ctx.check(R, ok and gp.iteration_count(pl[0].id, ap)[1] == 1, pot.node, pot, 'parse_op_tensors', 'parse_op_tensors may only skip the absent operand -1')
  # the generator stores the map once at construction
  init = ctx.repo.func(f'{PG}.__init__')
  ctx.check(R, 'buffer_to_tensors(self.flatbuffer_model)' in ast.unparse(init.node).replace('tfl_flatbuffer_utils.', ''), init.node, init, 'self.buffer_to_tensors', 'the map must be computed from the model being quantized')


def r4_classification(ctx):
  R = 'C15.R4'
  ctx.rule(R, 'float-source / quantized-source classes agree with what each transformation does to its source tensor', floor=3)
  members = [m.name for m in tables.enum(ctx, 'qtyping:QuantTransformation')]
  # (iii) effect of each registered transformation on the tensor it is applied to
  trans = shared.insertion_transformations(ctx)
  effect = {'NO_QUANTIZE': 'float'}
  for name, f in trans.items():
    ctx.instance(R)
    quantizes_source = False
    if f.name == 'quantize_tensor':
      quantizes_source = True
    for c in common.calls_in(f.node):
      if common.call_name(c).endswith('quantize_tensor'):
        a = c.args[0] if c.args else None
        if isinstance(a, ast.Name) and a.id == f.pos_params[0]:
          quantizes_source = True  # applied to the original input: the source tensor itself becomes quantized
    effect[name] = 'quantized' if quantizes_source else 'float'
  if 'EMULATED_SUBCHANNEL' in effect:
    effect['EMULATED_SUBCHANNEL'] = 'replaced'
  # (i) the lists of _compatible_tensor_params
  cp = ctx.repo.func('params_generator:_compatible_tensor_params')
  lists = {}
  for n in common.walk_no_nested(cp.node):
    if isinstance(n, ast.Assign) and isinstance(n.value, ast.List) and isinstance(n.targets[0], ast.Name):
      try:
        v = ctx.ev.eval(n.value, cp.module, {})
      except Exception:  # pylint: disable=broad-except
        continue
      if all(isinstance(x, EnumVal) for x in v):
        lists[n.targets[0].id] = {x.name for x in v}
  fl = next((v for k, v in lists.items() if 'float' in k), None)
  ql = next((v for k, v in lists.items() if 'quantized' in k), None)
  if fl is None or ql is None:
    raise index.AnalysisError(f'C15.R5: {cp.fq}: float/quantized source lists not found (construction rule; the compatibility decision is tabled by value in C15.R5 / C15.R8)')
  # (ii) classes of _check_tensor_transformation_instructions_valid
  cv = ctx.repo.func('transformation_instruction_generator:TransformationInstructionsGenerator._check_tensor_transformation_instructions_valid')
  cls2 = {}
  for n in common.walk_no_nested(cv.node):
    if isinstance(n, ast.If):
      flag = None
      for st in n.body:
        if isinstance(st, ast.Assign) and isinstance(st.value, ast.Constant) and st.value.value is True and isinstance(st.targets[0], ast.Name):
          flag = st.targets[0].id
      if flag:
        for x in ast.walk(n.test):
          if isinstance(x, ast.Attribute) and x.attr in members:
            cls2[x.attr] = flag
  for m in members:
    if m == 'EMULATED_SUBCHANNEL':
      continue
    e = effect.get(m)
    in_f, in_q = m in fl, m in ql
    ctx.check(R, (e == 'float') == in_f and (e == 'quantized') == in_q, cp.node, cp, f'{m}: effect={e}',
              f'{m} leaves its source tensor {e} but the buffer-sharing predicate files it under {"float" if in_f else "quantized" if in_q else "neither"}-source')
    flag = cls2.get(m)
    if e == 'quantized':
      ctx.check(R, flag is not None and 'quantized' in flag and 'un' not in flag, cv.node, cv, f'{m}: validity class={flag}', f'{m} quantizes the tensor but the instruction validity check does not count it as quantized')
    if m == 'NO_QUANTIZE':
      ctx.check(R, flag is not None and 'unquantized' in flag, cv.node, cv, f'{m}: validity class={flag}', 'NO_QUANTIZE must count as unquantized')
  # the validity check raises iff both classes are present
  it = tables.interp(ctx)
  TI = 'qtyping:TransformationInst'
  QT = {m.name: m for m in tables.enum(ctx, 'qtyping:QuantTransformation')}
  for a, b in itertools.combinations_with_replacement([m for m in members if m != 'EMULATED_SUBCHANNEL'], 2):
    insts = Obj('qtyping:TensorTransformationInsts', {'tensor_name': 't', 'subgraph_id': 0, 'instructions': [
        Obj(TI, {'transformation': QT[a], 'tensor_id': 1, 'producer': 0, 'consumers': [1], 'parameters': None}),
        Obj(TI, {'transformation': QT[b], 'tensor_id': 1, 'producer': 0, 'consumers': [2], 'parameters': None})]})
    outs = it.outcomes(cv, [Obj(cv.cls.fq if cv.cls is not None else 'x:self', {}), insts])
    raised = any(o.kind == 'raise' for o in outs)
    want = {effect[a], effect[b]} == {'float', 'quantized'} and 'NO_QUANTIZE' in (a, b)
    ctx.check(R, raised == want, cv.node, cv, f'instructions [{a}, {b}]',
              f'a tensor with instructions [{a}, {b}] is {"rejected" if raised else "accepted"}; it must be {"rejected" if want else "accepted"} (both quantized and unquantized)')
  ctx.sample(R, {'effect_on_source': effect, 'float_source': sorted(fl), 'quantized_source': sorted(ql)})


def r5_compat_table(ctx):
  R = 'C15.R5'
  rs = ctx.rule(R, 'compatibility table: sharers must leave the buffer in one form, with equal parameters when quantized', floor=1)
  f = ctx.repo.func('params_generator:_compatible_tensor_params')
  ctx.instance(R)
  QT = tables.enum(ctx, 'qtyping:QuantTransformation')
  members = [m for m in QT if m.name != 'EMULATED_SUBCHANNEL']
  it = tables.interp(ctx)
  OTP = 'qtyping:OpToTensorParams'
  form = {'NO_QUANTIZE': 'float', 'ADD_QUANTIZE': 'float', 'QUANTIZE_TENSOR': 'quantized', 'ADD_DEQUANTIZE': 'quantized'}
  rs.exhaustive = True
  for a, b, same in itertools.product(members, members, [True, False]):
    pa = None if a.name == 'NO_QUANTIZE' else 'P'
    pb = None if b.name == 'NO_QUANTIZE' else ('P' if same else 'Q')
    if a.name == 'NO_QUANTIZE' and b.name == 'NO_QUANTIZE' and not same:
      continue
    x = Obj(OTP, {'subgraph_op_id': 1, 'transformations': [a], 'parameters': pa})
    y = Obj(OTP, {'subgraph_op_id': 2, 'transformations': [b], 'parameters': pb})
    outs = it.outcomes(f, [x, y])
    if len(outs) != 1 or outs[0].kind != 'return':
      ctx.check(R, False, f.node, f, f'{a.name}/{b.name}/same={same}', f'not decided: {[o.short() for o in outs]}')
      continue
    got = bool(outs[0].value)
    want = form[a.name] == form[b.name]
    if want and pa is not None and pb is not None and pa != pb:
      want = False
    ctx.check(R, got == want, f.node, f, f'{a.name} vs {b.name}, same parameters={same}',
              f'two sharers with first transformations {a.name}/{b.name} ({"equal" if same else "different"} parameters) are declared '
              f'{"compatible" if got else "incompatible"}; the stored bytes can{"" if want else "not"} serve both')
  # the tensor-level predicate compares every consumer with the first, and the first of both
  tp = ctx.repo.func('params_generator:_compatible_tensor_transformation_params')
  calls = [c for c in common.calls_in(tp.node) if common.call_name(c).endswith('_compatible_tensor_params')]
  ctx.check(R, len(calls) >= 4, tp.node, tp, f'{len(calls)} pairwise comparisons', 'producer pair, both consumer lists internally, and the two first consumers must all be compared')


def r3_idempotent_overwrite(ctx, R='C15.R3'):
  ctx.rule(R, 'the buffer is overwritten from precomputed data of the same params object and never re-read', floor=1)
  f = ctx.repo.func('transformations.quantize_tensor:quantize_tensor')
  ctx.instance(R)
  stores = [n for n in common.walk_no_nested(f.node) if isinstance(n, ast.Assign) and isinstance(n.targets[0], ast.Attribute) and n.targets[0].attr == 'data']
  if not ctx.check(R, len(stores) == 1, f.node, f, 'buffer store', 'exactly one store into buffer.data expected'):
    return
  st = stores[0]
  tgt = ast.unparse(st.targets[0])
  inl = defuse.Inliner(ctx.repo, max_depth=0)
  ti = f.pos_params[0]
  ctx.check(R, defuse.norm(inl.inline(f, st.targets[0])).replace(' ', '') == f'{ti}.buffers[{ti}.subgraph.tensors[{ti}.tensor_id].buffer].data', st, f, st.targets[0],
            'the bytes must be written to the buffer of the very tensor being quantized')
  rhs = defuse.norm(inl.inline(f, st.value))
  ctx.check(R, f'{ti}.quant_params.quantized_data' in rhs and '.tobytes()' in rhs and 'np.uint8' in rhs, st, f, st.value,
            'the stored bytes must be the precomputed quantized_data of the instruction\'s own parameters, as raw bytes')
  ctx.check(R, '.buffers[' not in rhs and '.data' not in rhs.replace('quantized_data', ''), st, f, st.value,
            'the new bytes are computed from the buffer being overwritten (a second application would quantize already-quantized bytes)')
  ctx.check(R, f'_pack_data({ti}.quant_params.num_bits' in rhs, st, f, st.value, 'packing must use the width of the same parameters')
  g = cfgmod.build(f.node)
  sn = g.node_of(st)
  guards = [n for n in g.nodes if n.kind == 'if' and g.every_path_passes(g.entry.id, sn.id, {n.id})]
  gt = [defuse.norm(inl.inline(f, n.ast.test)) for n in guards]
  ctx.check(R, any(t in (f'{ti}.subgraph.tensors[{ti}.tensor_id].buffer', f'{ti}.subgraph.tensors[{ti}.tensor_id].buffer != 0', f'{ti}.subgraph.tensors[{ti}.tensor_id].buffer > 0') for t in gt), st, f, f'guards {gt}', 'buffer 0 (the shared empty buffer) must never be written')
  ctx.check(R, any('quantized_data is not None' in t for t in gt), st, f, f'guards {gt}', 'the buffer must only be written when precomputed data exists')
  # parameters written to the tensor come from the same params object
  for n in common.walk_no_nested(f.node):
    if isinstance(n, ast.Assign) and isinstance(n.targets[0], ast.Attribute) and n.targets[0].attr in ('scale', 'zeroPoint', 'quantizedDimension'):
      r = defuse.norm(n.value)
      want = {'scale': 'scale', 'zeroPoint': 'zero_point', 'quantizedDimension': 'quantized_dimension'}[n.targets[0].attr]
      ctx.check(R, f'{ti}.quant_params.{want}' in r, n, f, n, f'flatbuffer field {n.targets[0].attr} is not taken from quant_params.{want}')


def r7_every_user_recorded(ctx):
  R = 'C15.R7'
  ctx.rule(R, 'every operator of every subgraph records a result for its tensors, so that every sharer of a buffer has an entry to compare', floor=1)
  gen = ctx.repo.func(f'{PG}.generate_quantization_parameters')
  ctx.instance(R)
  g = cfgmod.build(gen.node)
  loops = [n for n in g.nodes if n.kind == 'for' and ast.unparse(n.ast.iter).endswith('.operators') or n.kind == 'for' and '.operators' in ast.unparse(n.ast.iter)]
  if len(loops) != 1:
    raise index.AnalysisError(f'{gen.fq}: expected one loop over subgraph operators, found {len(loops)}')
  head = loops[0]
  upd = {n.id for n in g.nodes if any(common.call_name(c).endswith('_update_model_quant_results') for c in n.calls())}
  mn, mx = g.iteration_count(head.id, upd)
  path = None
  if mn == 0:
    body = g.loop_body_nodes(head.id)
    first = [d for d, lab in g.succ[head.id] if d in body]
    p = g.witness_path(first[0], head.id, upd) if first else None
    path = g.describe_path(p) if p else None
  ctx.check(R, mn >= 1, head.ast, gen, 'operator loop: _update_model_quant_results on every path',
            'an operator can be passed over without recording results for its tensors: a constant it shares with a quantized operator '
            'then has no (or an incomplete) entry and the conflicting request is not rejected', path=path)
  outer = [n for n in g.nodes if n.kind == 'for' and ast.unparse(n.ast.iter).endswith('.subgraphs') or n.kind == 'for' and 'subgraphs' in ast.unparse(n.ast.iter)]
  ctx.check(R, len(outer) == 1 and head.id in g.loop_body_nodes(outer[0].id), head.ast, gen, 'all subgraphs', 'operators of every subgraph must be visited')


def r8_sharing_simulation(ctx):
  """buffer_to_tensors + _check_buffer_sharing run on label models in which
  constants share buffers (same tensor used twice, two tensors of one subgraph,
  tensors of two subgraphs), for every assignment of plans to the sharers from
  a small alphabet. Oracle: the check raises exactly when the sharers would
  leave the buffer in two different forms (float vs quantized, or quantized
  with different parameters) - in whatever order they are listed."""
  import itertools  # pylint: disable=g-import-not-at-top
  from sa import absint  # pylint: disable=g-import-not-at-top
  R = 'C15.R8'
  rs = ctx.rule(R, 'sharing simulation: conflicting requests on one buffer are rejected, compatible ones accepted, for every order and multiplicity of the sharers', floor=1)
  b2t = ctx.repo.func(f'{FBU}:buffer_to_tensors')
  chk = ctx.repo.func(f'{PG}._check_buffer_sharing')
  ctx.instance(R)
  QT = {m.name: m for m in tables.enum(ctx, 'qtyping:QuantTransformation')}
  TTP, OTP = 'qtyping:TensorTransformationParams', 'qtyping:OpToTensorParams'
  # what an operand request does to the stored bytes: (first transformation, parameters token) -> form
  alphabet = {'float': ('NO_QUANTIZE', None), 'q(P)': ('QUANTIZE_TENSOR', 'P'), 'q(Q)': ('QUANTIZE_TENSOR', 'Q'), 'dq(P)': ('ADD_DEQUANTIZE', 'P'), 'addq': ('ADD_QUANTIZE', 'P')}
  form = {'float': ('float', None), 'q(P)': ('quantized', 'P'), 'q(Q)': ('quantized', 'Q'), 'dq(P)': ('quantized', 'P'), 'addq': ('float', None)}

  def model(layout):
    # layout: list of subgraphs; subgraph = list of ops; op = list of (tensor name, buffer)
    sgs = []
    for ops in layout:
      names = []
      for op in ops:
        for nm, _ in op:
          if nm not in names:
            names.append(nm)
      bufs = {nm: b for op in ops for nm, b in op}
      tensors = [Obj('x:TensorT', {'name': nm.encode(), 'buffer': bufs[nm]}) for nm in names]
      operators = [Obj('x:OperatorT', {'inputs': [names.index(nm) for nm, _ in op], 'outputs': []}) for op in ops]
      sgs.append(Obj('x:SubGraphT', {'tensors': tensors, 'operators': operators}))
    return Obj('x:ModelT', {'subgraphs': sgs})
  layouts = {
      'one tensor read by two operators': ([[[('a', 1)], [('a', 1)]]], [('a', 2)]),
      'two tensors on one buffer': ([[[('a', 1)], [('b', 1)]]], [('a', 1), ('b', 1)]),
      'two tensors in two subgraphs on one buffer': ([[[('a', 1)]], [[('b', 1)]]], [('a', 1), ('b', 1)]),
      'three sharers, the first read twice': ([[[('a', 1), ('x', 2)], [('a', 1)], [('b', 1)]], [[('c', 1)]]], [('a', 2), ('b', 1), ('c', 1)]),
  }
  rs.exhaustive = True
  for lname, (layout, users) in layouts.items():
    slots = [(nm, k) for nm, n in users for k in range(n)]
    for assign in itertools.product(alphabet, repeat=len(slots)):
      if len(slots) > 3 and len(set(assign)) > 2:
        continue   # keep the largest layout to two request kinds
      it = absint.Interp(ctx.repo, ctx.ev)
      m = model(layout)
      o = it.outcomes(b2t, [m], copy_args=False)
      if len(o) != 1 or o[0].kind != 'return' or not isinstance(o[0].value, dict):
        ctx.check(R, False, b2t.node, b2t, lname, f'buffer map not decided: {[x.short()[:80] for x in o]}')
        break
      results = {}
      for (nm, k), a in zip(slots, assign):
        t, p = alphabet[a]
        e = results.setdefault(nm, Obj(TTP, {'tensor_name': nm, 'producer': None, 'consumers': []}))
        e.fields['consumers'].append(Obj(OTP, {'subgraph_op_id': k, 'transformations': [QT[t]], 'parameters': p}))
      for nm in ('x',):
        results.setdefault(nm, Obj(TTP, {'tensor_name': nm, 'producer': None, 'consumers': [Obj(OTP, {'subgraph_op_id': 0, 'transformations': [QT['NO_QUANTIZE']], 'parameters': None})]}))
      pg = Obj(PG, {'buffer_to_tensors': o[0].value, 'model_quant_results': results, 'flatbuffer_model': m})
      r = it.outcomes(chk, [pg], copy_args=False)
      if len(r) != 1:
        ctx.check(R, False, chk.node, chk, f'{lname}: {dict(zip(slots, assign))}', f'not decided: {[x.short()[:80] for x in r]}')
        continue
      raised = r[0].kind == 'raise'
      forms = {form[a] for a in assign}
      want = len(forms) > 1
      label = f'{lname}: requests {[f"{nm}#{k}={a}" for (nm, k), a in zip(slots, assign)]}'
      ctx.check(R, raised == want, chk.node, chk, label,
                f'the request is {"rejected" if raised else "accepted"}; the sharers would leave the buffer as {sorted(map(str, forms))}: it must be {"rejected" if want else "accepted"}')


def run(ctx):
  r1_must_call(ctx)
  r2_coverage(ctx)
  r3_idempotent_overwrite(ctx)
  r4_classification(ctx)
  r5_compat_table(ctx)
  shared.rule_exact_equality(ctx, 'C15.R6')
  r7_every_user_recorded(ctx)
  r8_sharing_simulation(ctx)
  shared.rule_shared_constant_pipeline(ctx, 'C15.R10')
  # results and the sharing check are keyed by tensor NAME: two sharers with one name (in any two subgraphs) would collapse into one entry
  from sa.rules import c01, c19  # pylint: disable=g-import-not-at-top
  c19._relabel(ctx, 'C01.R1', 'C15.R9', 'tensor names are checked to be unique across the whole model before results are keyed by name (C01.R1)', c01.r1_name_uniqueness)
