"""C08 - shipped default recipes never reject a supported-op graph (config-level part)."""
from __future__ import annotations

import ast
import itertools

from sa import cfg as cfgmod
from sa import defuse
from sa import index
from sa import oracles
from sa import tables
from sa.consteval import Obj
from sa.rules import common
from sa.rules import shared
from sa.rules import c11
from sa.rules import c13

EXPLANATION = (
    'Every shipped recipe file is validated against the dataclass/enum schema '
    'extracted from qtyping.py; for every rule of the five default recipes and '
    'every operator of the README coverage table (plus INPUT/OUTPUT) the '
    'resolution outcome is computed by path enumeration (accepted -> total '
    'materialisation: non-raising mode table, fixed-range width present, '
    'per-channel dimension defined; refused -> silently left unquantized, '
    'never an exception), and the config-independent guards that keep an '
    'instruction with an empty consumer list from reaching the insert '
    'transformations are checked on the CFG.'
)
LEVEL_TEXT = (
    'Decides that no rejection that depends only on the shipped configs can be '
    'reached: all 5 x 23 (recipe, operator) cells either resolve to a config '
    'whose materialisation has no config-dependent raise, or fall back to '
    'no-quantize without raising; recipe files are schema-valid; the '
    '"*"-rule support check cannot leak an exception. Topology-dependent '
    'rejections (buffer sharing, a tensor both quantized and unquantized) are '
    'NOT decided, except the empty-consumer-list guard.'
    ' End-to-end simulations on label models: calibrate then plan generation, and the whole pipeline, raise nothing for static / dynamic / weight-only rule lists with unknown operators around.'
)
LEVEL_NOTE = (
    'Trusted: sa path enumerator, README operator table frozen in '
    'oracles.SUPPORTED_OPS. Not decided: rejections that depend on the graph.'
)
TECHNIQUE = 'schema validation of data files + decision tables + CFG guard rule + end-to-end simulation of calibrate -> plan -> rewrite on label models (abstract interpretation) (static)'


def r1_files(ctx):
  R = 'C08.R1'
  ctx.rule(R, 'shipped default recipe files are valid against the declared schema', floor=5)
  for name in common.DEFAULT_RECIPES:
    rel = common.RECIPE_DIR + name
    if rel in ctx.repo.json_errors:
      ctx.violate(R, rel, rel, 'json', f'does not parse: {ctx.repo.json_errors[rel]}')
      continue
    if rel not in ctx.repo.json_files:
      raise index.AnalysisError(f'default recipe {rel} not found')
    ctx.instance(R)
    data = ctx.repo.json_files[rel]
    if not ctx.check(R, isinstance(data, list) and data, rel, rel, 'top level', 'recipe must be a non-empty list'):
      continue
    for i, entry in enumerate(data):
      common.validate_recipe_entry(ctx, R, rel, i, entry)


def default_rules(ctx):
  out = []
  for name in common.DEFAULT_RECIPES:
    rel = common.RECIPE_DIR + name
    data = ctx.repo.json_files.get(rel)
    if not isinstance(data, list):
      continue
    out.append((rel, data))
  m = ctx.repo.mod('recipe')
  for fname, fi in m.functions.items():
    if '.' in fname or fname.startswith('_'):
      continue
    outs = tables.call(ctx, fi.fq, [])
    if len(outs) == 1 and outs[0].kind == 'return':
      out.append((f'{m.rel}:{fname}()', common.json_roundtrip(outs[0].value)))
  return out


def r3_cells(ctx):
  R = 'C08.R3'
  rs = ctx.rule(R, 'every (default recipe, supported operator) cell resolves without a config-dependent rejection', floor=5)
  OP = {o.name: o for o in tables.op_names(ctx)}
  ALG = {a.value: a for a in tables.algorithm_names(ctx)}
  it = c11._mk_interp(ctx)  # pylint: disable=protected-access
  resolve = ctx.repo.func('recipe_manager:RecipeManager.get_quantization_configs')
  load = ctx.repo.func('recipe_manager:RecipeManager.load_quantization_recipe')
  gtt = ctx.repo.func(f'{shared.MMU}:get_tensor_transformations')
  fixed = c13.fixed_range_tables(ctx)
  qdim = {getattr(k, 'name', k) for k in tables.module_const(ctx, 'utils.tfl_flatbuffer_utils', 'TFL_OP_TO_WEIGHT_QUANTIZED_DIM')}
  ops = [OP[n] for n in oracles.SUPPORTED_OPS + ['INPUT', 'OUTPUT']]
  reg = tables.registry(ctx)
  rs.exhaustive = True
  quantized_cells = 0
  for rel, data in default_rules(ctx):
    ctx.instance(R)
    # load through the repository's own loader (path enumeration)
    selfobj = Obj('recipe_manager:RecipeManager', {'_scope_configs': {}})
    outs = it.outcomes(load, [selfobj, data], copy_args=False)
    if not ctx.check(R, all(o.kind == 'return' for o in outs), rel, rel, 'load_quantization_recipe',
                     f'loading the recipe raises {[o.exc + "(" + o.msg + ")" for o in outs if o.kind == "raise"]}'):
      continue
    selfobj = Obj('recipe_manager:RecipeManager', {'_scope_configs': {}})
    it._decisions, it._cursor = [], 0  # pylint: disable=protected-access
    it.call_function(load, [selfobj, data], {}, 0)
    for op in ops:
      outs = it.outcomes(resolve, [selfobj, op, 'any/scope;'], copy_args=False)
      if not ctx.check(R, len(outs) == 1 and outs[0].kind == 'return', rel, rel, f'{op.name}: resolution',
                       f'resolving {op.name} under this recipe raises / is undecided: {[o.short() for o in outs]}'):
        continue
      alg, cfg = outs[0].value
      alg = ALG.get(getattr(alg, 'value', alg), alg)
      if getattr(alg, 'name', '') == 'NO_QUANTIZE':
        ctx.check(R, True, rel, rel, f'{op.name}: left float', '')
        continue
      quantized_cells += 1
      label = f'{op.name} -> {getattr(alg, "value", alg)}'
      entry = reg.get(alg, {}).get(op)
      ctx.check(R, entry is not None, rel, rel, label, f'{op.name} resolves to {alg} but no materialiser is registered (quantize() raises ValueError)')
      if getattr(alg, 'name', '') != 'MIN_MAX_UNIFORM_QUANT':
        continue
      ok = True
      for inb, const in itertools.product([True, False], [True, False]):
        o2 = tables.call(ctx, gtt.fq, [cfg, inb, const])
        ok = ok and all(o.kind == 'return' for o in o2)
      ctx.check(R, ok, rel, rel, label, f'{op.name}: get_tensor_transformations raises for the shipped config')
      a = cfg.fields['activation_tensor_config']
      w = cfg.fields['weight_tensor_config']
      srq = cfg.fields['compute_precision'] == 'INTEGER' and a is not None
      if srq and op.name in fixed:
        ctx.check(R, a.fields['num_bits'] in fixed[op.name], rel, rel, label,
                  f'{op.name}: no fixed output range for {a.fields["num_bits"]}-bit activations (materialisation raises ValueError)')
      if w is not None and getattr(w.fields['granularity'], 'value', w.fields['granularity']) == 'CHANNELWISE' and op.name in oracles.WEIGHT_OPS:
        ctx.check(R, op.name in qdim or op.name == 'BATCH_MATMUL', rel, rel, label, f'{op.name}: per-channel quantized dimension undefined (KeyError)')
  ctx.extra['quantized_cells'] = quantized_cells
  ctx.sample(R, {'recipes': [r for r, _ in default_rules(ctx)], 'operators': len(ops), 'quantized_cells': quantized_cells})
  if quantized_cells < 40:
    raise index.AnalysisError(f'{R}: only {quantized_cells} quantized cells - the shipped recipes no longer quantize the supported operators')


def r4_need_calibration(ctx):
  R = 'C08.R4'
  ctx.rule(R, 'need_calibration() is total on the shipped recipes', floor=5)
  nc = ctx.repo.func('recipe_manager:RecipeManager.need_calibration')
  load = ctx.repo.func('recipe_manager:RecipeManager.load_quantization_recipe')
  it = c11._mk_interp(ctx)  # pylint: disable=protected-access
  for rel, data in default_rules(ctx):
    ctx.instance(R)
    selfobj = Obj('recipe_manager:RecipeManager', {'_scope_configs': {}})
    try:
      it._decisions, it._cursor = [], 0  # pylint: disable=protected-access
      it.call_function(load, [selfobj, data], {}, 0)
    except Exception:  # pylint: disable=broad-except
      continue
    outs = it.outcomes(nc, [selfobj], copy_args=False)
    ok = len(outs) == 1 and outs[0].kind == 'return' and isinstance(outs[0].value, bool)
    ctx.check(R, ok, rel, rel, 'need_calibration()', f'need_calibration() raises / is undecided on this recipe: {[o.short() for o in outs]}')
    if ok:
      expect = any(isinstance(e, dict) and 'activation_tensor_config' in e.get('op_config', {}) for e in data)
      ctx.check(R, outs[0].value == expect, rel, rel, f'need_calibration() = {outs[0].value}',
                f'a recipe {"with" if expect else "without"} activation quantization must {"" if expect else "not "}require calibration')


def _bool_eval(e, env):
  if isinstance(e, ast.BoolOp):
    vals = [_bool_eval(v, env) for v in e.values]
    return all(vals) if isinstance(e.op, ast.And) else any(vals)
  if isinstance(e, ast.UnaryOp) and isinstance(e.op, ast.Not):
    return not _bool_eval(e.operand, env)
  return env[defuse.norm(e)]


def _atoms(e, out):
  if isinstance(e, ast.BoolOp):
    for v in e.values:
      _atoms(v, out)
  elif isinstance(e, ast.UnaryOp) and isinstance(e.op, ast.Not):
    _atoms(e.operand, out)
  else:
    out.add(defuse.norm(e))


def r5_empty_consumers_guard(ctx, R='C08.R5'):
  ctx.rule(R, 'a producer-side instruction with no remaining consumers never reaches the insert transformations', floor=1)
  tig = 'transformation_instruction_generator:TransformationInstructionsGenerator'
  f = ctx.repo.func(f'{tig}._quant_params_to_transformation_insts')
  v = ctx.repo.func(f'{tig}._apply_vertical_optimization')
  ctx.instance(R)
  # (a) inside the optimiser: the producer rule is re-inserted only under a non-emptiness test of its consumers
  ins = [c for c in common.calls_in(v.node) if isinstance(c.func, ast.Attribute) and c.func.attr in ('insert', 'append') and c.args
         and ast.unparse(c.args[-1]) == v.pos_params[1]]
  ok = bool(ins)
  for c in ins:
    st = common.stmt_of(v.node, c)
    guards = [n for n in ast.walk(v.node) if isinstance(n, ast.If) and any(x is st for x in ast.walk(n))]
    ok = ok and any(defuse.norm(g.test) in (f'{v.pos_params[1]}.consumers', f'len({v.pos_params[1]}.consumers) > 0', f'len({v.pos_params[1]}.consumers)') for g in guards)
  ctx.check(R, ok, v.node, v, 'producer rule re-inserted only if it still has consumers',
            'the producer rule is kept although all its consumers were taken over (min() of an empty consumer list raises in the insert transformation)')
  # (b) in the caller: whenever there is a producer rule it goes through the optimiser
  calls = [c for c in common.calls_in(f.node) if common.call_name(c).endswith('_apply_vertical_optimization')]
  if not ctx.check(R, len(calls) == 1, f.node, f, '_apply_vertical_optimization call', 'the vertical optimiser is no longer applied to the last producer rule'):
    return
  st = common.stmt_of(f.node, calls[0])
  guards = [n for n in ast.walk(f.node) if isinstance(n, ast.If) and any(x is st for x in ast.walk(ast.Module(body=n.body, type_ignores=[])))]
  prod_list = None
  a0 = calls[0].args[0] if calls[0].args else None
  if isinstance(a0, ast.Call) and isinstance(a0.func, ast.Attribute) and a0.func.attr == 'pop':
    prod_list = ast.unparse(a0.func.value)
  if not ctx.check(R, prod_list is not None, calls[0], f, calls[0], 'the last producer rule must be popped from the producer list and handed to the optimiser'):
    return
  inl = defuse.Inliner(ctx.repo, max_depth=0)
  for g in guards:
    test = inl.inline(f, g.test)
    atoms = set()
    _atoms(test, atoms)
    T = {prod_list, f'len({prod_list})', f'len({prod_list}) - 1 >= 0', f'len({prod_list}) > 0', f'len({prod_list}) >= 1', f'len({prod_list}) != 0'}
    free = sorted(a for a in atoms if a not in T)
    if len(free) > 6:
      raise index.AnalysisError(f'{f.loc(g)}: guard of the vertical optimiser is too complex to decide')
    implied = True
    for bits in itertools.product([False, True], repeat=len(free)):
      env = {a: True for a in atoms if a in T}
      env.update(dict(zip(free, bits)))
      if not _bool_eval(test, env):
        implied = False
    ctx.check(R, implied, g, f, g.test,
              f'the optimiser is skipped under `{defuse.norm(g.test)}` even when a producer rule exists: a producer ADD_DEQUANTIZE whose '
              'tensor nobody consumes then reaches insert_dequant with an empty consumer list')


def run(ctx):
  r1_files(ctx)
  _r2(ctx)
  r3_cells(ctx)
  r4_need_calibration(ctx)
  r5_empty_consumers_guard(ctx)
  # instruction generation must not raise on legal graphs: the vertical-optimisation table is total, also when an operator reads the
  # tensor more than once (consumer entries are per operand, the producer's consumer list is per operator) - defect F13 (C03.R4)
  from sa.rules import c03, c10, c19  # pylint: disable=g-import-not-at-top
  c10.r8_calibrate_then_plan(ctx, 'C08.R7')
  shared.rule_operator_sweep(ctx, 'C08.R9')
  shared.rule_pipeline_simulation(ctx, 'C08.R8', 'whole pipeline on label models (static, dynamic, weight-only rule lists; unknown operators around): no stage raises')
  c19._relabel(ctx, 'C03.R4', 'C08.R6', 'the vertical-optimisation step is total: no producer/consumer combination, with any operand multiplicity, raises (C03.R4)', c03.r4_vertical_table)


def _r2(ctx):
  """C08.R2 = C11.R4 evaluated and reported under C08."""
  before = len(ctx.violations)
  rules_before = set(ctx.rules)
  c11.r4_exception_discipline(ctx, resolve_only=True)
  # re-label
  if 'C11.R4' in ctx.rules:
    rs = ctx.rules.pop('C11.R4')
    rs.floor = 1
    rs.title = '"*" rules cannot raise at resolution (unsupported cells are skipped silently)'
    ctx.rules['C08.R2'] = rs
  for v in ctx.violations[before:]:
    if v.rule == 'C11.R4':
      v.rule = 'C08.R2'
