"""C14 - quantize/calibrate/validate are pure: no input mutation, no history dependence."""
from __future__ import annotations

import ast

from sa import callgraph
from sa import effects
from sa import index
from sa.rules import common

EXPLANATION = (
    'Interprocedural may-alias/may-mutate analysis (access paths, k=6, fixpoint '
    'over the resolved call graph incl. registry fan-out) from every '
    'caller-owned argument of the Quantizer API; cross-method escape/mutation '
    'check on object state; freshness of the per-call helper objects; no '
    'writes to module/class state; set-iteration determinism; inventory of '
    'nondeterminism sources in the API call tree.'
)
LEVEL_TEXT = (
    'Decides, for every path of the program rather than for sampled inputs, '
    'that no alias of a caller-owned argument (model bytes, recipe, calibration '
    'data, previous/current calibration result, test data) reaches an in-place '
    'store, that helper objects holding accumulating state are created per '
    'call and never retained, and that no module/class state or hash-order '
    'dependent iteration feeds the output. Mutation freedom is decided '
    'strongly (may-analysis: silence means no such path exists under the '
    'stated external-purity assumption); byte-identity across processes is '
    'only implied, not decided.'
)
LEVEL_NOTE = (
    'Assumes external library calls (numpy, copy, json, flatbuffers, the '
    'interpreter) do not mutate their arguments and return fresh objects, '
    'except the modelled view/shallow-copy/parser functions; callbacks passed '
    'by the user are out of scope. Not decided: equality of output hashes '
    'across processes.'
)
TECHNIQUE = 'interprocedural alias/effect analysis over ast + call graph (static)'

API = ['__init__', 'load_quantization_recipe', 'update_quantization_recipe',
       'get_quantization_recipe', 'calibrate', 'quantize', 'validate']
HELPERS = ['calibrator:Calibrator', 'params_generator:ParamsGenerator',
           'model_modifier:ModelModifier']
NONDET = ('random.', 'np.random.', 'numpy.random.', 'time.', 'uuid.', 'datetime.',
          'os.environ', 'os.getenv', 'secrets.', 'os.urandom', 'os.getpid')
NONDET_BUILTINS = {'id', 'hash'}


def api_methods(ctx):
  q = ctx.repo.cls('quantizer:Quantizer')
  out = []
  for name in API:
    if name not in q.methods:
      raise index.AnalysisError(f'Quantizer.{name} not found')
    out.append(q.methods[name])
  return q, out


def cross_method(ctx, rule, cls: index.ClassInfo, eff, methods=None, skip_params=('self',)):
  """Escapes of a parameter into object state that another method mutates."""
  methods = methods or list(cls.methods.values())
  escapes = []
  for m in methods:
    if m.name.startswith('_') and m.name != '__init__':
      continue  # arguments of private helpers are not caller-owned
    s = eff.summary(m.fq)
    selfname = m.pos_params[0] if m.pos_params else 'self'
    for (root, path), vals in s.esc.items():
      if root != 'p:' + selfname:
        continue
      for r in vals:
        if r.root.startswith('p:') and r.root[2:] not in (selfname,) + tuple(skip_params):
          escapes.append((m, path, r))
  for m2 in methods:
    s2 = eff.summary(m2.fq)
    selfname2 = m2.pos_params[0] if m2.pos_params else 'self'
    for (root, q), w in s2.mut.items():
      if root != 'p:' + selfname2:
        continue
      for (m1, path, r) in escapes:
        # self.path.vpath == X.rpath ; mutation at self.q
        full = tuple(path) + tuple(r.vpath)
        rem = effects.prefix_match(full, q)
        if rem is None:
          continue
        ctx.violate(
            rule, w.where, m2,
            f'{effects.fmt_path("p:" + r.root[2:], r.rpath)} kept in self{"".join(effects._fmt(l) for l in path)} by {m1.name}(); mutated by {m2.name}()',
            f'argument {r.root[2:]!r} of {cls.name}.{m1.name}() is stored (not copied) into '
            f'self{"".join(effects._fmt(l) for l in path)} and that object is mutated in place by '
            f'{cls.name}.{m2.name}(): {w.text}',
            path=w.steps())
  return len(escapes)


def r1_no_arg_mutation(ctx):
  R = 'C14.R1'
  ctx.rule(R, 'no alias of a caller-owned argument reaches an in-place store', floor=7)
  eff = effects.get(ctx)
  q, methods = api_methods(ctx)
  roots = 0
  extra = [ctx.repo.func('model_validator:compare_model'),
           ctx.repo.func('calibrator:Calibrator.calibrate'),
           ctx.repo.func('calibrator:Calibrator.load_model_qsvs'),
           ctx.repo.func('params_generator:ParamsGenerator.generate_quantization_parameters'),
           ctx.repo.func('model_modifier:ModelModifier.modify_model'),
           ctx.repo.func('recipe_manager:RecipeManager.load_quantization_recipe'),
           ctx.repo.func('recipe_manager:RecipeManager.add_quantization_config')]
  for m in methods + extra:
    ctx.instance(R)
    s = eff.summary(m.fq)
    selfname = m.pos_params[0] if (m.cls is not None and m.pos_params) else None
    for p in m.params:
      name = p.lstrip('*')
      if name == selfname:
        continue
      roots += 1
      hits = [(k, w) for k, w in s.mut.items() if k[0] == 'p:' + name]
      ok = not hits
      if ok:
        ctx.check(R, True, m.node, m, name, '')
      for (root, path), w in hits:
        ctx.check(R, False, w.where, m,
                  f'{m.name}({name}): {effects.fmt_path(root, path)} mutated',
                  f'caller-owned argument {name!r} of {m.fq.split(":")[1]}() may be mutated in place '
                  f'at {effects.fmt_path(root, path)}: {w.text}', path=w.steps())
  # object state: float_model / recipe / previous results kept by reference
  n = cross_method(ctx, R, q, eff, methods)
  cal = ctx.repo.cls('calibrator:Calibrator')
  n += cross_method(ctx, R, cal, eff)
  ctx.rule(R).obligations += 1
  ctx.rule(R).discharged += 1
  ctx.sample(R, {'roots_analysed': roots, 'escapes_into_object_state_checked': n,
                 'fixpoint_rounds': eff.rounds,
                 'example_summary': {
                     'function': 'min_max_quantize_utils:materialize_standard_op',
                     'may_mutate': sorted(effects.fmt_path(*k) for k in eff.summary(
                         'algorithms.utils.min_max_quantize_utils:materialize_standard_op').mut)}})
  ctx.extra['callgraph'] = callgraph.get(ctx).stats()
  # in-place stores into numpy buffers that may view the caller's bytes
  for f in ctx.repo.all_functions():
    for n_ in common.walk_no_nested(f.node):
      if isinstance(n_, ast.Subscript) and isinstance(n_.ctx, ast.Store) and isinstance(n_.value, ast.Attribute) and n_.value.attr == 'data':
        ctx.check(R, False, n_, f, n_,
                  'in-place element store into a buffer .data array: flatbuffer buffers '
                  'are numpy views over the model bytes the caller passed in')


def r2_fresh_helpers(ctx):
  R = 'C14.R2'
  ctx.rule(R, 'stateful helpers (Calibrator/ParamsGenerator/ModelModifier) are created per call and never retained', floor=3)
  cg = callgraph.get(ctx)
  helper_cls = {ctx.repo.cls(fq).fq: ctx.repo.cls(fq) for fq in HELPERS}
  used = 0
  for f in ctx.repo.all_functions():
    env = cg.type_env(f)
    for site in cg.sites.get(f.fq, []):
      # construction sites: result must be bound to a local name (or used inline)
      if site.kind == 'constructor' and site.ctor_of is not None and site.ctor_of.fq in helper_cls:
        used += 1
        ctx.instance(R)
        st = common.stmt_of(f.node, site.node)
        ok = True
        why = ''
        if isinstance(st, (ast.Assign, ast.AnnAssign)):
          targets = st.targets if isinstance(st, ast.Assign) else [st.target]
          for t in targets:
            if not isinstance(t, ast.Name):
              ok = False
              why = f'stored into {ast.unparse(t)}'
            elif f.qualname == '<module>':
              ok = False
              why = 'module-level object'
        ctx.check(R, ok, site.node, f, st if st is not None else site.node,
                  f'{site.ctor_of.name} accumulates state across calls but is {why} instead of a per-call local')
        # the local must not escape into self / globals afterwards
        if ok and isinstance(st, ast.Assign) and isinstance(st.targets[0], ast.Name):
          var = st.targets[0].id
          for n in common.walk_no_nested(f.node):
            if isinstance(n, (ast.Assign, ast.AnnAssign)):
              val = n.value
              tg = n.targets if isinstance(n, ast.Assign) else [n.target]
              if isinstance(val, ast.Name) and val.id == var and any(not isinstance(t, ast.Name) for t in tg):
                ctx.check(R, False, n, f, n, f'per-call {site.ctor_of.name} object is retained: {ast.unparse(n)[:60]}')
  # module-level instances of helper classes
  for m in ctx.repo.modules.values():
    for name, vals in m.assigns.items():
      for v in vals:
        if isinstance(v, ast.Call):
          s = ctx.repo.resolve_expr(m, v.func)
          if s.kind == 'class' and s.obj.fq in helper_cls:
            ctx.check(R, False, v, m, f'{name} = {ast.unparse(v)[:40]}', f'module-level {s.obj.name} instance is shared between calls')
  # every use of a helper method inside Quantizer goes through such a local
  q = ctx.repo.cls('quantizer:Quantizer')
  for m in q.methods.values():
    for site in cg.sites.get(m.fq, []):
      for c in site.callees:
        if c.cls is not None and c.cls.fq in helper_cls and site.kind != 'constructor':
          recv = site.node.func.value if isinstance(site.node.func, ast.Attribute) else None
          # a per-call local, or the constructor call itself (`Helper(model).method(...)`: the object dies with the expression)
          fresh_ctor = isinstance(recv, ast.Call) and ctx.repo.resolve_expr(m.module, recv.func).kind == 'class'
          ok = (isinstance(recv, ast.Name) and recv.id != 'self') or fresh_ctor
          ctx.check(R, ok, site.node, m, site.node,
                    f'{c.cls.name}.{c.name}() is invoked on {ast.unparse(recv) if recv is not None else "?"}, not on a per-call local')
  if used < 3:
    raise index.AnalysisError(f'C14.R2: only {used} helper construction sites found')


def r3_no_ambient_state(ctx):
  R = 'C14.R3'
  ctx.rule(R, 'no module/class state is written and Quantizer keeps no per-call state', floor=7)
  eff = effects.get(ctx)
  cg = callgraph.get(ctx)
  q, methods = api_methods(ctx)
  chains = cg.reachable([m.fq for m in methods])
  ctx.extra['api_call_tree_functions'] = len(chains)
  for m in methods:
    ctx.instance(R)
    s = eff.summary(m.fq)
    for k, w in s.global_writes.items():
      ctx.check(R, False, w.where, m, f'global {k}', f'{m.name}() rebinds module global {k}: {w.text}', path=w.steps())
    hits = [(k, w) for k, w in s.mut.items() if k[0].startswith('g:')]
    for (root, path), w in hits:
      ctx.check(R, False, w.where, m, f'{m.name}: {effects.fmt_path(root, path)}',
                f'{m.name}() mutates module-level state {effects.fmt_path(root, path)}: {w.text}', path=w.steps())
    if not hits and not s.global_writes:
      ctx.check(R, True, m.node, m, m.name, '')
  # class-attribute stores anywhere in the call tree
  for fq in chains:
    f = ctx.repo.func(fq)
    for n in common.walk_no_nested(f.node):
      if isinstance(n, ast.Attribute) and isinstance(n.ctx, ast.Store):
        s = ctx.repo.resolve_expr(f.module, n.value) if isinstance(n.value, (ast.Name, ast.Attribute)) else None
        if isinstance(n.value, ast.Name) and n.value.id in [p.lstrip('*') for p in f.params]:
          continue
        if s is not None and s.kind in ('class', 'module'):
          ctx.check(R, False, n, f, n, f'store into {s.kind} attribute {ast.unparse(n)} (state shared by all Quantizer objects)')
  # self fields of Quantizer written outside __init__
  allowed = {'quantize': {'_result'}}
  for name, m in q.methods.items():
    if name == '__init__':
      continue
    s = eff.summary(m.fq)
    for attr, w in s.self_writes.items():
      # only direct writes in this method body (callee writes are on other objects)
      direct = any(isinstance(n, ast.Attribute) and isinstance(n.ctx, ast.Store) and isinstance(n.value, ast.Name) and n.value.id == 'self' and n.attr == attr
                   for n in common.walk_no_nested(m.node))
      if direct:
        ctx.check(R, attr in allowed.get(name, set()), w.where, m, f'self.{attr} = ...',
                  f'Quantizer.{name}() keeps state in self.{attr}; later calls may depend on it')
  # what quantize()'s own call tree reads from self
  reads = set()
  for name in ('quantize', '_get_quantization_params', '_get_quantized_model', 'get_quantization_recipe'):
    m = q.methods.get(name)
    if m is None:
      raise index.AnalysisError(f'Quantizer.{name} not found')
    for n in common.walk_no_nested(m.node):
      if isinstance(n, ast.Attribute) and isinstance(n.ctx, ast.Load) and isinstance(n.value, ast.Name) and n.value.id == 'self':
        if n.attr not in q.methods:
          reads.add(n.attr)
  extra = reads - {'float_model', '_recipe_manager', '_result'}
  ctx.check(R, not extra, q.methods['quantize'].node, q.methods['quantize'], f'self reads {sorted(reads)}',
            f'quantize() depends on additional object state {sorted(extra)} (history dependence)')
  res_reads = [n for n in common.walk_no_nested(q.methods['quantize'].node)
               if isinstance(n, ast.Attribute) and isinstance(n.ctx, ast.Load) and n.attr == '_result'
               and not isinstance(common.stmt_of(q.methods['quantize'].node, n), ast.Return)]
  ctx.check(R, not res_reads, q.methods['quantize'].node, q.methods['quantize'], 'self._result read in quantize()',
            'quantize() reads the previous result (history dependence)')


def _set_typed_names(f: index.FuncInfo):
  """Local names (and self attrs) bound to set-valued expressions -> elt kind."""
  sets = {}

  def elt_kind_of_expr(e, intvars):
    if isinstance(e, ast.Constant):
      return 'int' if isinstance(e.value, int) else 'other'
    if isinstance(e, ast.Name):
      return 'int' if e.id in intvars else 'unknown'
    if isinstance(e, ast.Call) and common.call_name(e) in ('len', 'int', 'range'):
      return 'int'
    return 'unknown'

  intvars = set()
  for n in common.walk_no_nested(f.node):
    if isinstance(n, (ast.For, ast.comprehension)):
      it = n.iter
      tgt = n.target
      if isinstance(it, ast.Call) and common.call_name(it) == 'range' and isinstance(tgt, ast.Name):
        intvars.add(tgt.id)
      if isinstance(it, ast.Call) and common.call_name(it) == 'enumerate' and isinstance(tgt, ast.Tuple) and isinstance(tgt.elts[0], ast.Name):
        intvars.add(tgt.elts[0].id)
  for p in f.params:
    ann = f.param_annotation(p.lstrip('*'))
    if ann is not None:
      t = ast.unparse(ann)
      if 'set[' in t or 'Set[' in t:
        sets[p.lstrip('*')] = 'int' if 'set[int]' in t or 'Set[int]' in t else 'unknown'
      if t == 'int':
        intvars.add(p.lstrip('*'))

  def is_set_expr(e):
    if isinstance(e, (ast.Set, ast.SetComp)):
      return True
    if isinstance(e, ast.Call) and common.call_name(e) in ('set', 'frozenset'):
      return True
    if isinstance(e, ast.BinOp) and isinstance(e.op, (ast.Sub, ast.BitOr, ast.BitAnd, ast.BitXor)):
      return is_set_expr(e.left) or (isinstance(e.left, ast.Name) and e.left.id in sets)
    return False

  def kind_of_set_expr(e):
    if isinstance(e, ast.Set):
      ks = {elt_kind_of_expr(x, intvars) for x in e.elts}
      return 'int' if ks <= {'int'} else 'unknown'
    if isinstance(e, ast.SetComp):
      return elt_kind_of_expr(e.elt, intvars)
    if isinstance(e, ast.Call):
      if not e.args:
        return 'empty'
      a = e.args[0]
      if isinstance(a, ast.Call) and common.call_name(a) == 'range':
        return 'int'
      if isinstance(a, (ast.List, ast.Tuple)):
        ks = {elt_kind_of_expr(x, intvars) for x in a.elts}
        return 'int' if ks <= {'int'} else 'unknown'
      if isinstance(a, ast.Name) and a.id in sets:
        return sets[a.id]
      if isinstance(a, ast.Call) and isinstance(a.func, ast.Name):
        # result of an index-returning helper: look at its return annotation
        return 'call:' + a.func.id
      return 'unknown'
    if isinstance(e, ast.BinOp):
      l = kind_of_set_expr(e.left) if is_set_expr(e.left) else sets.get(getattr(e.left, 'id', None), 'unknown')
      return l
    return 'unknown'

  for _ in range(2):
    for n in common.walk_no_nested(f.node):
      tgt = val = None
      if isinstance(n, ast.Assign) and len(n.targets) == 1:
        tgt, val = n.targets[0], n.value
      elif isinstance(n, ast.AugAssign):
        tgt, val = n.target, n.value
        if isinstance(tgt, ast.Name) and tgt.id in sets:
          continue
      if tgt is None or not is_set_expr(val):
        continue
      key = tgt.id if isinstance(tgt, ast.Name) else ast.unparse(tgt)
      k = kind_of_set_expr(val)
      prev = sets.get(key)
      if prev is None or prev == 'empty':
        sets[key] = k
      elif k not in ('empty', prev):
        sets[key] = 'unknown'
  # .add(x) refinements for sets created empty
  for n in common.walk_no_nested(f.node):
    if isinstance(n, ast.Call) and isinstance(n.func, ast.Attribute) and n.func.attr in ('add', 'update'):
      key = ast.unparse(n.func.value)
      if key in sets and n.args:
        k = elt_kind_of_expr(n.args[0], intvars)
        if n.func.attr == 'update':
          k = sets.get(ast.unparse(n.args[0]), 'unknown')
        if sets[key] == 'empty':
          sets[key] = k
        elif sets[key] != k:
          sets[key] = 'unknown'
  return sets, intvars, is_set_expr, kind_of_set_expr


def r4_set_iteration(ctx):
  R = 'C14.R4'
  ctx.rule(R, 'iteration over a set only when its elements are provably ints', floor=8)
  cg = callgraph.get(ctx)
  q, methods = api_methods(ctx)
  chains = cg.reachable([m.fq for m in methods])
  module_sets = {}
  for m in ctx.repo.modules.values():
    for name, vals in m.assigns.items():
      v = vals[-1]
      if isinstance(v, ast.Call) and common.call_name(v) in ('frozenset', 'set'):
        module_sets[(m.short, name)] = v
  sites = 0
  for fq in sorted(chains):
    f = ctx.repo.func(fq)
    sets, intvars, is_set_expr, kind_of_set_expr = _set_typed_names(f)
    # helper-returned index sets: element kind from the callee's annotation
    for k, v in list(sets.items()):
      if isinstance(v, str) and v.startswith('call:'):
        s = ctx.repo.resolve_name(f.module, v[5:])
        ret = ast.unparse(s.obj.node.returns) if s.kind == 'func' and s.obj.node.returns is not None else ''
        sets[k] = 'int' if ret in ('list[int]', 'set[int]', 'Sequence[int]') else 'unknown'
    ctx.instance(R, len(sets))
    setnames = set(sets)
    for (short, name) in module_sets:
      if short == f.module.short:
        setnames.add(name)

    def set_kind(e):
      key = ast.unparse(e)
      if key in sets:
        return sets[key]
      if isinstance(e, (ast.Set, ast.SetComp)) or (
          isinstance(e, ast.Call) and common.call_name(e) in ('set', 'frozenset')):
        k = kind_of_set_expr(e)
        return k if k in ('int', 'empty') else 'unknown'
      if isinstance(e, ast.Name) and (f.module.short, e.id) in module_sets:
        return 'unknown'
      if isinstance(e, ast.BinOp) and isinstance(e.op, (ast.Sub, ast.BitOr, ast.BitAnd, ast.BitXor)):
        def view(x):
          return isinstance(x, ast.Call) and isinstance(x.func, ast.Attribute) and x.func.attr in ('keys', 'items') and not x.args
        l, r = set_kind(e.left), set_kind(e.right)
        if view(e.left) or view(e.right):
          # set algebra on a dict view yields a real set: its order is hash order, the key type is not known to be int
          return 'unknown'
        if l is not None:
          return l if (r is None or r == l or isinstance(e.op, (ast.Sub, ast.BitAnd))) else 'unknown'
        if r is not None and isinstance(e.op, (ast.BitOr, ast.BitXor)):
          return r
      if isinstance(e, ast.Subscript):
        # element of an annotated list[list[set[int]]] parameter
        base = e
        while isinstance(base, ast.Subscript):
          base = base.value
        if isinstance(base, ast.Name):
          ann = f.param_annotation(base.id)
          if ann is not None and 'set[' in ast.unparse(ann):
            return 'int' if 'set[int]' in ast.unparse(ann) else 'unknown'
      return None

    loop_sets = {}
    for n in common.walk_no_nested(f.node):
      # `for g in <list of sets>`: g is a set with that element kind
      if isinstance(n, ast.For) and isinstance(n.target, ast.Name):
        k = set_kind(n.iter) if not isinstance(n.iter, ast.Name) or n.iter.id not in sets else None
        ann_src = n.iter
        base = ann_src
        while isinstance(base, ast.Subscript):
          base = base.value
        if isinstance(base, ast.Name):
          ann = f.param_annotation(base.id)
          if ann is not None and 'set[' in ast.unparse(ann) and ast.unparse(n.iter) != base.id + '':
            loop_sets[n.target.id] = 'int' if 'set[int]' in ast.unparse(ann) else 'unknown'
          elif base.id in ('next_depth_groups', 'current_depth_groups') or base.id in loop_sets:
            pass
    sets.update({k: v for k, v in loop_sets.items() if k not in sets})
    # groups collected in local lists of sets
    for n in common.walk_no_nested(f.node):
      if isinstance(n, ast.For) and isinstance(n.target, ast.Name) and isinstance(n.iter, (ast.Name, ast.Subscript)):
        src = n.iter
        base = src
        while isinstance(base, ast.Subscript):
          base = base.value
        if isinstance(base, ast.Name):
          # a list that only ever receives int-sets
          appended = [c for c in common.walk_no_nested(f.node)
                      if isinstance(c, ast.Call) and isinstance(c.func, ast.Attribute) and c.func.attr == 'append'
                      and ast.unparse(c.func.value) == base.id and c.args]
          kinds = set()
          for c in appended:
            a = c.args[0]
            if isinstance(a, (ast.Set, ast.SetComp)) or (isinstance(a, ast.Call) and common.call_name(a) in ('set', 'frozenset')):
              tmp = {}
              if isinstance(a, ast.Call) and a.args and isinstance(a.args[0], (ast.List, ast.Tuple)):
                ks = {('int' if isinstance(x, ast.Name) and x.id in intvars else 'unknown') for x in a.args[0].elts}
                kinds.add('int' if ks <= {'int'} else 'unknown')
              else:
                kinds.add('unknown')
            elif isinstance(a, ast.Name) and a.id in sets:
              kinds.add(sets[a.id])
            elif isinstance(a, ast.Name):
              kinds.add('list-of-sets:' + a.id)
          if kinds and all(k == 'int' for k in kinds):
            sets.setdefault(n.target.id, 'int')
    # iteration uses
    for n in common.walk_no_nested(f.node):
      it = None
      how = ''
      if isinstance(n, (ast.For, ast.comprehension)):
        it, how = n.iter, 'for'
      elif isinstance(n, ast.Call) and common.call_name(n) in ('list', 'tuple', 'iter', 'enumerate') and n.args:
        it, how = n.args[0], common.call_name(n)
      elif isinstance(n, ast.Call) and isinstance(n.func, ast.Attribute) and n.func.attr == 'pop' and not n.args:
        if ast.unparse(n.func.value) in sets:
          it, how = n.func.value, 'pop'
      if it is None:
        continue
      k = set_kind(it)
      if k is None and isinstance(it, ast.Name) and it.id in sets:
        k = sets[it.id]
      if k is None:
        continue
      sites += 1
      ctx.check(R, k in ('int', 'empty'), n if hasattr(n, 'lineno') else it, f, it,
                f'{how} over set {ast.unparse(it)[:40]} whose elements are not provably ints: '
                'iteration order of str/enum sets depends on PYTHONHASHSEED')
  ctx.extra['set_iteration_sites'] = sites
  ctx.sample(R, {'set_iteration_sites': sites})
  if sites < 3:
    raise index.AnalysisError(f'C14.R4: only {sites} set-iteration sites recognised (expected the consumer-grouping sites)')


def r5_nondeterminism(ctx):
  R = 'C14.R5'
  ctx.rule(R, 'no unseeded randomness / time / id / hash / environment in the API call tree', floor=1)
  cg = callgraph.get(ctx)
  q, methods = api_methods(ctx)
  chains = cg.reachable([m.fq for m in methods])
  ctx.instance(R, len(chains))
  seen = 0
  for fq in sorted(chains):
    f = ctx.repo.func(fq)
    for n in common.walk_no_nested(f.node):
      name = None
      if isinstance(n, ast.Call):
        name = common.call_name(n)
        if isinstance(n.func, ast.Name) and n.func.id in NONDET_BUILTINS and n.func.id not in [p for p in f.params]:
          ctx.check(R, False, n, f, n, f'{n.func.id}() is process-dependent', path=chains[fq])
          continue
        if name.startswith(('np.random.default_rng', 'numpy.random.default_rng', 'np.random.seed', 'np.random.RandomState', 'random.Random', 'random.seed')):
          seen += 1
          ctx.check(R, bool(n.args or n.keywords), n, f, n, 'random generator created without a seed', path=chains[fq])
          continue
      elif isinstance(n, ast.Attribute) and isinstance(n.ctx, ast.Load):
        name = ast.unparse(n)
        if not name.startswith('os.environ'):
          continue
      if name and name.startswith(NONDET):
        ctx.check(R, False, n, f, n, f'{name} makes the result depend on the process / time / environment', path=chains[fq])
  ctx.rule(R).obligations += 1
  ctx.rule(R).discharged += 1
  ctx.sample(R, {'functions_in_api_call_tree': len(chains), 'seeded_generators': seen})


def shared_mutable_class_attrs(ctx):
  """(class, attribute, defining node, mutating node) for every mutable object
  created in a class body (one object for all instances) that a method mutates
  through `self.<attr>` without `__init__` rebinding the attribute first."""
  out = []
  MUT = effects.MUTATORS
  for m in ctx.repo.modules.values():
    for ci in m.classes.values():
      if getattr(ci, 'is_enum', False):
        continue
      cand = {}
      for st in ci.node.body:
        tgt = val = None
        if isinstance(st, ast.Assign) and len(st.targets) == 1 and isinstance(st.targets[0], ast.Name):
          tgt, val = st.targets[0].id, st.value
        elif isinstance(st, ast.AnnAssign) and isinstance(st.target, ast.Name) and st.value is not None:
          tgt, val = st.target.id, st.value
        if tgt is None:
          continue
        mutable = isinstance(val, (ast.List, ast.Dict, ast.Set, ast.ListComp, ast.DictComp, ast.SetComp)) or (
            isinstance(val, ast.Call) and common.call_name(val) in ('list', 'dict', 'set', 'bytearray', 'collections.OrderedDict', 'collections.defaultdict', 'collections.deque', 'collections.Counter'))
        if mutable:
          cand[tgt] = st
      if not cand:
        continue
      init = ci.methods.get('__init__')
      rebound = set()
      if init is not None:
        for n in common.walk_no_nested(init.node):
          if isinstance(n, (ast.Assign, ast.AnnAssign)):
            for t in (n.targets if isinstance(n, ast.Assign) else [n.target]):
              if isinstance(t, ast.Attribute) and isinstance(t.value, ast.Name) and t.value.id == 'self':
                rebound.add(t.attr)
      for name, meth in ci.methods.items():
        for n in common.walk_no_nested(meth.node):
          hit = None
          if isinstance(n, ast.Call) and isinstance(n.func, ast.Attribute) and n.func.attr in MUT and isinstance(n.func.value, ast.Attribute) \
              and isinstance(n.func.value.value, ast.Name) and n.func.value.value.id in ('self', 'cls') and n.func.value.attr in cand:
            hit = n.func.value.attr
          elif isinstance(n, (ast.Assign, ast.AugAssign, ast.Delete)):
            tgts = n.targets if isinstance(n, (ast.Assign, ast.Delete)) else [n.target]
            for t in tgts:
              base = t.value if isinstance(t, ast.Subscript) else (t if isinstance(n, ast.AugAssign) else None)
              if isinstance(base, ast.Attribute) and isinstance(base.value, ast.Name) and base.value.id in ('self', 'cls') and base.attr in cand:
                hit = base.attr
          if hit is not None and hit not in rebound:
            out.append((ci, hit, cand[hit], n, meth))
  return out


def r7_no_shared_class_objects(ctx, R='C14.R7'):
  ctx.rule(R, 'no mutable object created in a class body is mutated through instances (it would be shared by every object of the class, across calls and models)', floor=10)
  hits = shared_mutable_class_attrs(ctx)
  n = 0
  for m in ctx.repo.modules.values():
    for ci in m.classes.values():
      ctx.instance(R)
      n += 1
  for ci, attr, dnode, mnode, meth in hits:
    ctx.check(R, False, mnode, meth, f'{ci.name}.{attr}',
              f'`{attr}` is created once in the body of class {ci.name} and {meth.name}() mutates it through an instance: all {ci.name} objects share it, so a later call sees what an earlier one left there')
  if not hits:
    ctx.check(R, True, None, None, f'{n} classes', '')


def run(ctx):
  ctx.assume('external library calls do not mutate their arguments and return fresh objects (modelled exceptions: shallow copies, numpy views, flatbuffer parser views, container mutators)')
  ctx.assume('user-supplied callables (qsv_update_func, compare_fn) are out of scope')
  r1_no_arg_mutation(ctx)
  r2_fresh_helpers(ctx)
  r3_no_ambient_state(ctx)
  r4_set_iteration(ctx)
  r5_nondeterminism(ctx)
  r7_no_shared_class_objects(ctx)
  from sa.rules import shared  # pylint: disable=g-import-not-at-top
  shared.rule_single_traversal(ctx, 'C14.R6', ['quantizer:Quantizer.calibrate', 'quantizer:Quantizer.validate', 'model_validator:compare_model', 'calibrator:Calibrator.calibrate'])
