"""C18 - validate() reports the true per-tensor error, once per tensor."""
from __future__ import annotations

import ast

from sa import algebra
from sa import cfg as cfgmod
from sa import defuse
from sa import index
from sa.rules import common
from sa.rules import shared

EXPLANATION = (
    'Family coherence of the reference/target interpreter triples in '
    'compare_model (each tensor is read from the interpreter, detail map and '
    'subgraph index of ONE family), name-keyed pairing, pop-partition of the '
    'result into inputs/outputs/constants/intermediates, metric argument '
    'order and aggregation, dequantize-by-default, subgraph index from the '
    'signature for both families, and the metric formulas as rational '
    'functions (MSE = mean((a-b)^2); median diff ratio = '
    'median(|a-b| / (|b| + eps))).'
)
LEVEL_TEXT = (
    'Decides the wiring of the comparison for every model and signature: '
    'copy-paste symmetry errors between the reference and the target family '
    '(which the suite cannot see because both models share names and subgraph '
    'indices in its fixtures) are excluded on every path, each result name is '
    'filed in exactly one group, and the metrics are the documented formulas. '
    'Metric values themselves are not decided.'
    ' Validation simulation with stand-in interpreters: mean per signature of metric(target, reference), one group per tensor.'
)
LEVEL_NOTE = (
    'Trusted: sa def-use engine; numpy reductions named as such. Not decided: '
    'interpreter tensor contents, float rounding.'
)
TECHNIQUE = 'def-use origin (family coherence) + CFG partition rule + formula identity + validation simulation with stand-in interpreters (abstract interpretation) (static)'

MV = 'model_validator'
VU = 'utils.validation_utils'
IU = 'utils.tfl_interpreter_utils'


DETAIL_MAPS: set = set()


def _signature_loops(f):
  """(signature key variable, sample variable) of `for K, V in test_data.items(): for S in V:`."""
  td = f.pos_params[2]
  outer = [n for n in common.walk_no_nested(f.node) if isinstance(n, ast.For) and defuse.norm(n.iter) == f'{td}.items()'
           and isinstance(n.target, ast.Tuple) and len(n.target.elts) == 2 and all(isinstance(e, ast.Name) for e in n.target.elts)]
  if len(outer) != 1:
    raise index.AnalysisError(f'{f.fq}: expected one loop over {td}.items()')
  k, v = [e.id for e in outer[0].target.elts]
  inner = [n for n in ast.walk(outer[0]) if isinstance(n, ast.For) and n is not outer[0] and defuse.norm(n.iter) == v and isinstance(n.target, ast.Name)]
  if len(inner) != 1:
    raise index.AnalysisError(f'{f.fq}: expected one loop over the samples of a signature')
  _signature_loops.outer = outer[0]
  return k, inner[0].target.id


def r1_family(ctx):
  DETAIL_MAPS.clear()
  R = 'C18.R1'
  ctx.rule(R, 'each tensor is read with the interpreter, detail map and subgraph index of one family', floor=2)
  f = ctx.repo.func(f'{MV}:compare_model')
  setups = []
  for n in common.walk_no_nested(f.node):
    if isinstance(n, ast.Assign) and isinstance(n.value, ast.Call) and common.call_name(n.value).endswith('_setup_validation_interpreter'):
      t = n.targets[0]
      if isinstance(t, ast.Tuple) and len(t.elts) == 3:
        setups.append(([e.id for e in t.elts], n.value))
  if len(setups) != 2:
    raise index.AnalysisError(f'{R}: {f.fq}: expected two _setup_validation_interpreter triples, found {len(setups)} (the construction rules C18.R1 / R3 cannot read it; the validation simulation C18.R9 decides)')
  fam = {}
  sig_key, sample = _signature_loops(f)
  for names, call in setups:
    model = ast.unparse(call.args[0])
    for nm in names:
      fam[nm] = model
    DETAIL_MAPS.add(names[2])
    ctx.instance(R)
    args = [ast.unparse(a) for a in call.args]
    ctx.check(R, args[1:] == [sample, sig_key, f.pos_params[5]], call, f, call, 'both families must be invoked with the same input, signature and kernel choice')
  models = sorted(set(fam.values()))
  ctx.check(R, models == sorted(f.pos_params[:2]), f.node, f, f'families {models}', 'one family must be the reference model and the other the target model')
  reads = [c for c in common.calls_in(f.node) if common.call_name(c).endswith('get_tensor_data')]
  ctx.check(R, len(reads) == 2, f.node, f, f'{len(reads)} tensor reads', 'exactly one read per family is expected')
  results = {}
  for c in reads:
    used = [n.id for a in c.args for n in ast.walk(a) if isinstance(n, ast.Name) and n.id in fam]
    fams = {fam[u] for u in used}
    ctx.check(R, len(fams) == 1 and len(set(used)) >= 2, c, f, c,
              f'tensor read mixes families {sorted(fams)} ({used}): e.g. the target tensor is fetched with the reference subgraph index')
    kinds = [ast.unparse(a) for a in c.args]
    ctx.check(R, len(c.args) == 3, c, f, c, 'get_tensor_data(interpreter, detail, subgraph_index) expected')
    for k in c.keywords:
      if k.arg == 'dequantize':
        ctx.check(R, isinstance(k.value, ast.Constant) and k.value.value is True, c, f, c, 'tensors must be compared after dequantization')
    st = common.stmt_of(f.node, c)
    if isinstance(st, ast.Assign) and isinstance(st.targets[0], ast.Name) and fams:
      results[st.targets[0].id] = list(fams)[0]
  return f, fam, results


def r34_pairing_and_metric(ctx, f, fam, results):
  R = 'C18.R3'
  ctx.rule(R, 'tensors are paired by name; metric(target, reference); mean over samples', floor=1)
  ctx.instance(R)
  loops = [n for n in common.walk_no_nested(f.node) if isinstance(n, ast.For) and '.items()' in ast.unparse(n.iter) and any(k in ast.unparse(n.iter) for k in fam)]
  if not ctx.check(R, len(loops) == 1 and isinstance(loops[0].target, ast.Tuple), f.node, f, 'loop over one family\'s details', 'tensors must be enumerated from the detail map of one family'):
    return
  l = loops[0]
  name, detail = [e.id for e in l.target.elts]
  base_family = [fam[k] for k in fam if k in ast.unparse(l.iter)][0]
  ctx.check(R, base_family == f.pos_params[0], l, f, l.iter, 'the tensors compared are those of the reference model')
  other = [k for k in fam if fam[k] != base_family and k in DETAIL_MAPS]
  g = cfgmod.build(f.node)
  # the other family's detail is looked up with the loop's own tensor name, under a membership test
  subs = [n for n in ast.walk(l) if isinstance(n, ast.Subscript) and isinstance(n.value, ast.Name) and n.value.id in other]
  ctx.check(R, len(subs) == 1 and ast.unparse(subs[0].slice) == name, l, f, subs[0] if subs else l, 'the target tensor must be looked up by the same tensor name')
  # (decided on values by the validation simulation C18.R9; here: the lookup happens under the membership fact, nested or as a guard clause)
  mem = [x for x in (common.facts_at(l, subs[0]) if subs else []) if isinstance(x, ast.Compare) and len(x.ops) == 1 and isinstance(x.ops[0], ast.In)
         and ast.unparse(x.left) == name and ast.unparse(x.comparators[0]) in other]
  ctx.check(R, len(mem) >= 1, l, f, 'name in target details', 'only tensors present in both models may be compared')
  cmp_calls = [c for c in common.calls_in(l) if isinstance(c.func, ast.Name) and c.func.id == 'compare_fn']
  if ctx.check(R, len(cmp_calls) == 1 and len(cmp_calls[0].args) == 2, l, f, 'compare_fn(...)', 'the metric must be applied once per tensor and sample'):
    a0, a1 = [ast.unparse(a) for a in cmp_calls[0].args]

    def family_of(e):   # a local that holds a tensor read, or the read itself
      if isinstance(e, ast.Name):
        return results.get(e.id)
      fams_ = {fam[n.id] for n in ast.walk(e) if isinstance(n, ast.Name) and n.id in fam}
      return next(iter(fams_)) if len(fams_) == 1 else None
    f0, f1 = [family_of(a) for a in cmp_calls[0].args]
    ctx.check(R, f0 == f.pos_params[1] and f1 == f.pos_params[0], cmp_calls[0], f, cmp_calls[0],
              f'metric arguments are ({a0[:60]}: {f0}, {a1[:60]}: {f1}); must be (target data, reference data) - the ratio metric divides by its second argument')
    st = common.stmt_of(f.node, cmp_calls[0])
    ctx.check(R, isinstance(st, ast.Expr) and isinstance(st.value, ast.Call) and isinstance(st.value.func, ast.Attribute) and st.value.func.attr == 'append' and name in ast.unparse(st.value.func.value), st, f, st,
              'per-sample values must be appended to the list of the same tensor name')
  agg = [n for n in common.walk_no_nested(f.node) if isinstance(n, ast.Assign) and isinstance(n.value, ast.Call) and common.call_name(n.value) in ('np.mean', 'numpy.mean')]
  ok = len(agg) == 1 and isinstance(agg[0].targets[0], ast.Subscript)
  if ok:
    key = ast.unparse(agg[0].targets[0].slice)
    ok = ast.unparse(agg[0].value.args[0]).endswith(f'[{key}]')
  ctx.check(R, ok, f.node, f, agg[0] if agg else 'np.mean', 'the reported value must be the mean over the samples of the same tensor')
  # which tensors may be skipped (object dtype, nothing else) is decided on values by the validation simulation C18.R9
  sig_key, _ = _signature_loops(f)
  sig_loop = _signature_loops.outer
  add = [c for c in common.calls_in(f.node) if common.call_name(c).endswith('add_new_signature_results')]
  agg_name = ast.unparse(agg[0].targets[0].value) if agg and isinstance(agg[0].targets[0], ast.Subscript) else None
  ok = len(add) == 1 and [ast.unparse(a) for a in add[0].args] == [f.pos_params[3], agg_name, sig_key] and add[0] in list(ast.walk(sig_loop))
  ctx.check(R, ok, f.node, f, add[0] if add else 'add_new_signature_results', 'results must be filed under the signature they were computed for')
  # results dict is per signature
  samples = None
  if len(cmp_calls) == 1:
    st = common.stmt_of(f.node, cmp_calls[0])
    if isinstance(st, ast.Expr) and isinstance(st.value, ast.Call) and isinstance(st.value.func, ast.Attribute) and isinstance(st.value.func.value, ast.Subscript):
      samples = ast.unparse(st.value.func.value.value)
  inits = [n for n in common.walk_no_nested(f.node) if isinstance(n, ast.Assign) and isinstance(n.targets[0], ast.Name) and n.targets[0].id in (samples, agg_name)]
  ok = samples is not None and len(inits) == 2 and all(isinstance(n.value, ast.Dict) and not n.value.keys and any(x is n for x in sig_loop.body) for n in inits)
  ctx.check(R, ok, f.node, f, f'{samples} = {{}} / {agg_name} = {{}} per signature', 'per-tensor sample lists and their means must be reset for every signature')


def r2_pop_partition(ctx):
  R = 'C18.R2'
  ctx.rule(R, 'every result name is filed in exactly one of inputs / outputs / constants / intermediates', floor=1)
  f = ctx.repo.func(f'{MV}:ComparisonResult.add_new_signature_results')
  ctx.instance(R)
  res = None
  for n in common.walk_no_nested(f.node):
    if isinstance(n, ast.Assign) and isinstance(n.value, ast.DictComp) and isinstance(n.targets[0], ast.Name):
      res = n.targets[0].id
  if res is None:
    raise index.AnalysisError(f'{f.fq}: result dict not found')
  groups = {}
  for l in [n for n in common.walk_no_nested(f.node) if isinstance(n, ast.For)]:
    for st in l.body:
      if isinstance(st, ast.Assign) and isinstance(st.targets[0], ast.Subscript) and isinstance(st.targets[0].value, ast.Name):
        grp = st.targets[0].value.id
        v = st.value
        ok = isinstance(v, ast.Call) and isinstance(v.func, ast.Attribute) and v.func.attr == 'pop' and ast.unparse(v.func.value) == res and ast.unparse(v.args[0]) == ast.unparse(st.targets[0].slice)
        groups[grp] = ast.unparse(l.iter)
        ctx.check(R, ok, st, f, st, f'{grp} is filled with {ast.unparse(v)}: names must be MOVED out of the result with pop(name), otherwise a tensor is reported in two groups')
  ctx.check(R, len(groups) == 3, f.node, f, f'groups {sorted(groups)}', 'inputs, outputs and constants must each be split off the result')
  srcs = ' '.join(groups.values())
  ctx.check(R, 'get_input_tensor_names' in srcs and 'get_output_tensor_names' in srcs and 'get_constant_tensor_names' in srcs, f.node, f, 'group sources', 'groups must come from the input / output / constant tensor names of the reference model')
  ctor = [c for c in common.calls_in(f.node) if common.call_name(c).endswith('SingleSignatureComparisonResult')]
  if ctx.check(R, len(ctor) == 1, f.node, f, 'SingleSignatureComparisonResult(...)', 'missing'):
    kw = {k.arg: ast.unparse(k.value) for k in ctor[0].keywords}
    ctx.check(R, kw.get('intermediate_tensors') == res, ctor[0], f, ctor[0], 'the remainder of the result must become the intermediate tensors')
    vals = [kw.get('input_tensors'), kw.get('output_tensors'), kw.get('constant_tensors')]
    ctx.check(R, len(set(vals)) == 3 and set(vals) == set(groups), ctor[0], f, ctor[0], 'each group must be filed under its own field')
  # signature consistency: all name queries use the signature being filed, constants from its main subgraph
  for c in common.calls_in(f.node):
    nm = common.call_name(c)
    if nm.endswith(('get_input_tensor_names', 'get_output_tensor_names')):
      ctx.check(R, [ast.unparse(a) for a in c.args] == ['self._reference_model', 'signature_key'], c, f, c, 'names must be queried on the reference model for the signature being filed')
    if nm.endswith('get_constant_tensor_names'):
      a = [ast.unparse(x) for x in c.args]
      inl = defuse.Inliner(ctx.repo, max_depth=0)
      idx = defuse.norm(inl.inline(f, c.args[1])) if len(c.args) > 1 else ''
      ctx.check(R, a[:1] == ['self._reference_model'] and 'get_signature_main_subgraph_index(' in idx and 'signature_key' in idx, c, f, c,
                'constants must be those of the main subgraph of the signature being filed')
  dup = [n for n in common.walk_no_nested(f.node) if isinstance(n, ast.If) and 'signature_key in' in ast.unparse(n.test) and any(isinstance(x, ast.Raise) for x in n.body)]
  ctx.check(R, len(dup) == 1, f.node, f, 'duplicate signature guard', 'filing a signature twice must be rejected')


def r6_subgraph_index(ctx):
  R = 'C18.R6'
  ctx.rule(R, 'each family reads the main subgraph of the signature on its own interpreter', floor=1)
  f = ctx.repo.func(f'{MV}:_setup_validation_interpreter')
  ctx.instance(R)
  inl = defuse.Inliner(ctx.repo, max_depth=0)
  rets = [n for n in common.walk_no_nested(f.node) if isinstance(n, ast.Return)]
  if not ctx.check(R, len(rets) == 1 and isinstance(rets[0].value, ast.Tuple) and len(rets[0].value.elts) == 3, f.node, f, 'return (interpreter, index, details)', 'shape changed'):
    return
  it, idx, det = [defuse.norm(inl.inline(f, e)) for e in rets[0].value.elts]
  mk = inl.inline(f, rets[0].value.elts[0])
  built_from = common.named_args(ctx, f, mk).get('tflite_model') if isinstance(mk, ast.Call) and common.call_name(mk).endswith('create_tfl_interpreter') else None
  ctx.check(R, built_from is not None and defuse.norm(built_from) == f.pos_params[0], f.node, f, it[:80], 'the interpreter must be built from the model passed in')
  ctx.check(R, idx.startswith('utils.get_signature_main_subgraph_index(') and 'signature_key' in idx, f.node, f, idx[:100], 'subgraph index must come from the signature on this interpreter')
  ctx.check(R, det.startswith('utils.get_tensor_name_to_details_map(') and 'get_signature_main_subgraph_index' in det, f.node, f, det[:100], 'details must be those of the signature\'s main subgraph')
  g = cfgmod.build(f.node)
  inv = [n for n in g.nodes if any(common.call_name(c).endswith('invoke_interpreter_signature') for c in n.calls())]
  ctx.check(R, len(inv) == 1 and g.every_path_passes(g.entry.id, g.exit.id, {inv[0].id}), f.node, f, 'invoke before reading', 'the signature must be invoked before tensors are read')
  if inv:
    c = [c for c in inv[0].calls() if common.call_name(c).endswith('invoke_interpreter_signature')][0]
    ctx.check(R, [ast.unparse(a) for a in c.args][1:] == ['signature_input', 'signature_key'], c, f, c, 'invoked with the given input and signature')
  # get_tensor_data: dequantize default True, reads (index, subgraph)
  gd = ctx.repo.func(f'{IU}:get_tensor_data')
  d = gd.param_default('dequantize')
  ctx.check(R, isinstance(d, ast.Constant) and d.value is True, gd.node, gd, 'dequantize default', 'quantized tensors must be dequantized before comparison by default')
  ip, dp, sp, qp = gd.pos_params[:4]
  raw = f"{ip}.get_tensor({dp}['index'], {sp})"
  rets = {}
  for p in defuse.paths(gd.node):
    if p.raises is None and p.ret is not None:
      rets[p.cond_text()] = defuse.norm(p.ret).replace('uniform_quantize_tensor.', '').replace('qtyping.', '')
  want_deq = f'uniform_dequantize({raw}, UniformQuantParams.from_tfl_tensor_details({dp}))'
  ctx.check(R, set(rets.values()) == {raw, want_deq}, gd.node, gd, f'returns {sorted(set(rets.values()))}',
            'the tensor must be read by its own index in the given subgraph and dequantized with the parameters of the same tensor detail')
  for cond, r in rets.items():
    if r == want_deq:
      ctx.check(R, cond.replace(' ', '') in (f'(is_tensor_quantized({dp})and{qp})', f'({qp}andis_tensor_quantized({dp}))'), gd.node, gd, f'dequantize when {cond}', 'dequantization must apply exactly to quantized tensors when requested')


def r7_metrics(ctx):
  R = 'C18.R7'
  ctx.rule(R, 'metric formulas: MSE = mean((a-b)^2); median ratio = median(|a-b| / (|b| + eps)); selection by name', floor=2)
  m = ctx.repo.func(f'{VU}:mean_squared_difference')
  ctx.instance(R)
  ps = [p for p in defuse.paths(m.node, keep=frozenset({'data1', 'data2'})) if p.raises is None]
  main = [p for p in ps if not any('size == 0' in defuse.norm(c) and t for c, t in p.conds)]
  ok = False
  for p in main:
    txt = defuse.norm(p.ret)
    if algebra.same(p.ret, 'float(np.square(np.subtract(data1, data2)).mean())') or algebra.same(p.ret, 'float(np.square(data1 - data2).mean())') or 'np.square(np.subtract(data1, data2)).mean()' in txt or 'np.mean(np.square(' in txt:
      ok = True
  ctx.check(R, ok and main, m.node, m, 'mean((a-b)^2)', 'mean_squared_difference is no longer mean(square(data1 - data2))')
  empty = [p for p in ps if p not in main]
  ctx.check(R, all(defuse.norm(p.ret) in ('float(0)', '0.0', 'float(0.0)') for p in empty), m.node, m, 'empty tensors', 'empty tensors must compare as 0')
  r = ctx.repo.func(f'{VU}:median_diff_ratio')
  ctx.instance(R)
  ps = [p for p in defuse.paths(r.node, keep=frozenset({'data1', 'data2'})) if p.raises is None]
  main = [p for p in ps if not any('size == 0' in defuse.norm(c) and t for c, t in p.conds)]
  ok = any(algebra.same(p.ret, 'np.median(abs(data1 - data2) / (abs(data2) + tolerance_threshold))') for p in main)
  ctx.check(R, ok, r.node, r, 'median(|a-b| / (|b| + eps))', 'median_diff_ratio is no longer median(|data1-data2| / (|data2| + eps))')
  d = r.param_default('tolerance_threshold')
  ctx.check(R, isinstance(d, ast.Constant) and isinstance(d.value, float) and 0 < d.value < 1e-3, r.node, r, 'eps', 'the division guard must be a small positive constant')
  for fn in (m, r):
    pre = [c for c in common.calls_in(fn.node) if common.call_name(c).endswith('_preprocess_same_size_arrays')]
    st = common.stmt_of(fn.node, pre[0]) if pre else None
    ok = len(pre) == 1 and isinstance(st, ast.Assign) and [ast.unparse(a) for a in pre[0].args] == fn.pos_params[:2] and [e.id for e in st.targets[0].elts] == fn.pos_params[:2]
    ctx.check(R, ok, fn.node, fn, 'sanitise both arguments in order', 'both arguments must be sanitised, in the same order')
  p = ctx.repo.func(f'{VU}:_preprocess_same_size_arrays')
  src = defuse.norm(p.node)
  ctx.check(R, src.count('np.nan_to_num(') == 2 and 'raise ValueError' in src, p.node, p, 'sanitising', 'NaN/inf must be sanitised identically on both arguments and size mismatch rejected')
  s1 = [defuse.norm(n.value).replace('data1', 'X') for n in common.walk_no_nested(p.node) if isinstance(n, ast.Assign) and ast.unparse(n.targets[0]) == 'data1']
  s2 = [defuse.norm(n.value).replace('data2', 'X') for n in common.walk_no_nested(p.node) if isinstance(n, ast.Assign) and ast.unparse(n.targets[0]) == 'data2']
  ctx.check(R, s1 == s2 and s1, p.node, p, 'symmetric preprocessing', f'the two arguments are preprocessed differently: {s1} vs {s2}')
  sel = ctx.repo.func(f'{VU}:get_validation_func')
  from sa import tables  # pylint: disable=g-import-not-at-top
  got = {}
  for name in ('mse', 'median_diff_ratio', 'nonsense'):
    outs = tables.call(ctx, sel.fq, [name])
    got[name] = [o.short() for o in outs]
  ctx.check(R, got['mse'] == ['return &utils.validation_utils:mean_squared_difference'] and got['median_diff_ratio'] == ['return &utils.validation_utils:median_diff_ratio'] and got['nonsense'] == ['raise ValueError'],
            sel.node, sel, f'selection {got}', 'metric selection by name is wrong')
  q = ctx.repo.func('quantizer:Quantizer.validate')
  calls = [c for c in common.calls_in(q.node) if common.call_name(c).endswith('compare_model')]
  if ctx.check(R, len(calls) == 1, q.node, q, 'compare_model call', 'validate() must call compare_model once'):
    a = [ast.unparse(x) for x in calls[0].args]
    ctx.check(R, a[:2] == ['self.float_model', 'self._result.quantized_model'] and 'get_validation_func(error_metrics)' in a[4], calls[0], q, calls[0], 'validate() must compare (float model, last quantized model) with the requested metric')


def r9_validation_simulation(ctx, R='C18.R9'):
  """compare_model and ComparisonResult run on two label "models" whose
  interpreters are stand-ins (tensor values per model, signature and sample are
  given); the metric is a stand-in that returns a number determined by its two
  arguments IN ORDER. Oracle, per signature: every tensor present in both
  models is reported with the mean over that signature's samples of
  metric(target value, reference value), filed under exactly one of inputs /
  outputs / constants / intermediates of that signature."""
  import fractions  # pylint: disable=g-import-not-at-top
  from sa import absint  # pylint: disable=g-import-not-at-top
  from sa.consteval import Ext, Obj  # pylint: disable=g-import-not-at-top
  rs = ctx.rule(R, 'validation simulation: per signature, every common tensor with numbers in it (float, integer, boolean - all but strings) gets mean over its samples of metric(target, reference), filed in exactly one group', floor=1)
  cm = ctx.repo.func(f'{MV}:compare_model')
  ctx.instance(R)
  F = fractions.Fraction
  # two signatures with different tensors, sample counts and subgraphs; one tensor exists only in the reference, one only in the target
  SIG = {
      'sa': {'subgraph': 0, 'inputs': ['a_in'], 'outputs': ['a_out'], 'constants': ['a_w'], 'tensors': ['a_in', 'a_w', 'a_mid', 'a_mask', 'a_idx', 'a_str', 'a_out', 'a_refonly'], 'samples': [1, 2, 3]},
      'sb': {'subgraph': 1, 'inputs': ['b_in'], 'outputs': ['b_out'], 'constants': [], 'tensors': ['b_in', 'b_mid', 'b_out'], 'samples': [5, 7]},
  }
  # tensors of every kind of content: a boolean mask, integer indices, a quantized constant - and one string tensor (numpy object dtype), the only kind that has no numbers to compare
  DTYPE = {'a_mask': 'bool_', 'a_idx': 'int32', 'a_w': 'int8', 'a_str': 'object_', 'b_mid': 'float16'}
  TARGET_EXTRA = {'sa': ['a_quantized_only'], 'sb': []}

  def value(model, name, sample):   # a deterministic "tensor value"
    return F(sum(ord(c) for c in name) % 17 + sample * (3 if model == 'ref' else 5), 1 if model == 'ref' else 2)

  def metric(args, kwargs):
    t, r = args[0], args[1]
    return 2 * t - r          # not symmetric: the argument order is visible
  state = {}

  def setup(args, kwargs):
    model, sample, key = args[0], args[1], args[2]
    names = list(SIG[key]['tensors']) + (TARGET_EXTRA[key] if model == 'tgt' else [])
    if model == 'tgt':
      names = [n for n in names if not n.endswith('refonly')]
    interp = Obj('x:Interpreter', {'model': model, 'key': key, 'sample': sample['s']})
    details = {n: {'index': (names.index(n), model, key), 'dtype': Ext('np.' + DTYPE.get(n, 'float32')), 'name': n} for n in names}
    return (interp, SIG[key]['subgraph'] + (0 if model == 'ref' else 10), details)   # the two models number their subgraphs differently

  def get_data(args, kwargs):
    interp, detail, sg = args[0], args[1], args[2] if len(args) > 2 else kwargs.get('subgraph_index')
    f = interp.fields
    idx, model, key = detail['index']
    if model != f['model'] or key != f['key']:
      state.setdefault('problems', []).append(f'tensor {detail["name"]} of the {model} model read through the {f["model"]} interpreter')
    want_sg = SIG[key]['subgraph'] + (0 if model == 'ref' else 10)
    if sg != want_sg:
      state.setdefault('problems', []).append(f'tensor {detail["name"]} of the {model} model read from subgraph {sg}; signature {key} runs on subgraph {want_sg} of that model')
    return value(model, detail['name'], f['sample'])
  hooks = {
      f'{MV}:_setup_validation_interpreter': setup,
      'utils.get_tensor_data': get_data,
      'utils.get_input_tensor_names': lambda a, k: list(SIG[a[1]]['inputs']),
      'utils.get_output_tensor_names': lambda a, k: list(SIG[a[1]]['outputs']),
      'utils.get_constant_tensor_names': lambda a, k: [n for key in SIG for n in SIG[key]['constants'] if SIG[key]['subgraph'] == (a[1] if len(a) > 1 else k.get('subgraph_index', 0))],
      'utils.get_signature_main_subgraph_index': lambda a, k: SIG[a[1]]['subgraph'],
      'utils.create_tfl_interpreter': lambda a, k: Obj('x:Interpreter', {'model': a[0]}),
  }
  it = absint.Interp(ctx.repo, ctx.ev, hooks=hooks)
  rs.exhaustive = True
  for order in (['sa', 'sb'], ['sb', 'sa'], ['sa']):
    state.clear()
    data = {k: [{'s': s} for s in SIG[k]['samples']] for k in order}
    o = it.outcomes(cm, ['ref', 'tgt', data, 'metric-name', shared._StandIn(lambda a, k, kind=None: metric(a, k), 'm'), False], copy_args=False)  # pylint: disable=protected-access
    label = f'signatures {order}'
    if len(o) != 1 or o[0].kind != 'return' or not isinstance(o[0].value, Obj):
      ctx.check(R, False, cm.node, cm, label, f'not decided: {[x.short()[:120] for x in o]}')
      continue
    ctx.check(R, not state.get('problems'), cm.node, cm, label, '; '.join(state.get('problems', [])[:2]))
    res = o[0].value.fields.get('_comparison_results')
    if not isinstance(res, dict) or sorted(res) != sorted(order):
      ctx.check(R, False, cm.node, cm, label, f'results filed under {sorted(res) if isinstance(res, dict) else res!r}, expected {sorted(order)}')
      continue
    for key in order:
      r = res[key].fields
      common_names = [n for n in SIG[key]['tensors'] if not n.endswith('refonly') and DTYPE.get(n) != 'object_']
      want = {n: sum(metric([value('tgt', n, s), value('ref', n, s)], {}) for s in SIG[key]['samples']) / len(SIG[key]['samples']) for n in common_names}
      groups = {'input_tensors': SIG[key]['inputs'], 'output_tensors': SIG[key]['outputs'], 'constant_tensors': SIG[key]['constants']}
      groups['intermediate_tensors'] = [n for n in common_names if not any(n in g for g in groups.values())]
      ctx.check(R, r.get('error_metric') == 'metric-name', cm.node, cm, f'{label}: {key} metric name', 'the metric name must be recorded')
      for gname, names in groups.items():
        got = r.get(gname)
        ok = isinstance(got, dict) and sorted(got) == sorted(names) and all(absint._is_num(got[n]) and abs(F(got[n]) - want[n]) <= F(1, 10 ** 9) for n in names)  # pylint: disable=protected-access
        shown = {n: (float(v) if absint._is_num(v) else repr(v)) for n, v in got.items()} if isinstance(got, dict) else got  # pylint: disable=protected-access
        ctx.check(R, ok, cm.node, cm, f'{label}: {key}.{gname} = {shown}',
                  f'expected {({n: float(want[n]) for n in names})}: the mean over the {len(SIG[key]["samples"])} samples of this signature of metric(target, reference)')



def r11_metric_table(ctx, R='C18.R11'):
  """The two metrics run on small exact arrays (the NaN / size preprocessing is replaced by a flattening stand-in):
  MSE = mean((a - b)^2); median ratio = median(|a - b| / (|b| + eps)) - the SECOND argument normalises."""
  import fractions  # pylint: disable=g-import-not-at-top
  from sa import absint  # pylint: disable=g-import-not-at-top
  from sa.ndarr import NdArr  # pylint: disable=g-import-not-at-top
  rs = ctx.rule(R, 'metric table: MSE = mean((a-b)^2), median ratio = median(|a-b| / (|b| + eps)) on small exact arrays', floor=2)
  F = fractions.Fraction
  VU = 'utils.validation_utils'
  flat = lambda x: x.reshape((-1,)) if isinstance(x, NdArr) else NdArr.from_nested(x).reshape((-1,))
  it = absint.Interp(ctx.repo, ctx.ev, hooks={f'{VU}:_preprocess_same_size_arrays': lambda a, k: (flat(a[0]), flat(a[1]))})
  mse = ctx.repo.func(f'{VU}:mean_squared_difference')
  mdr = ctx.repo.func(f'{VU}:median_diff_ratio')
  ctx.instance(R, 2)
  rs.exhaustive = True
  rows = [([1, 2, 3], [1, 2, 3]), ([1, 2, 3], [3, 2, 7]), ([4, -2], [1, 1]), ([0, 0, 10, -4], [2, -8, 5, 1]), ([[1, 5], [2, 0]], [[3, 5], [-2, 4]])]
  for a, b in rows:
    A, B = NdArr.from_nested(a), NdArr.from_nested(b)
    fa, fb = flat(A).data, flat(B).data
    want = F(sum((x - y) ** 2 for x, y in zip(fa, fb)), len(fa))
    o = it.outcomes(mse, [A, B], copy_args=False)
    got = o[0].value if len(o) == 1 and o[0].kind == 'return' else None
    if got is None or not absint._is_num(got):  # pylint: disable=protected-access
      ctx.check(R, False, mse.node, mse, f'mse({a}, {b})', f'not decided: {[x.short()[:80] for x in o]}')
    else:
      ctx.check(R, abs(F(got) - want) <= F(1, 10 ** 9), mse.node, mse, f'mse({a}, {b}) = {float(got):.6g}', f'the mean squared difference must be {float(want):.6g}')
    eps = F(1, 1000)
    ratios = sorted(abs(x - y) / (abs(y) + eps) for x, y in zip(fa, fb))
    mid = len(ratios) // 2
    wantr = ratios[mid] if len(ratios) % 2 else (ratios[mid - 1] + ratios[mid]) / 2
    o = it.outcomes(mdr, [A, B, eps], copy_args=False)
    got = o[0].value if len(o) == 1 and o[0].kind == 'return' else None
    if got is None or not absint._is_num(got):  # pylint: disable=protected-access
      ctx.check(R, False, mdr.node, mdr, f'median_diff_ratio({a}, {b})', f'not decided: {[x.short()[:80] for x in o]}')
    else:
      ctx.check(R, abs(F(got) - wantr) <= F(1, 10 ** 9), mdr.node, mdr, f'median_diff_ratio({a}, {b}, eps=0.001) = {float(got):.6g}',
                f'the median of |a - b| / (|b| + eps) is {float(wantr):.6g}: the SECOND argument (the reference) normalises')


def r12_subgraph_reads(ctx, R='C18.R12'):
  """The helpers that list / read the tensors of ONE subgraph are run on a stand-in interpreter whose two subgraphs
  number their tensors differently (index 0 is an activation in subgraph 0 and a constant in subgraph 1): the names,
  details and contents returned for subgraph s are those of subgraph s. (Round 18: get_constant_tensor_names probed
  every tensor index in subgraph 0 - on the only two-signature fixture both subgraphs have the same layout.)"""
  from sa import absint  # pylint: disable=g-import-not-at-top
  from sa.consteval import Ext, Obj  # pylint: disable=g-import-not-at-top
  from sa.ndarr import NdArr  # pylint: disable=g-import-not-at-top
  rs = ctx.rule(R, 'constant names / details / contents of subgraph s come from subgraph s (stand-in interpreter, two layouts)', floor=3)
  noq = {'scales': [], 'zero_points': [], 'quantized_dimension': 0}
  # (name, kind, element count); kind: act = not readable before allocation (ValueError), const, obj = string tensor
  LAYOUT = {
      0: [('a0', 'act', 4), ('w0', 'const', 4), ('s0', 'const', 1), ('b0', 'act', 2)],
      1: [('w1', 'const', 6), ('a1', 'act', 4), ('', 'const', 3), ('t1', 'obj', 2), ('b1', 'act', 2), ('s1', 'const', 1)],
  }
  reads = []

  def details(args, kwargs, kind=None):
    sg = args[0] if args else kwargs.get('subgraph_index', 0)
    return [{'name': n, 'index': i, 'dtype': Ext('np.object_' if k == 'obj' else 'np.float32'), 'quantization_parameters': dict(noq)}
            for i, (n, k, _) in enumerate(LAYOUT[sg])]

  def get_tensor(args, kwargs, kind=None):
    idx = args[0]
    sg = args[1] if len(args) > 1 else kwargs.get('subgraph_index', 0)
    reads.append((idx, sg))
    if idx >= len(LAYOUT[sg]):
      raise absint._Raise('ValueError', 'tensor index out of range')  # pylint: disable=protected-access
    n, k, size = LAYOUT[sg][idx]
    if k == 'act':
      raise absint._Raise('ValueError', 'Tensor data is null. Run allocate_tensors() first')  # pylint: disable=protected-access
    return NdArr.from_nested([sg * 100 + idx * 10 + j for j in range(size)])
  interp = Obj('x:Interpreter', {'get_tensor_details': shared._StandIn(details, 'd'), 'get_tensor': shared._StandIn(get_tensor, 'g')})  # pylint: disable=protected-access
  it = absint.Interp(ctx.repo, ctx.ev, hooks={f'{IU}:create_tfl_interpreter': lambda a, k: interp, 'create_tfl_interpreter': lambda a, k: interp})
  gc = ctx.repo.func(f'{IU}:get_constant_tensor_names')
  gd = ctx.repo.func(f'{IU}:get_tensor_name_to_details_map')
  gm = ctx.repo.func(f'{IU}:get_tensor_name_to_content_map')
  ctx.instance(R, 3)
  rs.exhaustive = True

  def run1(f, args, label):
    o = it.outcomes(f, args, copy_args=False)
    if len(o) != 1 or o[0].kind != 'return':
      ctx.check(R, False, f.node, f, label, f'not decided: {[x.short()[:120] for x in o]}')
      return None
    return o[0].value
  for sg in (0, 1):
    for min_size in (1, 2):
      want = [n for n, k, size in LAYOUT[sg] if n and k == 'const' and size >= min_size]   # unnamed tensors: either way
      for args, how in (([b'model', sg, min_size], 'positional'),):
        del reads[:]
        got = run1(gc, args, f'get_constant_tensor_names(subgraph {sg}, min size {min_size})')
        if got is None:
          continue
        ctx.check(R, isinstance(got, list) and sorted(n for n in got if n) == sorted(want), gc.node, gc, f'subgraph {sg}, min size {min_size}: {got}',
                  f'the constants of subgraph {sg} with at least {min_size} element(s) are {want}; tensors read (index, subgraph): {reads[:6]}')
    want_names = [n for n, _, _ in LAYOUT[sg] if n]
    got = run1(gd, [interp, sg], f'get_tensor_name_to_details_map(subgraph {sg})')
    if got is not None:
      ok = isinstance(got, dict) and sorted(got) == sorted(want_names) and all(got[n]['index'] == [x[0] for x in LAYOUT[sg]].index(n) for n in want_names)
      ctx.check(R, ok, gd.node, gd, f'subgraph {sg}: {sorted(got) if isinstance(got, dict) else got!r}', f'the named tensors of subgraph {sg} are {want_names}, each with its own details')
  # contents: only readable tensors in the stand-in (a layout of constants), one per name, read from the subgraph asked for
  LAYOUT[0] = [('w0', 'const', 4), ('s0', 'const', 1)]
  LAYOUT[1] = [('s1', 'const', 1), ('', 'const', 2), ('w1', 'const', 3)]
  for sg in (0, 1):
    got = run1(gm, [interp, sg], f'get_tensor_name_to_content_map(subgraph {sg})')
    if got is None:
      continue
    want = {n: [sg * 100 + i * 10 + j for j in range(size)] for i, (n, _, size) in enumerate(LAYOUT[sg]) if n}
    shown = {n: (list(v.data) if isinstance(v, NdArr) else repr(v)) for n, v in got.items()} if isinstance(got, dict) else got
    ctx.check(R, shown == want, gm.node, gm, f'subgraph {sg}: {shown}', f'the contents of subgraph {sg} are {want}')

def run(ctx):
  f, fam, results = r1_family(ctx)
  r2_pop_partition(ctx)
  r34_pairing_and_metric(ctx, f, fam, results)
  r6_subgraph_index(ctx)
  r7_metrics(ctx)
  r9_validation_simulation(ctx)
  r11_metric_table(ctx)
  r12_subgraph_reads(ctx)
  from sa.rules import c10  # pylint: disable=g-import-not-at-top
  c10.r9_signature_subgraph_table(ctx, 'C18.R10')
  shared.rule_single_traversal(ctx, 'C18.R8', ['quantizer:Quantizer.validate', 'model_validator:compare_model'])
