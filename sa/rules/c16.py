"""C16 - large-model (external buffer) serialisation equals the in-place form (structural part)."""
from __future__ import annotations

import ast

from sa import cfg as cfgmod
from sa import defuse
from sa import index
from sa.rules import common

EXPLANATION = (
    'The large-model branch of ModelModifier is analysed directly from source '
    '(no size-threshold hook is needed): alignment typestate of every offset '
    'assignment over the CFG, agreement of the offset-computing pass and the '
    'emitting pass as normalised append sequences, non-zero placeholders '
    'before the dummy serialisation, exactly one constant-map entry per '
    'buffer on every path and a constant map that belongs to the current call, '
    'threshold constant below 2^31. In addition a layout decision table (R6): '
    'the constant map builder and the serialiser are enumerated by the path '
    'interpreter over small buffer configurations (absent, zero-length, '
    'sub-alignment, exactly aligned, byte-identical constants; three table '
    'sizes) against a model of the flatbuffer writer that omits zero scalars; '
    'every constant must sit at its recorded aligned offset in the emitted '
    'stream. R6 does not depend on how offsets are computed, so a rewrite of '
    'the two-pass idiom is still decided.'
)
LEVEL_TEXT = (
    'Decides, on every path of _serialize_large_model, that each recorded '
    'offset is taken while the byte stream is 16-byte aligned, that the size '
    'recorded is the length of the very constant appended at that offset, that '
    'the second pass appends exactly the byte sequence the first pass measured, '
    'and that placeholders cannot change the flatbuffer table size between the '
    'passes. The branch has no test in the suite at all. Equality of the two '
    'serialisations under the interpreter is not decided.'
)
LEVEL_NOTE = (
    'Trusted: flatbuffers omits default-valued (zero) scalars; '
    'convert_object_to_bytearray is deterministic for equal objects. Not '
    'decided: interpreter equality of both forms.'
)
TECHNIQUE = 'typestate dataflow on the CFG + sibling (two-pass) normal-form comparison + finite-domain path enumeration of the layout against a zero-omitting serialiser model (static)'

MM = 'model_modifier:ModelModifier'


def _pad_loops(g):
  """while len(X) % M: X += pad  ->  {head id: (X, M expr)}"""
  out = {}
  for n in g.nodes:
    if n.kind != 'while':
      continue
    t = n.ast.test
    if isinstance(t, ast.BinOp) and isinstance(t.op, ast.Mod) and isinstance(t.left, ast.Call) and common.call_name(t.left) == 'len' and t.left.args:
      x = ast.unparse(t.left.args[0])
      body = n.ast.body
      if len(body) == 1 and isinstance(body[0], ast.AugAssign) and isinstance(body[0].op, ast.Add) and ast.unparse(body[0].target) == x:
        out[n.id] = (x, t.right, body[0])
  return out


def alignment_states(g, var: str, pads):
  """Forward dataflow: 'A' aligned / 'U' unaligned for `var` at entry of each node."""
  state = {g.entry.id: 'U'}
  work = [g.entry.id]
  pad_body = {id(p[2]) for h, p in pads.items() if p[0] == var}
  while work:
    n = work.pop()
    s_in = state[n]
    node = g.nodes[n]
    for d, lab in g.succ[n]:
      s = s_in
      if node.kind == 'while' and n in pads and pads[n][0] == var:
        s = 'A' if lab == 'F' else 'U'
      elif node.kind == 'stmt':
        a = node.ast
        writes = False
        if isinstance(a, ast.AugAssign) and ast.unparse(a.target) == var:
          writes = True
        if isinstance(a, ast.Assign) and any(ast.unparse(t) == var for t in a.targets):
          writes = True
        if writes:
          s = 'U'
      old = state.get(d)
      new = s if old is None else ('A' if (old == 'A' and s == 'A') else 'U')
      if new != old:
        state[d] = new
        work.append(d)
  return state


def _require_stream_idiom(f, g, pads):
  """The rules below decide the 'measured stream' idiom (serialise, pad the
  byte stream in a loop, record len(stream) as offset, append, pad). Another
  way of computing offsets (e.g. arithmetic on sizes) is not recognised: that
  is a loud 'cannot decide', not a violation."""
  streams = [st for st in f.node.body if isinstance(st, ast.Assign) and isinstance(st.value, ast.Call)
             and common.call_name(st.value).endswith('convert_object_to_bytearray') and isinstance(st.targets[0], ast.Name)]
  offs = [n for n in g.nodes if n.kind == 'stmt' and isinstance(n.ast, ast.Assign) and isinstance(n.ast.targets[0], ast.Attribute) and n.ast.targets[0].attr == 'offset'
          and isinstance(n.ast.value, ast.Call) and common.call_name(n.ast.value) == 'len']
  return len(streams) == 2 and bool(pads) and bool(offs)


def _idiom_or_table(ctx, R, f, g, pads):
  """The structural rules R1/R2 speak about the measured-stream idiom only. A
  rewrite that computes offsets another way is decided by the layout table
  (C16.R6), which does not depend on the shape of the code."""
  if _require_stream_idiom(f, g, pads):
    return True
  ctx.check(R, True, f.node, f, 'measured-stream idiom absent: this structural rule does not apply, the layout table C16.R6 decides', '')
  return False


def r1_alignment(ctx):
  R = 'C16.R1'
  ctx.rule(R, 'every buffer offset is recorded while the byte stream is 16-byte aligned; size = length of the constant appended there', floor=1)
  f = ctx.repo.func(f'{MM}._serialize_large_model')
  ctx.instance(R)
  g = cfgmod.build(f.node)
  pads = _pad_loops(g)
  if not _idiom_or_table(ctx, R, f, g, pads):
    return
  ctx.check(R, len(pads) >= 4, f.node, f, f'{len(pads)} padding loops', 'expected padding loops after both serialisations and after each appended constant in both passes')
  for h, (x, m, _) in pads.items():
    try:
      v = ctx.ev.eval(m, f.module, {})
    except Exception:  # pylint: disable=broad-except
      v = None
    ctx.check(R, v == 16, g.nodes[h].ast, f, g.nodes[h].ast.test, f'padding modulus is {v}, the external-buffer format requires 16-byte alignment')
  offs = [n for n in g.nodes if n.kind == 'stmt' and isinstance(n.ast, ast.Assign) and isinstance(n.ast.targets[0], ast.Attribute) and n.ast.targets[0].attr == 'offset']
  real = []
  for n in offs:
    v = n.ast.value
    if isinstance(v, ast.Call) and common.call_name(v) == 'len':
      real.append(n)
  if not ctx.check(R, len(real) >= 1, f.node, f, 'buffer.offset = len(stream)', 'no offset is computed from the stream length'):
    return
  for n in real:
    var = ast.unparse(n.ast.value.args[0])
    st = alignment_states(g, var, pads)
    ctx.check(R, st.get(n.id) == 'A', n.ast, f, n.ast,
              f'offset recorded while `{var}` may be unaligned (a constant was appended, or the flatbuffer serialised, without padding to 16 bytes first)')
    # the size next to it and the bytes appended right after
    nxt = [g.nodes[d] for d, _ in g.succ[n.id]]
    size = next((m for m in g.nodes if m.kind == 'stmt' and isinstance(m.ast, ast.Assign) and isinstance(m.ast.targets[0], ast.Attribute)
                 and m.ast.targets[0].attr == 'size' and ast.unparse(m.ast.targets[0].value) == ast.unparse(n.ast.targets[0].value)
                 and isinstance(m.ast.value, ast.Call) and common.call_name(m.ast.value) == 'len'), None)
    if ctx.check(R, size is not None, n.ast, f, n.ast, 'no size is recorded next to the offset'):
      data = ast.unparse(size.ast.value.args[0])
      after = g.reachable([n.id])
      appended = [m for m in g.nodes if m.id in after and m.kind == 'stmt' and isinstance(m.ast, ast.AugAssign) and ast.unparse(m.ast.target) == var and ast.unparse(m.ast.value) == data]
      ctx.check(R, len(appended) >= 1, size.ast, f, size.ast, f'the recorded size is len({data}) but {data} is not what is appended to the stream at that offset')
      # between offset and append nothing else is appended
      if appended:
        mid = g.reachable([n.id], blocked={appended[0].id})
        others = [m for m in mid if g.nodes[m].kind == 'stmt' and isinstance(g.nodes[m].ast, ast.AugAssign) and ast.unparse(g.nodes[m].ast.target) == var and m != appended[0].id and m != n.id]
        inloop = [m for m in others if not any(id(g.nodes[m].ast) == id(p[2]) for p in pads.values())]
        ctx.check(R, not inloop, n.ast, f, n.ast, 'bytes are appended between recording the offset and appending the constant')


def _norm_skip(test: ast.AST) -> str:
  """Skip condition modulo zero-length data: appending b'' to an aligned stream
  and padding it changes nothing, so `X is None`, `not X`, `X is None or
  len(X) == 0` describe the same emitted bytes."""
  def absent(e):
    if isinstance(e, ast.Compare) and len(e.ops) == 1 and isinstance(e.ops[0], ast.Is) and isinstance(e.comparators[0], ast.Constant) and e.comparators[0].value is None:
      return defuse.norm(e.left)
    if isinstance(e, ast.UnaryOp) and isinstance(e.op, ast.Not):
      return defuse.norm(e.operand)
    return None

  def empty(e):
    if isinstance(e, ast.Compare) and len(e.ops) == 1 and isinstance(e.ops[0], (ast.Eq, ast.LtE)) and isinstance(e.left, ast.Call) and common.call_name(e.left) == 'len' \
        and isinstance(e.comparators[0], ast.Constant) and e.comparators[0].value == 0:
      return defuse.norm(e.left.args[0])
    if isinstance(e, ast.UnaryOp) and isinstance(e.op, ast.Not) and isinstance(e.operand, ast.Call) and common.call_name(e.operand) == 'len':
      return defuse.norm(e.operand.args[0])
    return None
  parts = test.values if isinstance(test, ast.BoolOp) and isinstance(test.op, ast.Or) else [test]
  xs = {absent(p) for p in parts} - {None}
  rest = [p for p in parts if absent(p) is None and not (empty(p) in xs)]
  if len(xs) == 1 and not rest:
    return f'{xs.pop()} is absent/empty'
  return defuse.norm(test)


def _pass_summary(f, loop: ast.For, acc: str):
  """Normalised description of one pass over the buffers."""
  env = {}
  items = []
  for st in loop.body:
    if isinstance(st, ast.Assign) and isinstance(st.targets[0], ast.Name):
      env[st.targets[0].id] = defuse.subst(st.value, env)
    elif isinstance(st, ast.If) and any(isinstance(x, ast.Continue) for x in st.body):
      items.append(('skip-if', _norm_skip(defuse.subst(st.test, env))))
    elif isinstance(st, ast.AugAssign) and ast.unparse(st.target) == acc:
      items.append(('append', defuse.norm(defuse.subst(st.value, env))))
    elif isinstance(st, ast.While):
      items.append(('pad', defuse.norm(st.test).replace(acc, 'ACC'), defuse.norm(st.body[0].value) if st.body and isinstance(st.body[0], ast.AugAssign) else '?'))
    elif isinstance(st, ast.Assign):
      continue  # offset/size bookkeeping of the first pass
    else:
      items.append(('other', defuse.norm(st)))
  it = loop.iter
  src = defuse.norm(it)
  idx = None
  if isinstance(loop.target, ast.Tuple) and isinstance(loop.target.elts[0], ast.Name):
    idx = loop.target.elts[0].id
  norm_items = []
  for x in items:
    norm_items.append(tuple(str(y).replace(idx, 'IDX') if idx else str(y) for y in x))
  return {'iter': src, 'items': norm_items}


def r2_pass_agreement(ctx):
  R = 'C16.R2'
  ctx.rule(R, 'the emitting pass appends exactly the byte sequence the offset-computing pass measured', floor=1)
  f = ctx.repo.func(f'{MM}._serialize_large_model')
  ctx.instance(R)
  if not _idiom_or_table(ctx, R, f, cfgmod.build(f.node), _pad_loops(cfgmod.build(f.node))):
    return
  loops = [n for n in f.node.body if isinstance(n, ast.For)]
  accs = {}
  for st in f.node.body:
    if isinstance(st, ast.Assign) and isinstance(st.value, ast.Call) and common.call_name(st.value).endswith('convert_object_to_bytearray') and isinstance(st.targets[0], ast.Name):
      accs[st.targets[0].id] = st
  if not ctx.check(R, len(accs) == 2, f.node, f, f'serialisations: {sorted(accs)}', 'two serialisations (dummy pass and final pass) are expected'):
    return
  passes = []
  for l in loops:
    for acc in accs:
      if any(isinstance(x, ast.AugAssign) and ast.unparse(x.target) == acc for x in ast.walk(l)):
        passes.append((acc, l))
  if not ctx.check(R, len(passes) == 2, f.node, f, 'two passes', 'expected one offset-computing loop and one emitting loop'):
    return
  s1 = _pass_summary(f, passes[0][1], passes[0][0])
  s2 = _pass_summary(f, passes[1][1], passes[1][0])
  ctx.check(R, s1 == s2, passes[1][1], f, f'pass1={s1} pass2={s2}',
            f'the two passes differ: the first measures {s1} but the second emits {s2}; offsets then point at the wrong bytes')
  ctx.sample(R, {'pass': s1})
  # identical prefix: serialise the same object, then pad
  args = {acc: defuse.norm(st.value) for acc, st in accs.items()}
  ctx.check(R, len(set(args.values())) == 1, f.node, f, f'serialised objects {args}', 'both passes must serialise the same model object')
  g = cfgmod.build(f.node)
  pads = _pad_loops(g)
  for acc, st in accs.items():
    n = g.node_of(st)
    nxt = [d for d, _ in g.succ[n.id]]
    ctx.check(R, len(nxt) == 1 and nxt[0] in pads and pads[nxt[0]][0] == acc, st, f, st, f'`{acc}` must be padded to the alignment right after serialisation')
  # the final stream is what is returned
  rets = [n for n in common.walk_no_nested(f.node) if isinstance(n, ast.Return)]
  ctx.check(R, len(rets) == 1 and ast.unparse(rets[0].value) == passes[1][0], f.node, f, 'return', 'the emitted stream must be returned')
  # the real offsets are assigned between the two serialisations
  order = [n for n in f.node.body]
  i1 = order.index(accs[passes[0][0]])
  i2 = order.index(accs[passes[1][0]])
  ctx.check(R, i1 < order.index(passes[0][1]) < i2 < order.index(passes[1][1]), f.node, f, 'statement order', 'offsets must be computed after the dummy serialisation and before the final one')


def r3_placeholders(ctx):
  R = 'C16.R3'
  ctx.rule(R, 'placeholders written before the dummy serialisation are non-zero for every buffer that carries data', floor=1)
  f = ctx.repo.func(f'{MM}._serialize_large_model')
  ctx.instance(R)
  first = [n for n in f.node.body if isinstance(n, ast.For)]
  if not first:
    raise index.AnalysisError(f'{f.fq}: no loops')
  l = first[0]
  vals = {}
  cond = None
  for n in ast.walk(l):
    if isinstance(n, ast.If) and cond is None:
      cond = defuse.norm(n.test)
    if isinstance(n, ast.Assign) and isinstance(n.targets[0], ast.Attribute) and n.targets[0].attr in ('offset', 'size', 'data'):
      try:
        vals[n.targets[0].attr] = ctx.ev.eval(n.value, f.module, {})
      except Exception:  # pylint: disable=broad-except
        vals[n.targets[0].attr] = 'unfoldable'
  ctx.check(R, vals.get('data', 0) is None, l, f, f'placeholder loop sets {vals}', 'constants must be removed from the model before the dummy serialisation')
  for k in ('offset', 'size'):
    v = vals.get(k)
    ctx.check(R, isinstance(v, int) and v != 0, l, f, f'placeholder {k} = {v}',
              f'placeholder {k} is {v}: flatbuffers omits zero-valued scalars, so the table grows when the real value is written and every offset is off')
  ctx.check(R, cond is not None and 'data is not None' in cond, l, f, f'condition {cond}', 'placeholders must be set exactly for the buffers that carry data')
  # skip condition of the passes is the same notion of "carries data" through the constant map
  pc = ctx.repo.func(f'{MM}._process_constant_map')
  bv = common.loop_var(pc.node, '.buffers')
  none_arms = [n for n in common.walk_no_nested(pc.node) if isinstance(n, ast.If) and defuse.norm(n.test) == f'{bv}.data is None']
  ok = len(none_arms) == 1 and any(
      isinstance(c.func, ast.Attribute) and c.func.attr == 'append' and c.args and defuse.norm(c.args[0]) in ('None', f'{bv}.data')
      for st in none_arms[0].body for c in common.calls_in(st))
  ctx.check(R, ok, pc.node, pc, 'None entries', 'buffers without data must be recorded as None in the constant map')


def r4_constant_map(ctx):
  R = 'C16.R4'
  ctx.rule(R, 'the constant map has exactly one entry per buffer, in order, and belongs to the current call', floor=1)
  pc = ctx.repo.func(f'{MM}._process_constant_map')
  ctx.instance(R)
  g = cfgmod.build(pc.node)
  loops = [n for n in g.nodes if n.kind == 'for']
  if not ctx.check(R, len(loops) == 1 and defuse.norm(loops[0].ast.iter).endswith('.buffers'), pc.node, pc, 'loop over buffers', 'the constant map must be built by one loop over the model buffers'):
    return
  apps = {n.id for n in g.nodes for c in n.calls() if isinstance(c.func, ast.Attribute) and c.func.attr == 'append' and '_constant_map' in ast.unparse(c.func.value)}
  mn, mx = g.iteration_count(loops[0].id, apps)
  ctx.check(R, (mn, mx) == (1, 1), loops[0].ast, pc, f'appends per buffer: {mn}..{">1" if mx > 1 else mx}',
            'a buffer gets no (or more than one) constant-map entry on some path: every later index is shifted and offsets select another buffer\'s bytes')
  # size accounting on both data branches
  adds = [n for n in g.nodes if n.kind == 'stmt' and isinstance(n.ast, ast.AugAssign) and 'len(' in ast.unparse(n.ast.value)]
  data_apps = [n for n in apps if 'buffer.data' in ast.unparse(g.nodes[n].ast) and True]
  ctx.check(R, len(adds) >= 2, pc.node, pc, 'size accounting', 'the total constant size must be accumulated for ndarray and bytes buffers alike')
  # freshness: (A) the map is reset in this call, or (B) the ModelModifier is per call
  mm = ctx.repo.cls(MM)
  a_ok = False
  for name in ('modify_model', '_process_constant_map'):
    m = mm.methods[name]
    for n in common.walk_no_nested(m.node):
      if isinstance(n, ast.Assign) and any(ast.unparse(t) == 'self._constant_map' for t in n.targets) and isinstance(n.value, (ast.List, ast.Call)):
        a_ok = True
  from sa import report  # pylint: disable=g-import-not-at-top
  from sa.rules import c14  # pylint: disable=g-import-not-at-top
  sub = report.Ctx(ctx.prop, ctx.repo, ctx.tier, ctx.seed, quiet=True)
  sub._cache = ctx._cache  # pylint: disable=protected-access
  c14.r2_fresh_helpers(sub)
  b_viol = [v for v in sub.violations if 'ModelModifier' in v.message or 'ModelModifier' in v.construct]
  shared_cls = [h for h in c14.shared_mutable_class_attrs(ctx) if h[0].name == 'ModelModifier']
  b_ok = not b_viol and not shared_cls
  w = b_viol[0] if b_viol else None
  ctx.check(R, a_ok or b_ok, (w.where if w else pc.node), pc, 'constant map per call',
            'the constant map is only ever appended to and the ModelModifier object outlives one quantize() call'
            + (f' ({w.message})' if w else '') + (f' (`{shared_cls[0][1]}` is a class-level object shared by all ModelModifier instances)' if shared_cls else '')
            + ': a later large-model serialisation reads the constants of an earlier quantization')
  # the large-model passes index the map with the enumerating index of the same buffer list
  f = ctx.repo.func(f'{MM}._serialize_large_model')
  for l in [n for n in f.node.body if isinstance(n, ast.For)][1:]:
    ok = isinstance(l.iter, ast.Call) and common.call_name(l.iter) == 'enumerate' and defuse.norm(l.iter.args[0]).endswith('.buffers')
    idx = l.target.elts[0].id if ok and isinstance(l.target, ast.Tuple) else None
    uses = [n for n in ast.walk(l) if isinstance(n, ast.Subscript) and '_constant_map' in ast.unparse(n.value)]
    ctx.check(R, ok and uses and all(isinstance(u.slice, ast.Name) and u.slice.id == idx for u in uses), l, f, l.iter,
              'the constant of a buffer must be looked up with the enumerating index of that same buffer')


def r5_threshold(ctx):
  R = 'C16.R5'
  ctx.rule(R, 'the size threshold selecting the large-model path is a constant below 2^31', floor=1)
  f = ctx.repo.func(f'{MM}.modify_model')
  ctx.instance(R)
  ifs = [n for n in common.walk_no_nested(f.node) if isinstance(n, ast.If) and any('_serialize_large_model' in ast.unparse(s) for s in n.body + n.orelse)]
  if not ctx.check(R, len(ifs) == 1, f.node, f, 'path selection', 'modify_model must select the serialisation path by the constant size'):
    return
  t = ifs[0].test
  ok = isinstance(t, ast.Compare) and len(t.ops) == 1 and isinstance(t.ops[0], (ast.Gt, ast.GtE))
  thr = None
  if ok:
    try:
      thr = ctx.ev.eval(t.comparators[0], f.module, {})
    except Exception:  # pylint: disable=broad-except
      thr = None
  ctx.check(R, ok and isinstance(thr, int) and 0 < thr < 2 ** 31, t, f, t, f'threshold {thr} must be a positive constant below 2^31 (flatbuffer size limit)')
  large_in_true = ok and any('_serialize_large_model' in ast.unparse(s) for s in ifs[0].body)
  ctx.check(R, large_in_true and any('_serialize_small_model' in ast.unparse(s) for s in ifs[0].orelse), ifs[0], f, ifs[0].test, 'sizes above the threshold must take the large-model path and the others the small one')
  inl = defuse.Inliner(ctx.repo, max_depth=0)
  left = defuse.norm(inl.inline(f, t.left)) if ok else ''
  ctx.check(R, '_process_constant_map' in left, t, f, t, 'the compared size must be the total constant size computed by _process_constant_map')
  g = cfgmod.build(f.node)
  tg = [n for n in g.nodes if any(common.call_name(c).endswith('transform_graph') for c in n.calls())]
  pm = [n for n in g.nodes if any(common.call_name(c).endswith('_process_constant_map') for c in n.calls())]
  ctx.check(R, tg and pm and pm[0].id in g.reachable([tg[0].id]) and tg[0].id not in g.reachable([pm[0].id]), f.node, f, 'order', 'constants must be collected after the graph was transformed')


def r6_layout_table(ctx):
  """Decision table of the large-model layout over small buffer configurations.

  The flatbuffer serialiser is replaced by a model with the one property the
  code relies on (and the one it must not rely on): the table it emits has a
  size that depends on which scalar fields are non-zero, not on their values.
  Everything else - constant map, placeholders, both passes, padding - is the
  repository's own code, enumerated by the path interpreter. Independent of how
  the offsets are computed (measured stream, arithmetic, helpers)."""
  from sa import absint  # pylint: disable=g-import-not-at-top
  from sa.consteval import Obj  # pylint: disable=g-import-not-at-top
  R = 'C16.R6'
  rs = ctx.rule(R, 'layout table: in the emitted stream every constant sits at its recorded, 16-aligned offset with its recorded size, for every small buffer configuration', floor=1)
  pc = ctx.repo.func(f'{MM}._process_constant_map')
  sl = ctx.repo.func(f'{MM}._serialize_large_model')
  ctx.instance(R)
  configs = [
      [None, b'abc'],
      [None, b'abc', b'0123456789abcdef', None, b'xy'],
      [None, b'abc', b'abc', b'zz'],                       # byte-identical constants
      [None, b'0123456789abcdef', b'0123456789abcdef0', b'q'],
      [None, None],
      [b'k' * 15, b'', b'l' * 17],                         # empty (zero-length) data
  ]
  rs.exhaustive = True
  for header in (40, 48, 61):
    for cfg in configs:
      snaps = []

      def serialise(args, kwargs, header=header, snaps=snaps):
        model = args[0]
        fields = []
        n = header
        for b in model.fields['buffers']:
          off, size, data = b.fields['offset'], b.fields['size'], b.fields['data']
          if isinstance(off, absint.Opaque) or isinstance(size, absint.Opaque):
            raise index.AnalysisError('opaque offset/size reached the serialiser model')
          n += (8 if off else 0) + (8 if size else 0) + (len(data) if data is not None else 0)
          fields.append((off, size, data))
        snaps.append(fields)
        return bytes([0x48]) * n
      it = absint.Interp(ctx.repo, ctx.ev, hooks={'flatbuffer_utils.convert_object_to_bytearray': serialise})
      bufs = [Obj('x:BufferT', {'data': d, 'offset': 0, 'size': 0}) for d in cfg]
      # The buffers play every role a buffer can have in a model: read by an operator, belonging to a constant that is only
      # a graph output, referenced by a metadata entry, referenced by nothing at all. The ordinary path embeds them all.
      tensors, consumed, out_only, meta = [Obj('x:TensorT', {'name': b'x', 'buffer': 0, 'shape': [1], 'type': 0})], [], [], []
      for k in range(1, len(cfg)):
        role = k % 4
        if role in (0, 1):
          tensors.append(Obj('x:TensorT', {'name': f'c{k}'.encode(), 'buffer': k, 'shape': [1], 'type': 0}))
          (consumed if role == 0 else out_only).append(len(tensors) - 1)
        elif role == 3:
          meta.append(Obj('x:MetadataT', {'name': f'm{k}', 'buffer': k}))
      tensors.append(Obj('x:TensorT', {'name': b'y', 'buffer': 0, 'shape': [1], 'type': 0}))
      op = Obj('x:OperatorT', {'opcodeIndex': 0, 'inputs': [0] + consumed, 'outputs': [len(tensors) - 1]})
      sg = Obj('x:SubGraphT', {'tensors': tensors, 'operators': [op], 'inputs': [0], 'outputs': [len(tensors) - 1] + out_only, 'name': b'main'})
      model = Obj('x:ModelT', {'buffers': bufs, 'subgraphs': [sg], 'metadata': meta or None, 'operatorCodes': [Obj('x:OperatorCodeT', {'builtinCode': 0})], 'signatureDefs': None})
      selfo = Obj(MM, {'_constant_map': []})
      label = f'header {header}, buffers {[None if d is None else len(d) for d in cfg]}'
      o1 = it.outcomes(pc, [selfo, model], copy_args=False)
      if len(o1) != 1 or o1[0].kind != 'return':
        ctx.check(R, False, pc.node, pc, label, f'constant map not decided: {[o.short() for o in o1]}')
        continue
      total = o1[0].value
      cmap = selfo.fields['_constant_map']
      recorded = sum(len(x) for x in cmap if isinstance(x, (bytes, bytearray))) if isinstance(cmap, list) else None
      ctx.check(R, total == recorded, pc.node, pc, f'{label}: total {total}, constant map holds {recorded} bytes', 'the size that selects the large-model path must be the size of the constants recorded in the constant map (the data that leaves the table)')
      o2 = it.outcomes(sl, [selfo, model], copy_args=False)
      if len(o2) != 1 or o2[0].kind != 'return' or not isinstance(o2[0].value, (bytes, bytearray)) or not snaps:
        ctx.check(R, False, sl.node, sl, label, f'layout not decided: {[o.short()[:80] for o in o2]}')
        continue
      stream = bytes(o2[0].value)
      final = snaps[-1]
      table_len = header + sum((8 if off else 0) + (8 if size else 0) + (len(d) if d is not None else 0) for off, size, d in final)
      ctx.check(R, stream[:table_len] == bytes([0x48]) * table_len and all(d is None or len(d) == 0 for _, _, d in final), sl.node, sl, label,
                'the stream must start with the table serialised LAST (with the final offsets) and constants must not also be stored inside the table')
      for k, d in enumerate(cfg):
        off, size, _ = final[k]
        if d is None:
          ctx.check(R, not off and not size, sl.node, sl, f'{label}: buffer {k} (no data) offset={off} size={size}', 'a buffer without data must not point into the stream')
          continue
        if len(d) == 0:
          # a zero-length constant selects no bytes: either it stays in the table (offset = size = 0) or it points at an aligned, in-bounds position
          ok = not size and (not off or (isinstance(off, int) and off % 16 == 0 and table_len <= off <= len(stream)))
          ctx.check(R, ok, sl.node, sl, f'{label}: buffer {k} (zero-length) offset={off} size={size}', 'a zero-length constant must select zero bytes at a valid position')
          continue
        ok = isinstance(off, int) and isinstance(size, int) and off % 16 == 0 and off >= table_len and size == len(d) and stream[off:off + size] == d
        ctx.check(R, ok, sl.node, sl, f'{label}: buffer {k} offset={off} size={size} stream length {len(stream)}',
                  f'buffer {k}: the bytes at its recorded offset/size are not its constant (or the offset is not 16-aligned / inside the table): '
                  'the runtime would read another constant\'s bytes')
      spans = sorted((final[k][0], final[k][0] + final[k][1], k) for k, d in enumerate(cfg) if d and isinstance(final[k][0], int) and isinstance(final[k][1], int))
      for (a0, a1, ka), (b0, b1, kb) in zip(spans, spans[1:]):
        ctx.check(R, a1 <= b0, sl.node, sl, f'{label}: buffers {ka} [{a0},{a1}) and {kb} [{b0},{b1})', f'the byte ranges of buffers {ka} and {kb} overlap')
      # no table growth between the measuring and the final serialisation
      if len(snaps) >= 2:
        shape = lambda s: [(bool(o), bool(z), d is None) for o, z, d in s]
        ctx.check(R, shape(snaps[0]) == shape(snaps[-1]), sl.node, sl, f'{label}: field presence {shape(snaps[0])} vs {shape(snaps[-1])}',
                  'a scalar field is zero in one serialisation and non-zero in the other: flatbuffers omits zero scalars, the table size changes and every offset is off')


def run(ctx):
  ctx.assume('flatbuffers omits scalar fields whose value is the default (0)')
  r6_layout_table(ctx)
  r1_alignment(ctx)
  r2_pass_agreement(ctx)
  r3_placeholders(ctx)
  r4_constant_map(ctx)
  r5_threshold(ctx)
  from sa.rules import shared as _shared  # pylint: disable=g-import-not-at-top
  _shared.rule_signature_contract(ctx, 'C16.R7', large=True)
